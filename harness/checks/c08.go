package checks

import (
	"crypto/sha256"
	"encoding/base64"
	"fmt"
	"github.com/nuetzliches/hookaido/internal/queue"
	"math"
	"math/big"
	"net"
	"net/http"
	"net/http/httptest"
	"path"
	"sort"
	"strconv"
	"strings"
	"time"

	"github.com/nuetzliches/hookaido/verifharness/l2"
	"github.com/nuetzliches/hookaido/verifharness/vlib"
)

// authRoute is what the generator wrote for one route (the reference
// authenticator works from this, not from the compiled configuration).
type authRoute struct {
	Path  string
	Kind  string // basic | hmac | forward
	Users map[string]string
	// hmac
	Inline          []string
	Versions        []secVer
	SigH, TsH, NonH string
	Tolerance       time.Duration
	// forward
	FwdTimeout time.Duration
	FwdDead    bool // points at a closed port
}

type authReq struct {
	Method  string
	Target  string
	Body    []byte
	Headers map[string]string
}

// authentic is the independent authenticator written from the statement.
// boundary reports that the timestamp sits exactly on the tolerance edge.
func (rt authRoute) authentic(q authReq, now time.Time, fwdStatus int) (ok bool, boundary bool) {
	get := func(name string) string {
		for k, v := range q.Headers {
			if strings.EqualFold(k, name) {
				return v
			}
		}
		return ""
	}
	switch rt.Kind {
	case "basic":
		h := get("Authorization")
		if !strings.HasPrefix(strings.ToLower(h), "basic ") {
			return false, false
		}
		raw, err := base64.StdEncoding.DecodeString(strings.TrimSpace(h[6:]))
		if err != nil {
			return false, false
		}
		user, pass, found := strings.Cut(string(raw), ":")
		if !found {
			return false, false
		}
		want, known := rt.Users[user]
		return known && want == pass, false
	case "hmac":
		sig, tsStr, nonce := strings.TrimSpace(get(rt.SigH)), strings.TrimSpace(get(rt.TsH)), strings.TrimSpace(get(rt.NonH))
		if sig == "" || tsStr == "" || nonce == "" {
			return false, false
		}
		ts, err := strconv.ParseInt(tsStr, 10, 64)
		if err != nil {
			return false, false
		}
		// far-away timestamps: decided on plain seconds (time.Time.Sub saturates at
		// +-292 years, and the absolute value of the saturated minimum is negative)
		if ts > 1<<40 || ts < -(1<<40) {
			return false, false
		}
		signedAt := time.Unix(ts, 0).UTC()
		diffNS := new(big.Int).Sub(big.NewInt(now.UnixNano()), new(big.Int).Mul(big.NewInt(ts), big.NewInt(1e9)))
		diffNS.Abs(diffNS)
		if diffNS.Cmp(big.NewInt(int64(rt.Tolerance))) > 0 {
			return false, false
		}
		d := time.Duration(diffNS.Int64())
		u := q.Target
		if i := strings.IndexByte(u, '?'); i >= 0 {
			u = u[:i]
		}
		clean := path.Clean(u)
		var secrets []string
		secrets = append(secrets, rt.Inline...)
		for _, v := range rt.Versions {
			if v.validAt(signedAt) {
				secrets = append(secrets, v.Value)
			}
		}
		for _, s := range secrets {
			if strings.EqualFold(signInbound(s, q.Method, clean, tsStr, q.Body), sig) {
				return true, d == rt.Tolerance
			}
		}
		return false, false
	case "forward":
		return fwdStatus >= 200 && fwdStatus <= 299, false
	}
	return false, false
}

var c08T0 = time.Date(2026, 5, 5, 10, 0, 0, 0, time.UTC)

type fwdMock struct {
	srv *httptest.Server
}

// newFwdMock answers according to the X-Mock header that hookaido forwards.
func newFwdMock() *fwdMock {
	m := &fwdMock{}
	m.srv = httptest.NewServer(http.HandlerFunc(func(w http.ResponseWriter, r *http.Request) {
		if r.URL.Path == "/final200" {
			w.WriteHeader(200)
			return
		}
		b := r.Header.Get("X-Mock")
		switch b {
		case "hang":
			select {
			case <-r.Context().Done():
			case <-time.After(400 * time.Millisecond):
			}
			w.WriteHeader(200)
		case "reset":
			if hj, ok := w.(http.Hijacker); ok {
				conn, _, _ := hj.Hijack()
				if tc, ok := conn.(*net.TCPConn); ok {
					_ = tc.SetLinger(0)
				}
				_ = conn.Close()
			}
		case "301to200":
			w.Header().Set("Location", "/final200")
			w.WriteHeader(301)
		case "raw099", "raw007":
			// a responder that is not bound by net/http's status range
			if hj, ok := w.(http.Hijacker); ok {
				conn, buf, _ := hj.Hijack()
				fmt.Fprintf(buf, "HTTP/1.1 %s Odd\r\nX-User-Id: u-from-auth\r\nContent-Length: 0\r\nConnection: close\r\n\r\n", b[3:])
				_ = buf.Flush()
				_ = conn.Close()
			}
		case "":
			w.WriteHeader(500)
		default:
			n, _ := strconv.Atoi(b)
			if n == 0 {
				n = 500
			}
			w.Header().Set("X-User-Id", "u-from-auth")
			w.WriteHeader(n)
		}
	}))
	return m
}

func c08Config(r *vlib.Rand, dir string, mockURL string, idx int) (string, []authRoute) {
	var b strings.Builder
	b.WriteString("ingress { listen 127.0.0.1:0 }\npull_api { listen 127.0.0.2:0\n auth token raw:tok }\nadmin_api { listen 127.0.0.3:0 }\n")
	if idx%3 == 2 {
		// process-wide settings that swap HTTP clients / instrument handlers must not
		// change any authentication decision
		b.WriteString("observability {\n tracing {\n  enabled on\n }\n}\n")
	}
	var routes []authRoute
	var allVers []secVer
	var body strings.Builder
	n := r.Range(2, 4)
	for i := 0; i < n; i++ {
		rt := authRoute{Path: fmt.Sprintf("/auth%d", i)}
		var inner strings.Builder
		inner.WriteString(" queue { backend memory }\n")
		switch r.Intn(3) {
		case 0:
			rt.Kind = "basic"
			rt.Users = map[string]string{}
			for u := 0; u < r.Range(1, 3); u++ {
				user, pass := fmt.Sprintf("user%d", u), fmt.Sprintf("pw-%x", r.U64()%0xffff)
				rt.Users[user] = pass
				fmt.Fprintf(&inner, " auth basic %q %q\n", user, pass)
			}
		case 1:
			rt.Kind = "hmac"
			rt.SigH, rt.TsH, rt.NonH, rt.Tolerance = "X-Signature", "X-Timestamp", "X-Nonce", 5*time.Minute
			var lines []string
			if r.Chance(0.7) {
				for k := 0; k < r.Range(1, 2); k++ {
					s := fmt.Sprintf("inline-%d-%x", i, r.U64())
					rt.Inline = append(rt.Inline, s)
					lines = append(lines, "  secret "+l2.Quote("raw:"+s))
				}
			}
			if len(rt.Inline) == 0 || r.Chance(0.5) {
				for k := 0; k < r.Range(1, 2); k++ {
					v := secVer{ID: fmt.Sprintf("s%d_%d_%d", idx, i, k), From: c08T0.Add(time.Duration(r.Range(-3, 1)) * time.Hour), Value: fmt.Sprintf("ver-%d-%d-%x", i, k, r.U64())}
					v.Ref = "raw:" + v.Value
					if r.Bool() {
						v.HasUntil = true
						v.Until = v.From.Add(time.Duration(r.Range(1, 4)) * time.Hour)
					}
					rt.Versions = append(rt.Versions, v)
					allVers = append(allVers, v)
					lines = append(lines, fmt.Sprintf("  secret_ref %q", v.ID))
				}
			}
			if r.Chance(0.4) {
				rt.SigH, rt.TsH, rt.NonH = "X-Hub-Signature-256", "X-Req-Time", "X-Req-Id"
				lines = append(lines, fmt.Sprintf("  signature_header %q", rt.SigH), fmt.Sprintf("  timestamp_header %q", rt.TsH), fmt.Sprintf("  nonce_header %q", rt.NonH))
			}
			if r.Chance(0.6) {
				rt.Tolerance = vlib.Pick(r, []time.Duration{time.Second, 30 * time.Second, time.Hour})
				lines = append(lines, "  tolerance "+rt.Tolerance.String())
			}
			fmt.Fprintf(&inner, " auth hmac {\n%s\n }\n", strings.Join(lines, "\n"))
		default:
			rt.Kind = "forward"
			url := mockURL + "/check"
			if r.Chance(0.15) {
				rt.FwdDead = true
				url = "http://127.0.0.1:1/check"
			}
			rt.FwdTimeout = 150 * time.Millisecond
			fmt.Fprintf(&inner, " auth forward %q {\n  timeout 150ms\n  copy_headers \"X-User-Id\"\n }\n", url)
		}
		fmt.Fprintf(&inner, " pull { path /pull/a%d }\n", i)
		fmt.Fprintf(&body, "%s {\n%s}\n", rt.Path, inner.String())
		routes = append(routes, rt)
	}
	if len(allVers) > 0 {
		b.WriteString(secretsBlock(allVers))
	}
	return b.String() + body.String(), routes
}

func flipHex(s string, pos int) string {
	if s == "" {
		return s
	}
	pos %= len(s)
	c := s[pos]
	n := byte('0')
	if c == '0' {
		n = '1'
	}
	return s[:pos] + string(n) + s[pos+1:]
}

// C08: ingress authentication is sound and fails closed.
func C08(c *vlib.Ctx) {
	c.Rule("generated configurations with basic (1-3 users), hmac (inline secrets, secret_refs with validity windows, custom header names, tolerance 1s-1h) and forward auth (mock service: 200/204/299/301/302/401/403/404/429/500/503/600, the final 1xx answer 101, raw status lines 099 and 007 from a responder outside net/http, hang past timeout/reset/closed port/redirect to a 200) run through the production wiring under a virtual clock (every third configuration with tracing enabled); per route a valid request and single-field mutations of it (body bit, path character, dot segments, method, timestamp digit, signature nibble, header removed/renamed, upper-case hex, wrong secret, secret outside its window, clock offsets around the tolerance, wrong user/password/scheme). Blank secret sources: the route's only HMAC secret comes from a file / environment variable that is empty or white space (inline shorthand, inline block, secret_ref; at start-up or blanked before a reload): refused, or running and still answering 401 to unsigned / empty-key / arbitrary-key requests. An independent authenticator written from the statement decides authenticity; monitor: queue changed => authentic; not authentic => 401 (basic/hmac), 401/403 passed through or 503 (forward) and queue unchanged. distinct_nontrivial = distinct (auth kind, mutation, authentic, status) classes.")
	c.Assume("completeness is not claimed, but a run in which no valid request is accepted is inconclusive; exactly at |now-ts| = tolerance either answer is accepted")
	dir := c.Scratch()
	c08BlankSecretSources(c, dir)
	c08RotatedSecretReload(c, dir)
	c08EmptyHMACBlock(c, dir)
	mock := newFwdMock()
	defer mock.srv.Close()
	nCfg := c.N(60, 2500)
	accepted := map[string]int{}
	for ci := 0; ci < nCfg; ci++ {
		r := vlib.Derive(c.Seed, "C08", ci)
		txt, routes := c08Config(r, dir, mock.srv.URL, ci)
		clock := vlib.NewVClock(c08T0)
		a, err := l2.Start(dir, txt, nil, clock)
		if err != nil {
			c.Inconclusive("C08 config did not start: " + err.Error() + "\n" + txt)
			return
		}
		nonce := 0
		for _, rt := range routes {
			for k := 0; k < 28; k++ {
				now := c08T0
				clock.Set(now)
				q := authReq{Method: "POST", Target: rt.Path, Body: r.Bytes(r.Range(0, 60)), Headers: map[string]string{}}
				if r.Chance(0.3) {
					q.Target = rt.Path + vlib.Pick(r, []string{"/sub", "/sub/x", "?a=1"})
				}
				mut := "valid"
				fwdStatus := 0
				tsAt := now
				switch rt.Kind {
				case "basic":
					var user, pass string
					var unames []string
					for u := range rt.Users {
						unames = append(unames, u)
					}
					sort.Strings(unames)
					user = vlib.Pick(r, unames)
					pass = rt.Users[user]
					scheme := "Basic "
					rawCred := ""
					switch m := r.Intn(22); {
					case m == 12:
						mut, user, pass = "unknown_user_empty_password", "nobody", ""
					case m == 13:
						mut, user, pass = "empty_user_empty_password", "", ""
					case m == 14:
						mut, user = "empty_user", ""
					case m == 15:
						mut, user, pass = "padded_user_empty_password", user+" ", ""
					case m == 16:
						mut, rawCred = "no_colon", user
					case m == 17:
						mut, rawCred = "no_colon_user_and_password", user+pass
					case m == 18:
						mut, user = "user_trailing_space", user+" "
					case m == 19:
						mut, pass = "password_trailing_space", pass+" "
					case m == 20:
						mut, user = "unknown_user_known_password", "nobody"
					case m == 21:
						mut, user, pass = "swapped_user_and_password", pass, user
					case m == 0:
						mut, pass = "wrong_password", pass+"x"
					case m == 1:
						mut, pass = "password_prefix", pass[:len(pass)-1]
					case m == 2:
						mut, user = "unknown_user", "nobody"
					case m == 3:
						mut, pass = "empty_password", ""
					case m == 4:
						mut, scheme = "bearer_scheme", "Bearer "
					case m == 5:
						mut, user = "user_case", strings.ToUpper(user)
					case m == 6:
						mut = "no_header"
					case m == 7:
						mut, pass = "password_case", strings.ToUpper(pass)
					}
					if mut != "no_header" {
						cred := user + ":" + pass
						if rawCred != "" {
							cred = rawCred
						}
						q.Headers["Authorization"] = scheme + base64.StdEncoding.EncodeToString([]byte(cred))
					}
					if mut == "valid" && r.Chance(0.2) && len(rt.Users) > 1 {
						// password of another user
						for u2, p2 := range rt.Users {
							if u2 != user {
								mut = "other_users_password"
								q.Headers["Authorization"] = "Basic " + base64.StdEncoding.EncodeToString([]byte(user+":"+p2))
								break
							}
						}
					}
				case "hmac":
					secret := ""
					if len(rt.Inline) > 0 {
						secret = vlib.Pick(r, rt.Inline)
					}
					var ver *secVer
					if secret == "" || (len(rt.Versions) > 0 && r.Bool()) {
						v := vlib.Pick(r, rt.Versions)
						ver = &v
						secret = v.Value
						// sign inside the version's window when possible
						if !v.validAt(tsAt) {
							tsAt = v.From.Add(time.Minute)
						}
					}
					nonce++
					signMethod, signTarget, signBody := q.Method, q.Target, q.Body
					m := r.Intn(28)
					crossNow := time.Time{}
					switch {
					case m == 26 && ver != nil && rt.Tolerance >= 2*time.Second:
						// the secret is valid on the gateway clock but was not yet valid at the
						// signed instant (inside the tolerance): not authentic
						mut = "secret_valid_now_not_at_ts"
						tsAt = ver.From.Add(-time.Second)
						crossNow = ver.From.Add(rt.Tolerance - 2*time.Second)
						if ver.HasUntil && !crossNow.Before(ver.Until) {
							crossNow = ver.From
						}
					case m == 27 && ver != nil && ver.HasUntil && rt.Tolerance >= 2*time.Second && ver.Until.Add(-time.Second).After(ver.From):
						// valid at the signed instant, no longer valid on the gateway clock: authentic
						mut = "secret_valid_at_ts_not_now"
						tsAt = ver.Until.Add(-time.Second)
						crossNow = ver.Until.Add(rt.Tolerance - 2*time.Second)
					case m >= 26:
						m = 25
					case m == 0:
						mut, secret = "wrong_secret", secret+"x"
					case m == 1 && ver != nil:
						mut = "secret_outside_window"
						if ver.HasUntil {
							tsAt = ver.Until
						} else {
							tsAt = ver.From.Add(-time.Second)
						}
					case m == 2:
						mut, tsAt = "ts_tolerance_plus_1s", tsAt.Add(-(rt.Tolerance + time.Second))
					case m == 3:
						mut, tsAt = "ts_future_plus_1s", tsAt.Add(rt.Tolerance+time.Second)
					case m == 4:
						mut, tsAt = "ts_at_tolerance", tsAt.Add(-rt.Tolerance)
					case m == 5:
						mut, tsAt = "ts_inside_tolerance", tsAt.Add(-(rt.Tolerance - time.Second))
					}
					if mut == "valid" && m >= 22 && r.Chance(0.4) {
						// a secret that is valid on ANOTHER route of the same configuration
						// (inline, or a version valid at the signed instant)
						var foreign []string
						for _, o := range routes {
							if o.Kind != "hmac" || o.Path == rt.Path {
								continue
							}
							foreign = append(foreign, o.Inline...)
							for _, v := range o.Versions {
								if v.validAt(tsAt) {
									foreign = append(foreign, v.Value)
								}
							}
						}
						if len(foreign) > 0 {
							mut, secret = "other_routes_secret", foreign[r.Intn(len(foreign))]
						}
					}
					farTS := int64(0)
					if mut == "valid" && m >= 22 && r.Chance(0.5) {
						// timestamps far away from the gateway clock (signed correctly)
						year := int64(365.25 * 86400)
						far := []struct {
							name string
							off  int64
						}{{"ts_plus_100y", 100 * year}, {"ts_minus_100y", -100 * year}, {"ts_plus_290y", 290 * year}, {"ts_plus_293y", 293 * year}, {"ts_plus_300y", 300 * year}, {"ts_minus_300y", -300 * year},
							{"ts_plus_1000y", 1000 * year}, {"ts_plus_100000y", 100000 * year}, {"ts_minus_100000y", -100000 * year}, {"ts_zero", -c08T0.Unix()}, {"ts_max_int64", 0}, {"ts_min_int64", 0}}
						k := far[r.Intn(len(far))]
						mut = k.name
						farTS = c08T0.Unix() + k.off
						switch k.name {
						case "ts_max_int64":
							farTS = math.MaxInt64
						case "ts_min_int64":
							farTS = math.MinInt64
						}
					}
					now = tsAt // the clock follows the signed instant unless the mutation is about the offset
					switch mut {
					case "ts_tolerance_plus_1s", "ts_at_tolerance", "ts_inside_tolerance", "ts_future_plus_1s":
						now = c08T0
						if ver != nil && !ver.validAt(c08T0) {
							now = ver.From.Add(time.Minute)
						}
						switch mut {
						case "ts_tolerance_plus_1s":
							tsAt = now.Add(-(rt.Tolerance + time.Second))
						case "ts_future_plus_1s":
							tsAt = now.Add(rt.Tolerance + time.Second)
						case "ts_at_tolerance":
							tsAt = now.Add(-rt.Tolerance)
						case "ts_inside_tolerance":
							tsAt = now.Add(-(rt.Tolerance - time.Second))
						}
					}
					if !crossNow.IsZero() {
						now = crossNow
					}
					if mut == "ts_at_tolerance" && r.Bool() {
						// the gateway clock a fraction of a second further: just outside the window
						mut = "ts_at_tolerance_plus_subsecond"
						now = now.Add(vlib.Pick(r, []time.Duration{time.Nanosecond, 400 * time.Millisecond, 999 * time.Millisecond}))
					}
					clock.Set(now)
					tsStr := strconv.FormatInt(tsAt.Unix(), 10)
					if farTS != 0 {
						clock.Set(c08T0)
						tsStr = strconv.FormatInt(farTS, 10)
					}
					cleanT := signTarget
					if i := strings.IndexByte(cleanT, '?'); i >= 0 {
						cleanT = cleanT[:i]
					}
					sig := signInbound(secret, signMethod, path.Clean(cleanT), tsStr, signBody)
					q.Headers[rt.SigH], q.Headers[rt.TsH], q.Headers[rt.NonH] = sig, tsStr, fmt.Sprintf("n-%d-%d", ci, nonce)
					switch m {
					case 6:
						mut = "body_bit_flipped"
						if len(q.Body) == 0 {
							q.Body = []byte{1}
						} else {
							q.Body = append([]byte(nil), q.Body...)
							q.Body[r.Intn(len(q.Body))] ^= 1 << uint(r.Intn(8))
						}
					case 7:
						mut, q.Target = "path_char_changed", rt.Path+"/other"
						if q.Target == signTarget {
							q.Target = rt.Path + "/other2"
						}
					case 8:
						mut, q.Target = "dot_segment_variant", rt.Path+"/x/.."+strings.TrimPrefix(signTarget, rt.Path) // cleans to the signed path: still authentic
					case 9:
						mut, q.Method = "method_changed", "PUT"
					case 10:
						mut, q.Headers[rt.TsH] = "timestamp_digit_changed", flipHex(tsStr, len(tsStr)-1)
					case 11:
						mut, q.Headers[rt.SigH] = "signature_nibble_changed", flipHex(sig, r.Intn(64))
					case 12:
						mut = "signature_removed"
						delete(q.Headers, rt.SigH)
					case 13:
						mut = "timestamp_removed"
						delete(q.Headers, rt.TsH)
					case 14:
						mut = "nonce_removed"
						delete(q.Headers, rt.NonH)
					case 15:
						mut, q.Headers[rt.SigH] = "signature_uppercase_hex", strings.ToUpper(sig)
					case 16:
						mut, q.Headers[rt.SigH] = "signature_truncated", sig[:32]
					case 17:
						mut, q.Headers[rt.SigH] = "signature_empty", ""
					case 18:
						if rt.SigH != "X-Signature" {
							mut = "headers_under_default_names"
							q.Headers["X-Signature"], q.Headers["X-Timestamp"], q.Headers["X-Nonce"] = q.Headers[rt.SigH], q.Headers[rt.TsH], q.Headers[rt.NonH]
							delete(q.Headers, rt.SigH)
							delete(q.Headers, rt.TsH)
							delete(q.Headers, rt.NonH)
						}
					case 19:
						mut, q.Headers[rt.TsH] = "timestamp_not_a_number", "now"
					case 20:
						mut, q.Headers[rt.SigH] = "signature_not_hex", strings.Repeat("z", 64)
					case 21:
						mut, q.Headers[rt.TsH] = "timestamp_millis", tsStr+"000"
					}
					if rt.SigH != "X-Signature" || m != 18 {
						_ = m
					}
				case "forward":
					if rt.FwdDead {
						mut, fwdStatus = "service_unreachable", 0
					} else {
						b := vlib.Pick(r, []string{"200", "204", "299", "301", "302", "401", "403", "404", "429", "500", "503", "hang", "reset", "301to200", "101", "raw099", "raw007", "600"})
						mut = "auth_" + b
						q.Headers["X-Mock"] = b
						switch b {
						case "hang", "reset":
							fwdStatus = 0
						case "301to200":
							fwdStatus = 301
						case "raw099", "raw007":
							fwdStatus, _ = strconv.Atoi(b[3:])
						default:
							fwdStatus, _ = strconv.Atoi(b)
						}
					}
				}
				// send
				req, err := l2.NewRequest(q.Method, q.Target, q.Body, "")
				if err != nil {
					continue
				}
				for k, v := range q.Headers {
					req.Header.Set(k, v)
				}
				before, _ := vlib.ListAll(a.Store)
				resp := l2.Do(a.Ingress, req)
				after, _ := vlib.ListAll(a.Store)
				changed := len(after) != len(before)
				// "leaves the queue untouched" includes what is already in it: payload, headers,
				// state and addressing of every message admitted earlier
				if altered := c08Altered(before, after); altered != "" && resp.Status != 202 {
					c.Violation(vlib.Signature{"class": "rejected_request_altered_queued_message", "kind": rt.Kind},
						fmt.Sprintf("%s route %s: a request answered %d (mutation %q) changed a message that was already queued: %s", rt.Kind, rt.Path, resp.Status, mut, altered),
						map[string]any{"config": txt, "route": rt.Path, "mutation": mut, "status": resp.Status})
				}
				authOK, boundary := rt.authentic(q, clock.Now(), fwdStatus)
				c.Count("evaluations", 1)
				c.Distinct("nontrivial", fmt.Sprintf("%s:%s:auth=%v:%d", rt.Kind, mut, authOK, resp.Status))
				wit := map[string]any{"config": txt, "route": rt.Path, "mutation": mut, "request": map[string]any{"method": q.Method, "target": q.Target, "headers": q.Headers, "body_len": len(q.Body)}, "now": clock.Now().Format(time.RFC3339), "status": resp.Status}
				if resp.Status == 202 {
					accepted[rt.Kind]++
				}
				if (resp.Status == 202) != changed {
					c.Violation(vlib.Signature{"class": "status_effect_mismatch", "kind": rt.Kind}, fmt.Sprintf("status %d but queue changed=%v", resp.Status, changed), wit)
				}
				if changed && !authOK {
					c.Violation(vlib.Signature{"class": "unauthenticated_request_enqueued", "kind": rt.Kind, "mutation": mut},
						fmt.Sprintf("%s route %s: request with mutation %q is not authentic but was enqueued (status %d)", rt.Kind, rt.Path, mut, resp.Status), wit)
				}
				if !authOK {
					okStatus := resp.Status == 401
					if rt.Kind == "forward" {
						switch fwdStatus {
						case 401, 403:
							okStatus = resp.Status == fwdStatus
						default:
							okStatus = resp.Status == 503
						}
					}
					if (resp.Status == 404 || resp.Status == 405) && mut == "method_changed" {
						okStatus = true // the mutated request no longer resolves to the route at all
					}
					if !okStatus && !changed {
						c.Violation(vlib.Signature{"class": "wrong_rejection_status", "kind": rt.Kind, "mutation": mut, "status": fmt.Sprint(resp.Status)},
							fmt.Sprintf("%s route: rejected request (%s) answered %d", rt.Kind, mut, resp.Status), wit)
					}
				}
				if authOK && !changed && !boundary {
					c.Count("authentic_but_rejected", 1)
					c.Distinct("authentic_rejected_classes", rt.Kind+":"+mut+":"+fmt.Sprint(resp.Status))
				}
				if ci < 1 && k < 3 {
					c.Sample(wit)
				}
			}
		}
		a.Close()
	}
	c.Set("accepted_by_kind", accepted)
	for _, k := range []string{"basic", "hmac", "forward"} {
		if accepted[k] == 0 {
			c.Inconclusive("no valid " + k + " request was accepted (vacuous run)")
		}
	}
}

// c08Altered reports the first message present before and after whose content differs.
func c08Altered(before, after []queue.Envelope) string {
	dig := func(e queue.Envelope) string {
		return fmt.Sprintf("%s|%s|%s|%x|%v", e.State, e.Route, e.Target, sha256.Sum256(e.Payload), e.Headers)
	}
	was := map[string]string{}
	for _, e := range before {
		was[e.ID] = dig(e)
	}
	seen := map[string]bool{}
	for _, e := range after {
		seen[e.ID] = true
		if w, ok := was[e.ID]; ok && w != dig(e) {
			return fmt.Sprintf("message %s was %.60s and is %.60s (payload now %q)", e.ID, w, dig(e), string(e.Payload[:minInt(len(e.Payload), 40)]))
		}
	}
	for id := range was {
		if !seen[id] {
			return "message " + id + " is gone"
		}
	}
	return ""
}
