package checks

import (
	"bufio"
	"encoding/base64"
	"encoding/json"
	"fmt"
	"io"
	"net"
	"net/http"
	"os"
	"path/filepath"
	"sort"
	"strings"
	"sync"
	"time"

	"github.com/nuetzliches/hookaido/verifharness/l3"
	"github.com/nuetzliches/hookaido/verifharness/vlib"
)

// c06tRetryMax is the retry.max every deliver block of this workload is
// written with: a message may reach its target at most c06tRetryMax+1 times.
const c06tRetryMax = 2

// c06tRequest is one request the raw target received completely (request line,
// headers and the announced body).
type c06tRequest struct {
	Conn      int    `json:"connection"`
	NthOnConn int    `json:"nth_request_on_connection"`
	Marker    string `json:"message"`
	Action    string `json:"target_action"`
	IdemKey   string `json:"idempotency_header_seen,omitempty"`
}

// c06tTarget is a raw TCP delivery target for ONE message stream. Per message
// (the request body is the message's marker) it
//   - answers 503 and keeps the connection open,
//   - drops the next request of that message when it arrives on the very
//     connection that carried the 503 (reads it, then closes the connection
//     without one response byte),
//   - and from then on answers 200 ("rec" messages) or starts over with 503
//     ("nev" messages, which therefore never recover).
//
// A request that arrives on another connection than the 503 one is answered 503
// again (nothing was reused, nothing is dropped).
type c06tTarget struct {
	ln      net.Listener
	mu      sync.Mutex
	nconn   int
	reqs    []c06tRequest
	last503 map[string]int // marker -> connection of its latest 503
	drops   map[string]int // marker -> requests dropped on a reused connection
}

func newC06tTarget() (*c06tTarget, error) {
	ln, err := net.Listen("tcp", "127.0.0.1:0")
	if err != nil {
		return nil, err
	}
	t := &c06tTarget{ln: ln, last503: map[string]int{}, drops: map[string]int{}}
	go func() {
		for {
			conn, err := ln.Accept()
			if err != nil {
				return
			}
			t.mu.Lock()
			t.nconn++
			id := t.nconn
			t.mu.Unlock()
			go t.serve(conn, id)
		}
	}()
	return t, nil
}

func (t *c06tTarget) URL() string { return "http://" + t.ln.Addr().String() + "/t" }
func (t *c06tTarget) Close()      { _ = t.ln.Close() }

func (t *c06tTarget) serve(conn net.Conn, id int) {
	defer conn.Close()
	br := bufio.NewReader(conn)
	for nth := 1; ; nth++ {
		req, err := http.ReadRequest(br)
		if err != nil {
			return
		}
		body, err := io.ReadAll(io.LimitReader(req.Body, 1<<16))
		if err != nil {
			return // the request did not arrive completely: not counted
		}
		marker := string(body)
		key := req.Header.Get("Idempotency-Key")
		if key == "" {
			key = req.Header.Get("X-Idempotency-Key")
		}
		t.mu.Lock()
		action := "503"
		c503, had := t.last503[marker]
		switch {
		case strings.HasPrefix(marker, "rec") && t.drops[marker] > 0:
			action = "200"
		case had && c503 == id:
			action = "drop"
			t.drops[marker]++
			delete(t.last503, marker)
		default:
			t.last503[marker] = id
		}
		t.reqs = append(t.reqs, c06tRequest{Conn: id, NthOnConn: nth, Marker: marker, Action: action, IdemKey: key})
		t.mu.Unlock()
		switch action {
		case "drop":
			return
		case "200":
			_, err = io.WriteString(conn, "HTTP/1.1 200 OK\r\nContent-Length: 0\r\n\r\n")
		default:
			_, err = io.WriteString(conn, "HTTP/1.1 503 Service Unavailable\r\nContent-Length: 0\r\n\r\n")
		}
		if err != nil {
			return
		}
	}
}

func (t *c06tTarget) snapshot() (reqs []c06tRequest, drops int) {
	t.mu.Lock()
	defer t.mu.Unlock()
	for _, n := range t.drops {
		drops += n
	}
	return append([]c06tRequest(nil), t.reqs...), drops
}

type c06tMessage struct {
	Variant string // how the idempotency header got into the stored message
	Via     string // ingress | publish
	Header  string // "" = control without such a header
	Kind    string // rec | nev
	Route   string
	Marker  string
	ID      string // message id (chosen for publish, learnt from the listing for ingress)
	target  *c06tTarget
}

// c06WireProduction: the wire-level scenario of c06Wire through the real
// `hookaido run` process started from a configuration file, once with
// observability.tracing enabled (exporter pointed at a closed loopback port) and
// once without, on both queue backends. Messages whose stored headers carry
// Idempotency-Key / X-Idempotency-Key (accepted at ingress with that header, or
// published with headers) go to raw targets that answer 503 on a keep-alive
// connection and then drop the next request on that reused connection.
// Oracle: for every message, requests received by the target <= delivery
// attempts recorded for it (GET /attempts) and <= retry.max+1.
func c06WireProduction(c *vlib.Ctx) {
	if strings.TrimSpace(os.Getenv("VERIF_BIN")) == "" {
		c.Inconclusive("C06 wire/production: ./check did not build the product binary for this run (VERIF_BIN unset); the real-process wire scenario could not run")
		return
	}
	if _, err := os.Stat(l3.Bin()); err != nil {
		c.Inconclusive("C06 wire/production: product binary missing: " + err.Error())
		return
	}
	type run struct {
		backend string
		tracing bool
	}
	runs := []run{{"sqlite", true}, {"memory", true}, {"sqlite", false}, {"memory", false}}
	var wg sync.WaitGroup
	for i, r := range runs {
		wg.Add(1)
		go func(i int, r run) {
			defer wg.Done()
			c06WireProductionRun(c, i, r.backend, r.tracing)
		}(i, r)
	}
	wg.Wait()
}

func c06WireProductionRun(c *vlib.Ctx, idx int, backend string, tracing bool) {
	label := fmt.Sprintf("C06/wire/production/%s/tracing=%v", backend, tracing)
	rnd := vlib.Derive(c.Seed, "C06tracingwire", idx)
	variants := []struct{ name, via, header string }{
		{"ingress_idempotency_key", "ingress", "Idempotency-Key"},
		{"ingress_x_idempotency_key", "ingress", "X-Idempotency-Key"},
		{"published_idempotency_key", "publish", "Idempotency-Key"},
		{"published_x_idempotency_key", "publish", "X-Idempotency-Key"},
		{"no_header", "ingress", ""},
	}
	var msgs []*c06tMessage
	for _, v := range variants {
		for _, kind := range []string{"rec", "nev"} {
			t, err := newC06tTarget()
			if err != nil {
				c.Inconclusive(label + ": target listener: " + err.Error())
				return
			}
			defer t.Close()
			n := len(msgs)
			msgs = append(msgs, &c06tMessage{Variant: v.name, Via: v.via, Header: v.header, Kind: kind, Route: fmt.Sprintf("/w%d", n),
				Marker: fmt.Sprintf("%s-%d-%d-%04x", kind, idx, n, rnd.Intn(1<<16)), target: t})
		}
	}

	// the configuration file
	var cfg strings.Builder
	cfg.WriteString("ingress { listen %INGRESS% }\nadmin_api { listen %ADMIN% }\n")
	if tracing {
		// a loopback port that was free a moment ago and is closed now: the exporter
		// gets "connection refused" and start-up needs no network
		ln, err := net.Listen("tcp", "127.0.0.1:0")
		if err != nil {
			c.Inconclusive(label + ": " + err.Error())
			return
		}
		closed := ln.Addr().String()
		_ = ln.Close()
		fmt.Fprintf(&cfg, "observability {\n tracing {\n  enabled on\n  collector \"http://%s/v1/traces\"\n  insecure on\n  timeout \"1s\"\n  retry { enabled off }\n }\n}\n", closed)
	}
	cfg.WriteString("defaults { egress { https_only off\n dns_rebind_protection off } }\n")
	for _, m := range msgs {
		q := ""
		if backend == "memory" {
			q = " queue { backend memory }\n"
		}
		fmt.Fprintf(&cfg, "%s {\n%s deliver %q {\n  timeout 2s\n  retry exponential max %d base 20ms cap 20ms jitter 0\n }\n}\n", m.Route, q, m.target.URL(), c06tRetryMax)
	}
	dir := filepath.Join(c.Scratch(), fmt.Sprintf("c06tw%d", idx))
	p, err := l3.New(dir, cfg.String())
	if err != nil {
		c.Inconclusive(label + ": " + err.Error())
		return
	}
	if err := p.StartHealthy(l3.StartOpts{}, 60*time.Second); err != nil {
		c.Inconclusive(label + ": the process did not start: " + err.Error())
		return
	}
	defer p.Kill()

	// workload: one message per route
	for i, m := range msgs {
		key := fmt.Sprintf("key-%d-%d-%x", idx, i, rnd.Intn(1<<20))
		var hdr map[string]string
		if m.Header != "" {
			hdr = map[string]string{m.Header: key}
		}
		if m.Via == "ingress" {
			if r := p.Ingress(m.Route, []byte(m.Marker), hdr); r.Status != 202 {
				c.Inconclusive(fmt.Sprintf("%s: ingress %s answered %d %v %s", label, m.Route, r.Status, r.Err, string(r.Body)))
				return
			}
			continue
		}
		m.ID = fmt.Sprintf("pub-%d-%d", idx, i)
		r := p.Admin("POST", "/messages/publish", map[string]any{"items": []map[string]any{{"id": m.ID, "route": m.Route,
			"payload_b64": base64.StdEncoding.EncodeToString([]byte(m.Marker)), "headers": hdr}}})
		if r.Status != 200 {
			c.Inconclusive(fmt.Sprintf("%s: publish to %s answered %d %v %s", label, m.Route, r.Status, r.Err, string(r.Body)))
			return
		}
	}

	// wait (watchdog, not a verdict) until every message is settled
	byMarker := map[string]*c06tMessage{}
	for _, m := range msgs {
		byMarker[m.Marker] = m
	}
	// marker -> state in the latest listing. Every message was accepted before the
	// polling starts, so one that is not listed any more was settled and removed
	// (state "gone"); which settlement that was is read from the attempt records.
	final := map[string]l3.Message{}
	var lastErr error
	var fmu sync.Mutex // the polling goroutine outlives a fired watchdog
	settled := c.Watchdog(label+": messages did not settle within 90 s", 90*time.Second, func() {
		for {
			list, err := p.ListAll()
			fmu.Lock()
			lastErr = err
			if err == nil {
				for _, m := range msgs {
					final[m.Marker] = l3.Message{ID: m.ID, State: "gone"}
				}
				open := 0
				for _, it := range list {
					b, _ := base64.StdEncoding.DecodeString(it.PayloadB64)
					m := byMarker[string(b)]
					if m == nil {
						continue
					}
					if m.ID == "" {
						m.ID = it.ID
					}
					final[m.Marker] = it
					if it.State != "dead" && it.State != "delivered" && it.State != "canceled" {
						open++
					}
				}
				if open == 0 {
					fmu.Unlock()
					return
				}
			}
			fmu.Unlock()
			if p.Exited() {
				return
			}
			time.Sleep(20 * time.Millisecond)
		}
	})
	if !settled {
		fmu.Lock()
		defer fmu.Unlock()
		var open []string
		for _, m := range msgs {
			r, _ := m.target.snapshot()
			open = append(open, fmt.Sprintf("%s(%s %s): state=%q requests=%d", m.Route, m.Variant, m.Kind, final[m.Marker].State, len(r)))
		}
		c.Inconclusive(fmt.Sprintf("%s: unsettled (last listing error: %v): %s\n%s", label, lastErr, strings.Join(open, "; "), p.LogTail(8)))
		return
	}
	if p.Exited() {
		c.Inconclusive(label + ": the process ended during the workload\n" + p.LogTail(20))
		return
	}
	// nothing may follow the settlement: wait until the targets are quiet
	total := func() int {
		n := 0
		for _, m := range msgs {
			r, _ := m.target.snapshot()
			n += len(r)
		}
		return n
	}
	for prev, quiet := total(), 0; quiet < 6; {
		time.Sleep(50 * time.Millisecond)
		if now := total(); now != prev {
			prev, quiet = now, 0
		} else {
			quiet++
		}
	}

	readAttempts := func() (map[string][]map[string]any, error) {
		r := p.Admin("GET", "/attempts?limit=1000", nil)
		if r.Err != nil || r.Status != 200 {
			return nil, fmt.Errorf("GET /attempts: status %d err %v %s", r.Status, r.Err, string(r.Body))
		}
		var resp struct {
			Items []map[string]any `json:"items"`
		}
		if err := json.Unmarshal(r.Body, &resp); err != nil {
			return nil, err
		}
		out := map[string][]map[string]any{}
		for _, it := range resp.Items {
			route, _ := it["route"].(string) // one message per route
			out[route] = append(out[route], it)
		}
		return out, nil
	}
	attempts, err := readAttempts()
	if err != nil {
		c.Inconclusive(label + ": " + err.Error())
		return
	}
	short := func() bool {
		for _, m := range msgs {
			r, _ := m.target.snapshot()
			if len(r) > len(attempts[m.Route]) {
				return true
			}
		}
		return false
	}
	if short() {
		// attempt records only grow: read once more before judging
		time.Sleep(500 * time.Millisecond)
		if again, err := readAttempts(); err == nil {
			attempts = again
		}
	}

	reusedDrops := 0
	for _, m := range msgs {
		reqs, drops := m.target.snapshot()
		reusedDrops += drops
		recs := attempts[m.Route]
		sort.Slice(recs, func(i, j int) bool {
			a, _ := recs[i]["attempt"].(float64)
			b, _ := recs[j]["attempt"].(float64)
			return a < b
		})
		hits, att := len(reqs), len(recs)
		c.Count("evaluations", 1)
		c.Count("wire_production_messages_compared", 1)
		c.Count("wire_production_target_requests", int64(hits))
		c.Count("wire_production_attempt_records", int64(att))
		c.Count("wire_production_requests_dropped_on_reused_connection", int64(drops))
		if m.ID == "" && att > 0 {
			m.ID, _ = recs[0]["event_id"].(string) // settled and removed before the first listing
		}
		end := final[m.Marker].State
		switch {
		case end == "dead":
			end += ":" + final[m.Marker].DeadReason
		case end == "gone" && att > 0:
			end += fmt.Sprintf(":last_attempt_%v", recs[att-1]["outcome"])
		}
		c.Distinct("nontrivial", fmt.Sprintf("wire_production:%s:tracing=%v:%s:%s:reused_drop=%v:hits_vs_attempts=%s:end=%s", backend, tracing, m.Variant, m.Kind, drops > 0, cmpClass(hits, att), end))
		wit := map[string]any{"backend": backend, "tracing_enabled": tracing, "message_id": m.ID, "route": m.Route, "header_stored_with_message": m.Header, "accepted_via": m.Via,
			"target_script":               map[string]string{"rec": "503 keep-alive, drop the next request on that connection, then 200", "nev": "503 keep-alive, drop the next request on that connection, repeat"}[m.Kind],
			"requests_received_by_target": reqs, "attempt_records": recs, "retry_max": c06tRetryMax, "final_state": final[m.Marker].State, "dead_reason": final[m.Marker].DeadReason, "config": p.Expand(cfg.String())}
		if tracing && m.Header != "" && m.Kind == "rec" && c.Counter("wire_production_samples") < 2 {
			c.Count("wire_production_samples", 1)
			c.Sample(wit)
		}
		sig := vlib.Signature{"layer": "process", "tracing": fmt.Sprint(tracing), "message_header": m.Variant}
		if hits > att {
			sig["class"] = "hidden_resend"
			c.Violation(sig, fmt.Sprintf("hookaido run (tracing enabled=%v, %s queue): the target of route %s received message %s %d times but only %d delivery attempt(s) are recorded for it: %d request(s) reached the target without an attempt record (re-sent below the dispatcher, no backoff)",
				tracing, backend, m.Route, m.ID, hits, att, hits-att), wit)
		} else if hits > c06tRetryMax+1 {
			sig["class"] = "sent_more_than_max_plus_one"
			c.Violation(sig, fmt.Sprintf("hookaido run (tracing enabled=%v, %s queue): the target of route %s received message %s %d times in one enqueue cycle, retry.max+1 = %d", tracing, backend, m.Route, m.ID, hits, c06tRetryMax+1), wit)
		}
	}
	if reusedDrops == 0 {
		c.Inconclusive(label + ": no delivery request ever arrived on a reused keep-alive connection, so the dropped-connection case was not exercised")
	}
}
