package checks

import (
	"fmt"
	"os"
	"path/filepath"
	"strconv"
	"strings"

	"github.com/nuetzliches/hookaido/verifharness/l2"
	"github.com/nuetzliches/hookaido/verifharness/vlib"
)

// c08BlankSecretSources: the only HMAC secret of a route comes from a file or
// an environment variable whose content is blank (empty, white space, line
// ends) - at start-up, or blanked later and followed by a reload. The process
// may refuse the configuration or the reload; if it runs, the route must not
// be open: requests without authentication headers, signed with the empty key
// or with an arbitrary key are answered 401 (a request signed with the blank content itself is not probed: where the process takes white space as the secret, that request is authentic) and leave the queue alone, and
// after a refused reload the previous secret is still the one that counts.
func c08BlankSecretSources(c *vlib.Ctx, dir string) {
	blanks := []string{"\n", " \n", "\r\n", "\t \n", "   ", ""}
	type variant struct{ form, via, when string }
	var vs []variant
	for _, form := range []string{"inline_shorthand", "inline_block", "secret_ref"} {
		for _, via := range []string{"file", "env"} {
			for _, when := range []string{"startup", "reload"} {
				vs = append(vs, variant{form, via, when})
			}
		}
	}
	for vi, v := range vs {
		for bi, blank := range blanks {
			if !c.Thorough() && (vi+bi)%2 != 0 {
				continue
			}
			r := vlib.Derive(c.Seed, "C08blank", vi, bi)
			good := fmt.Sprintf("good-secret-%d-%d", vi, bi)
			first := good
			if v.when == "startup" {
				first = blank
			}
			var ref string
			var set func(string)
			if v.via == "file" {
				p := filepath.Join(dir, fmt.Sprintf("blank-secret-%d-%d-%x", vi, bi, r.U64()&0xffff))
				_ = os.WriteFile(p, []byte(first), 0o600)
				ref, set = "file:"+p, func(nc string) { _ = os.WriteFile(p, []byte(nc), 0o600) }
			} else {
				name := fmt.Sprintf("VERIF_C08_BLANK_%d_%d", vi, bi)
				os.Setenv(name, first)
				ref, set = "env:"+name, func(nc string) { os.Setenv(name, nc) }
			}
			var b strings.Builder
			b.WriteString("ingress { listen 127.0.0.1:0 }\npull_api { listen 127.0.0.2:0\n auth token raw:tok }\nadmin_api { listen 127.0.0.3:0 }\n")
			switch v.form {
			case "inline_shorthand":
				fmt.Fprintf(&b, "/in { queue { backend memory }\n auth hmac %s\n pull { path /pull/in } }\n", l2.Quote(ref))
			case "inline_block":
				fmt.Fprintf(&b, "/in { queue { backend memory }\n auth hmac {\n  secret %s\n  tolerance 1h\n }\n pull { path /pull/in } }\n", l2.Quote(ref))
			case "secret_ref":
				fmt.Fprintf(&b, "secrets {\n secret \"S1\" {\n  value %s\n  valid_from \"2020-01-01T00:00:00Z\"\n }\n}\n/in { queue { backend memory }\n auth hmac {\n  secret_ref \"S1\"\n  tolerance 1h\n }\n pull { path /pull/in } }\n", l2.Quote(ref))
			}
			clock := vlib.NewVClock(c08T0)
			a, err := l2.Start(dir, b.String(), nil, clock)
			c.Count("evaluations", 1)
			c.Count("blank_secret_source_trials", 1)
			outcome := "started"
			if err != nil {
				outcome = "refused_to_start"
			}
			if err == nil && v.when == "reload" {
				set(blank)
				if a.Reload() {
					outcome = "reload_applied"
				} else {
					outcome = "reload_refused"
				}
			}
			c.Distinct("nontrivial", fmt.Sprintf("blank_secret_source:%s:%s:%s:%q:%s", v.form, v.via, v.when, blank, outcome))
			if err != nil {
				continue // refusing the configuration is failing closed
			}
			wit := map[string]any{"form": v.form, "via": v.via, "when": v.when, "blank_content": blank, "outcome": outcome, "config": b.String()}
			ts := strconv.FormatInt(c08T0.Unix(), 10)
			body := []byte("payload")
			type probe struct {
				name string
				hdr  map[string]string
			}
			signed := func(key string, n int) map[string]string {
				return map[string]string{"X-Timestamp": ts, "X-Nonce": fmt.Sprintf("n-%d-%d-%d", vi, bi, n), "X-Signature": signInbound(key, "POST", "/in", ts, body)}
			}
			probes := []probe{
				{"no_authentication_headers", map[string]string{}},
				{"signed_with_the_empty_key", signed("", 1)},
				{"signed_with_the_trimmed_blank_content_as_key", signed(strings.TrimSpace(blank), 3)},
				{"signed_with_an_arbitrary_key", signed("whatever", 4)},
				{"signature_header_only", map[string]string{"X-Signature": "00"}},
			}
			for _, p := range probes {
				req, _ := l2.NewRequest("POST", "/in", body, "")
				for k, hv := range p.hdr {
					req.Header.Set(k, hv)
				}
				before, _ := vlib.ListAll(a.Store)
				resp := l2.Do(a.Ingress, req)
				after, _ := vlib.ListAll(a.Store)
				c.Count("evaluations", 1)
				if resp.Status != 401 || len(after) != len(before) {
					c.Violation(vlib.Signature{"class": "blank_secret_source_opens_route", "form": v.form, "via": v.via, "when": v.when, "probe": p.name},
						fmt.Sprintf("hmac route whose only secret comes from a %s holding %q (%s, %s, %s): request %s answered %d, queue grew by %d", v.via, blank, v.form, v.when, outcome, p.name, resp.Status, len(after)-len(before)), wit)
					break
				}
			}
			if outcome == "reload_refused" {
				// the refused reload left the previous secret in force
				req, _ := l2.NewRequest("POST", "/in", body, "")
				for k, hv := range signed(good, 9) {
					req.Header.Set(k, hv)
				}
				if resp := l2.Do(a.Ingress, req); resp.Status != 202 {
					c.Violation(vlib.Signature{"class": "behaviour_changed_by_failed_reload", "form": v.form, "via": v.via},
						fmt.Sprintf("the reload with a blank secret source was refused, but a request signed with the previous secret is now answered %d", resp.Status), wit)
				}
			}
			a.Close()
		}
	}
}
