package checks

import (
	"encoding/json"
	"fmt"
	"os"
	"path/filepath"
	"sort"
	"strings"
	"time"

	"github.com/nuetzliches/hookaido/internal/queue"
	"github.com/nuetzliches/hookaido/verifharness/l2"
	"github.com/nuetzliches/hookaido/verifharness/storecheck"
	"github.com/nuetzliches/hookaido/verifharness/vlib"
)

const c14Cfg = `ingress { listen 127.0.0.1:0 }
pull_api { listen 127.0.0.2:0
 auth token raw:tok }
admin_api { listen 127.0.0.3:0 }
/r0 { queue { backend %[1]s }
 pull { path /p0 } }
/r1 { queue { backend %[1]s }
 pull { path /p1 } }
/r2 { queue { backend %[1]s }
 pull { path /p2 } }
`

func c14Populate(r *vlib.Rand, st queue.Store, n int) {
	for i := 0; i < n; i++ {
		e := queue.Envelope{ID: fmt.Sprintf("a%03d", i), Route: vlib.Pick(r, stdRoutes), Target: "pull", Payload: []byte("x"),
			ReceivedAt: time.Date(2026, 2, 1, 0, 0, i/3, 0, time.UTC)} // ties in groups of 3
		switch r.Intn(5) {
		case 0:
			e.State, e.DeadReason = queue.StateDead, "seed"
		case 1:
			e.State = queue.StateCanceled
		}
		_ = st.Enqueue(e)
	}
	_, _ = st.Dequeue(queue.DequeueRequest{Batch: r.Range(1, n/4+1), LeaseTTL: time.Hour})
}

func snapStore(st queue.Store) vlib.Snapshot {
	items, _ := vlib.ListAll(st)
	s := vlib.Snapshot{}
	for _, it := range items {
		s[it.ID] = vlib.RowFromEnvelope(it, false)
	}
	return s
}

// c14Admin: the same selection oracle through the Admin HTTP endpoints (strict
// JSON and the audit-reason requirement: a 400 changes nothing) and a sample
// through the MCP tools on the SQLite file.
func c14Admin(c *vlib.Ctx) {
	dir := c.Scratch()
	n := c.N(10, 200)
	for ci := 0; ci < n; ci++ {
		r := vlib.Derive(c.Seed, "C14admin", ci)
		be := []string{"memory", "sqlite"}[ci%2]
		a, err := l2.Start(dir, fmt.Sprintf(c14Cfg, be), nil, nil)
		if err != nil {
			c.Inconclusive("C14 admin config: " + err.Error())
			return
		}
		// every fifth population has well over 100 matches per route, so that the
		// default (100), the cap (1000) and a limit above the cap select different sets
		big := ci%5 == 1
		limits := []int{0, 1, 2, 5, 100, 1000, 1001}
		if big {
			c14Populate(r, a.Store, r.Range(1800, 2000))
			limits = []int{0, 100, 101, 1000, 1001, 5000, 1 << 31}
			c.Count("admin_populations_above_100_per_route", 1)
		} else {
			c14Populate(r, a.Store, r.Range(20, 60))
		}
		for k := 0; k < 24; k++ {
			before := snapStore(a.Store)
			ids := before.IDs()
			var kind storecheck.Kind
			var target string
			body := map[string]any{}
			var filter *queue.MessageManageFilterRequest
			var idList []string
			pick := r.Intn(8)
			if big {
				pick = 5 + r.Intn(3) // by-filter operations only
			}
			switch pick {
			case 0:
				kind, target = storecheck.KCancel, "/messages/cancel"
			case 1:
				kind, target = storecheck.KRequeue, "/messages/requeue"
			case 2:
				kind, target = storecheck.KResume, "/messages/resume"
			case 3:
				kind, target = storecheck.KRequeueDead, "/dlq/requeue"
			case 4:
				kind, target = storecheck.KDeleteDead, "/dlq/delete"
			case 5:
				kind, target = storecheck.KCancelF, "/messages/cancel_by_filter"
			case 6:
				kind, target = storecheck.KRequeueF, "/messages/requeue_by_filter"
			default:
				kind, target = storecheck.KResumeF, "/messages/resume_by_filter"
			}
			byFilter := strings.HasSuffix(target, "_by_filter")
			if byFilter {
				filter = &queue.MessageManageFilterRequest{Route: vlib.Pick(r, stdRoutes), Limit: vlib.Pick(r, limits), PreviewOnly: r.Chance(0.3)}
				body["route"] = filter.Route
				if filter.Limit != 0 {
					body["limit"] = filter.Limit
				}
				if r.Chance(0.5) && !(big && r.Chance(0.6)) {
					filter.State = vlib.Pick(r, vlib.AllStates)
					body["state"] = string(filter.State)
				}
				if r.Chance(0.4) && len(ids) > 0 && !(big && r.Chance(0.6)) {
					t := time.Unix(0, before[vlib.Pick(r, ids)].ReceivedAt).UTC()
					filter.Before = t
					body["before"] = t.Format(time.RFC3339Nano)
				}
				if filter.PreviewOnly {
					body["preview_only"] = true
				}
			} else {
				for j := 0; j < r.Range(1, 5); j++ {
					if len(ids) > 0 && r.Chance(0.8) {
						idList = append(idList, vlib.Pick(r, ids))
					} else {
						idList = append(idList, vlib.Pick(r, []string{"nope", " a001 ", "a999"}))
					}
				}
				if r.Chance(0.2) {
					idList = append(idList, idList[0])
				}
				body["ids"] = idList
			}
			raw, _ := json.Marshal(body)
			bad := ""
			hdr := map[string]string{"X-Hookaido-Audit-Reason": "verif"}
			switch r.Intn(12) {
			case 0:
				bad, hdr = "missing_audit_reason", map[string]string{}
			case 1:
				bad, raw = "unknown_field", []byte(strings.Replace(string(raw), "{", `{"surprise":1,`, 1))
			case 2:
				bad, raw = "trailing_document", append(raw, []byte(` {}`)...)
			case 3:
				bad, raw = "malformed_json", raw[:len(raw)/2]
			}
			req := l2.JSONReq("POST", a.Compiled.AdminAPI.Prefix+target, raw, "")
			for hk, hv := range hdr {
				req.Header.Set(hk, hv)
			}
			resp := l2.Do(a.Admin, req)
			after := snapStore(a.Store)
			add, rem, chg := vlib.Diff(before, after)
			c.Count("evaluations", 1)
			c.Count("admin_mutation_calls", 1)
			c.Distinct("nontrivial", fmt.Sprintf("admin:%s:%s:bad=%s:%d", be, kind, bad, resp.Status))
			wit := map[string]any{"backend": be, "target": target, "body": string(raw), "status": resp.Status, "response": string(resp.Body[:minInt(200, len(resp.Body))])}
			if bad != "" {
				if resp.Status != 400 {
					c.Violation(vlib.Signature{"class": "malformed_request_not_400", "bad": bad, "op": string(kind)}, fmt.Sprintf("%s with %s answered %d", target, bad, resp.Status), wit)
				}
				if len(add)+len(rem)+len(chg) > 0 {
					c.Violation(vlib.Signature{"class": "rejected_request_changed_queue", "bad": bad, "op": string(kind)}, fmt.Sprintf("%s with %s changed the queue", target, bad), wit)
				}
				continue
			}
			if resp.Status == 400 && byFilter && filter.State != "" && !stateAllowed(kind, filter.State) {
				// a state the operation is not defined for is refused outright: fine, as long as nothing changed
				if len(add)+len(rem)+len(chg) > 0 {
					c.Violation(vlib.Signature{"class": "rejected_request_changed_queue", "bad": "state_not_allowed", "op": string(kind)}, fmt.Sprintf("%s refused state %s but changed the queue", target, filter.State), wit)
				}
				continue
			}
			if resp.Status != 200 {
				c.Violation(vlib.Signature{"class": "valid_mutation_refused", "op": string(kind), "status": fmt.Sprint(resp.Status)}, fmt.Sprintf("%s answered %d: %s", target, resp.Status, string(resp.Body)), wit)
				continue
			}
			// independent selection
			var sel []string
			if byFilter {
				sel = storecheck.SelectByFilter(before, *filter, kind)
			} else {
				seen := map[string]bool{}
				for _, raw := range idList {
					id := strings.TrimSpace(raw)
					if id == "" || seen[id] {
						continue
					}
					seen[id] = true
					if row, ok := before[id]; ok && stateAllowed(kind, row.State) {
						sel = append(sel, id)
					}
				}
			}
			var out struct {
				Matched                              *int `json:"matched"`
				Canceled, Requeued, Resumed, Deleted int
				PreviewOnly                          bool `json:"preview_only"`
			}
			_ = json.Unmarshal(resp.Body, &out)
			var generic map[string]any
			_ = json.Unmarshal(resp.Body, &generic)
			count := out.Canceled + out.Requeued + out.Resumed + out.Deleted
			if v, ok := generic["deleted"].(float64); ok && count == 0 {
				count = int(v)
			}
			preview := byFilter && filter.PreviewOnly
			if byFilter {
				lc := "1..100"
				switch {
				case filter.Limit == 0:
					lc = "absent"
				case filter.Limit > 1000:
					lc = "above_cap"
				case filter.Limit > 100:
					lc = "101..1000"
				}
				all := *filter
				all.Limit = 1000
				mc := "<=100"
				if m := len(storecheck.SelectByFilter(before, all, kind)); m >= 1000 {
					mc = ">=1000"
				} else if m > 100 {
					mc = "101..1000"
				}
				c.Distinct("admin_filter_limit_vs_matches", "limit "+lc+", matches "+mc)
			}
			if byFilter && (out.Matched == nil || *out.Matched != len(sel)) {
				c.Violation(vlib.Signature{"class": "matched_count", "backend": be, "op": string(kind), "preview": fmt.Sprint(preview)}, fmt.Sprintf("%s matched=%v, independent selection has %d", target, generic["matched"], len(sel)), wit)
			}
			wantChanged := sel
			if preview {
				wantChanged = nil
			}
			if count != len(wantChanged) {
				c.Violation(vlib.Signature{"class": "changed_count", "backend": be, "op": string(kind)}, fmt.Sprintf("%s reported %d changed, independent selection has %d", target, count, len(wantChanged)), wit)
			}
			gotChanged := append(append([]string{}, chg...), rem...)
			sort.Strings(gotChanged)
			w := append([]string{}, wantChanged...)
			sort.Strings(w)
			if strings.Join(gotChanged, ",") != strings.Join(w, ",") || len(add) > 0 {
				c.Violation(vlib.Signature{"class": "changed_set_differs", "backend": be, "op": string(kind)}, fmt.Sprintf("%s changed %v, independent selection says %v", target, gotChanged, w), wit)
			}
			for _, id := range chg {
				want := queue.StateQueued
				if kind == storecheck.KCancel || kind == storecheck.KCancelF {
					want = queue.StateCanceled
				}
				if after[id].State != want {
					c.Violation(vlib.Signature{"class": "wrong_result_state", "backend": be, "op": string(kind)}, fmt.Sprintf("%s left %s in state %s", target, id, after[id].State), wit)
				}
			}
			if ci < 1 && k < 2 {
				c.Sample(wit)
			}
		}
		a.Close()
	}
	c14AdminManaged(c)
	c14MCP(c)
	c14MCPProxy(c)
}

const c14ManagedCfg = `ingress { listen 127.0.0.1:0 }
pull_api { listen 127.0.0.2:0
 auth token raw:tok }
admin_api { listen 127.0.0.3:0 }
/r0 { application "app1"
 endpoint_name "ep0"
 queue { backend %[1]s }
 pull { path /p0 } }
/r1 { application "app1"
 endpoint_name "ep1"
 queue { backend %[1]s }
 pull { path /p1 } }
/r2 { queue { backend %[1]s }
 pull { path /p2 } }
`

// c14AdminManaged: by-filter mutations addressed through the management model:
// endpoint-scoped paths (/applications/{app}/endpoints/{ep}/messages/*_by_filter,
// scope taken from the URL only) and application/endpoint_name selectors on the
// global paths. The scope is one route; messages of every other route must stay
// untouched and uncounted. Requests the API refuses must change nothing.
func c14AdminManaged(c *vlib.Ctx) {
	dir := c.Scratch()
	n := c.N(8, 160)
	routeOf := map[string]string{"ep0": "/r0", "ep1": "/r1"}
	for ci := 0; ci < n; ci++ {
		r := vlib.Derive(c.Seed, "C14managed", ci)
		be := []string{"memory", "sqlite"}[ci%2]
		a, err := l2.Start(dir, fmt.Sprintf(c14ManagedCfg, be), nil, nil)
		if err != nil {
			c.Inconclusive("C14 managed config: " + err.Error())
			return
		}
		c14Populate(r, a.Store, r.Range(24, 60))
		for k := 0; k < 24; k++ {
			before := snapStore(a.Store)
			ids := before.IDs()
			op := vlib.Pick(r, []string{"cancel", "requeue", "resume"})
			kind := map[string]storecheck.Kind{"cancel": storecheck.KCancelF, "requeue": storecheck.KRequeueF, "resume": storecheck.KResumeF}[op]
			ep := vlib.Pick(r, []string{"ep0", "ep1"})
			filter := queue.MessageManageFilterRequest{Route: routeOf[ep], Limit: vlib.Pick(r, []int{0, 1, 2, 5, 100, 1000}), PreviewOnly: r.Chance(0.3)}
			body := map[string]any{}
			if filter.Limit != 0 {
				body["limit"] = filter.Limit
			}
			if r.Chance(0.4) {
				filter.State = vlib.Pick(r, vlib.AllStates)
				body["state"] = string(filter.State)
			}
			if r.Chance(0.4) && len(ids) > 0 {
				t := time.Unix(0, before[vlib.Pick(r, ids)].ReceivedAt).UTC()
				filter.Before = t
				body["before"] = t.Format(time.RFC3339Nano)
			}
			if filter.PreviewOnly {
				body["preview_only"] = true
			}
			form := vlib.Pick(r, []string{"scoped_path", "scoped_path", "selectors", "scoped_path_with_hint", "global_route_managed"})
			target := "/messages/" + op + "_by_filter"
			expectRefusal := false
			switch form {
			case "scoped_path":
				target = "/applications/app1/endpoints/" + ep + target
			case "selectors":
				body["application"], body["endpoint_name"] = "app1", ep
			case "scoped_path_with_hint":
				target = "/applications/app1/endpoints/" + ep + target
				body["route"] = vlib.Pick(r, []string{"/r2", routeOf[ep], "/r1"})
				expectRefusal = true
			case "global_route_managed":
				body["route"] = routeOf[ep]
				expectRefusal = true
			}
			raw, _ := json.Marshal(body)
			req := l2.JSONReq("POST", a.Compiled.AdminAPI.Prefix+target, raw, "")
			req.Header.Set("X-Hookaido-Audit-Reason", "verif")
			resp := l2.Do(a.Admin, req)
			after := snapStore(a.Store)
			add, rem, chg := vlib.Diff(before, after)
			c.Count("evaluations", 1)
			c.Count("admin_managed_mutation_calls", 1)
			c.Distinct("nontrivial", fmt.Sprintf("admin_managed:%s:%s:%s:%d", be, kind, form, resp.Status))
			wit := map[string]any{"backend": be, "target": target, "body": string(raw), "status": resp.Status, "response": string(resp.Body[:minInt(200, len(resp.Body))])}
			if resp.Status != 200 {
				if len(add)+len(rem)+len(chg) > 0 {
					c.Violation(vlib.Signature{"class": "rejected_request_changed_queue", "bad": form, "op": string(kind)}, fmt.Sprintf("%s answered %d but changed the queue", target, resp.Status), wit)
				}
				if !expectRefusal && !(resp.Status == 400 && filter.State != "" && !stateAllowed(kind, filter.State)) {
					c.Violation(vlib.Signature{"class": "valid_mutation_refused", "op": string(kind), "status": fmt.Sprint(resp.Status), "form": form}, fmt.Sprintf("%s answered %d: %s", target, resp.Status, string(resp.Body)), wit)
				}
				continue
			}
			// accepted (also when the documentation says it is refused): the scope is the endpoint's route
			if form == "global_route_managed" || form == "scoped_path_with_hint" {
				if r2, ok := body["route"].(string); ok {
					filter.Route = r2
					if form == "scoped_path_with_hint" {
						filter.Route = routeOf[ep] // the URL is authoritative
					}
				}
			}
			sel := storecheck.SelectByFilter(before, filter, kind)
			var out struct {
				Matched                     *int `json:"matched"`
				Canceled, Requeued, Resumed int
			}
			_ = json.Unmarshal(resp.Body, &out)
			count := out.Canceled + out.Requeued + out.Resumed
			if out.Matched == nil || *out.Matched != len(sel) {
				c.Violation(vlib.Signature{"class": "matched_count", "backend": be, "op": string(kind), "form": form}, fmt.Sprintf("%s matched=%s, independent selection within %s has %d", target, ptrInt(out.Matched), filter.Route, len(sel)), wit)
			}
			wantChanged := sel
			if filter.PreviewOnly {
				wantChanged = nil
			}
			if count != len(wantChanged) {
				c.Violation(vlib.Signature{"class": "changed_count", "backend": be, "op": string(kind), "form": form}, fmt.Sprintf("%s reported %d changed, independent selection within %s has %d", target, count, filter.Route, len(wantChanged)), wit)
			}
			gotChanged := append(append([]string{}, chg...), rem...)
			sort.Strings(gotChanged)
			w := append([]string{}, wantChanged...)
			sort.Strings(w)
			if strings.Join(gotChanged, ",") != strings.Join(w, ",") || len(add) > 0 {
				var foreign []string
				for _, id := range gotChanged {
					if before[id].Route != filter.Route {
						foreign = append(foreign, id+"@"+before[id].Route)
					}
				}
				c.Violation(vlib.Signature{"class": "changed_set_differs", "backend": be, "op": string(kind), "form": form}, fmt.Sprintf("%s changed %v, independent selection within %s says %v (messages of other routes touched: %v)", target, gotChanged, filter.Route, w, foreign), wit)
			}
		}
		a.Close()
	}
}

func ptrInt(p *int) string {
	if p == nil {
		return "absent"
	}
	return fmt.Sprint(*p)
}

func stateAllowed(k storecheck.Kind, s queue.State) bool {
	switch k {
	case storecheck.KCancel, storecheck.KCancelF:
		return s == queue.StateQueued || s == queue.StateLeased || s == queue.StateDead
	case storecheck.KRequeue, storecheck.KRequeueF:
		return s == queue.StateDead || s == queue.StateCanceled
	case storecheck.KResume, storecheck.KResumeF:
		return s == queue.StateCanceled
	case storecheck.KRequeueDead, storecheck.KDeleteDead:
		return s == queue.StateDead
	}
	return false
}

// c14MCP: the MCP mutation tools on the SQLite file.
func c14MCP(c *vlib.Ctx) {
	root := c.Scratch()
	if err := c20MakeTemplate(root); err != nil {
		c.Inconclusive("C14 mcp template: " + err.Error())
		return
	}
	n := c.N(12, 150)
	for i := 0; i < n; i++ {
		r := vlib.Derive(c.Seed, "C14mcp", i)
		f, err := c20NewFixture(root, 900000+i)
		if err != nil {
			c.Inconclusive(err.Error())
			return
		}
		// richer population than the C20 template
		st, err := queue.NewSQLiteStore(f.DB, queue.WithSQLiteCheckpointInterval(0))
		if err != nil {
			c.Inconclusive(err.Error())
			return
		}
		for k := 0; k < 30; k++ {
			e := queue.Envelope{ID: fmt.Sprintf("x%02d", k), Route: "/hooks", Target: "pull", ReceivedAt: time.Date(2026, 2, 1, 0, 0, k/3, 0, time.UTC)}
			switch r.Intn(4) {
			case 0:
				e.State, e.DeadReason = queue.StateDead, "s"
			case 1:
				e.State = queue.StateCanceled
			}
			_ = st.Enqueue(e)
		}
		before := snapStore(st)
		_ = st.Close()
		tool := vlib.Pick(r, []string{"messages_cancel", "messages_requeue", "messages_resume", "dlq_requeue", "dlq_delete", "messages_cancel_by_filter", "messages_requeue_by_filter", "messages_resume_by_filter"})
		kind := map[string]storecheck.Kind{"messages_cancel": storecheck.KCancel, "messages_requeue": storecheck.KRequeue, "messages_resume": storecheck.KResume, "dlq_requeue": storecheck.KRequeueDead,
			"dlq_delete": storecheck.KDeleteDead, "messages_cancel_by_filter": storecheck.KCancelF, "messages_requeue_by_filter": storecheck.KRequeueF, "messages_resume_by_filter": storecheck.KResumeF}[tool]
		args := map[string]any{"reason": "verif"}
		var sel []string
		if strings.HasSuffix(tool, "_by_filter") {
			fl := queue.MessageManageFilterRequest{Route: "/hooks", Limit: vlib.Pick(r, []int{1, 2, 5, 100})}
			args["route"], args["limit"] = fl.Route, fl.Limit
			if r.Bool() {
				fl.State = vlib.Pick(r, vlib.AllStates)
				args["state"] = string(fl.State)
			}
			if r.Chance(0.3) {
				fl.PreviewOnly = true
				args["preview_only"] = true
			}
			sel = storecheck.SelectByFilter(before, fl, kind)
			if fl.PreviewOnly {
				sel = nil
			}
		} else {
			var ids []string
			all := before.IDs()
			for k := 0; k < r.Range(1, 4); k++ {
				ids = append(ids, vlib.Pick(r, all))
			}
			args["ids"] = ids
			seen := map[string]bool{}
			for _, id := range ids {
				if !seen[id] && stateAllowed(kind, before[id].State) {
					sel = append(sel, id)
				}
				seen[id] = true
			}
		}
		ro, _, err := c20Call(f, "admin", true, false, "alice", "tools/call", map[string]any{"name": tool, "arguments": args})
		if err != nil {
			c.Inconclusive("C14 mcp call: " + err.Error())
			continue
		}
		st2, err := queue.NewSQLiteStore(f.DB, queue.WithSQLiteCheckpointInterval(0))
		if err != nil {
			c.Inconclusive(err.Error())
			return
		}
		after := snapStore(st2)
		_ = st2.Close()
		_, rem, chg := vlib.Diff(before, after)
		got := append(append([]string{}, chg...), rem...)
		sort.Strings(got)
		sort.Strings(sel)
		c.Count("evaluations", 1)
		c.Count("mcp_mutation_calls", 1)
		c.Distinct("nontrivial", fmt.Sprintf("mcp:%s:selected%d", tool, minInt(len(sel), 5)))
		text := ""
		if len(ro.Result.Content) > 0 {
			text = ro.Result.Content[0].Text
		}
		if ro.Result.IsError && strings.Contains(text, "invalid state") {
			if len(got) > 0 {
				c.Violation(vlib.Signature{"class": "rejected_request_changed_queue", "bad": "state_not_allowed", "op": tool}, "MCP "+tool+" refused the state but changed the queue", map[string]any{"args": args})
			}
		} else if ro.Result.IsError {
			c.Violation(vlib.Signature{"class": "valid_mutation_refused", "op": tool, "status": "mcp_error"}, "MCP "+tool+" failed: "+text, map[string]any{"args": args})
		} else if strings.Join(got, ",") != strings.Join(sel, ",") {
			c.Violation(vlib.Signature{"class": "changed_set_differs", "backend": "sqlite-via-mcp", "op": tool}, fmt.Sprintf("MCP %s changed %v, independent selection says %v", tool, got, sel), map[string]any{"args": args, "response": text[:minInt(300, len(text))]})
		}
		_ = os.RemoveAll(f.Dir)
	}
	_ = os.Remove(filepath.Join(root, "template.db"))
}
