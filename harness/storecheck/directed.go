package storecheck

import (
	"fmt"
	"time"

	"github.com/nuetzliches/hookaido/internal/queue"
	"github.com/nuetzliches/hookaido/verifharness/vlib"
)

// Directed is a fixed scenario: the histories behind every defect that was found
// (and fixed or recorded), so that each of them is exercised on every run.
type Directed struct {
	Name string
	// MemoryOnly scenarios exercise a documented memory-only guard and are not
	// part of the backend comparison.
	MemoryOnly bool
	Cfg        vlib.StoreCfg
	Script     []Op
}

func env(id string, recv time.Time) queue.Envelope {
	return queue.Envelope{ID: id, Route: "/r0", Target: "pull", Payload: []byte("p-" + id), ReceivedAt: recv}
}

func enq(id string) Op { return Op{Kind: KEnqueue, Envs: []queue.Envelope{env(id, time.Time{})}} }
func enqAt(id string, off time.Duration) Op {
	return Op{Kind: KEnqueue, Envs: []queue.Envelope{env(id, vlib.Epoch.Add(off))}}
}
func adv(d time.Duration) Op { return Op{Kind: KAdvance, Dur: d} }
func deq(batch int, ttl time.Duration) Op {
	return Op{Kind: KDequeue, Deq: &queue.DequeueRequest{Batch: batch, LeaseTTL: ttl}, Forced: true}
}
func lease(msg string, attempt int) LeaseRef { return LeaseRef{Msg: msg, Attempt: attempt} }

// manyGroups: more (route, target) groups queued at once than any per-group top-N a
// store keeps for its statistics; the oldest and the earliest-runnable message sit in
// the smallest groups, and statistics are read after every change of either.
func manyGroups(groups int) Directed {
	var sc []Op
	e := func(id string, g int) Op {
		return Op{Kind: KEnqueue, Envs: []queue.Envelope{{ID: id, Route: fmt.Sprintf("/g%d", g/4), Target: fmt.Sprintf("https://t%d.example/hook", g%4), Payload: []byte("p-" + id)}}}
	}
	sc = append(sc, e("old", 0), adv(time.Second), Op{Kind: KStats})
	for g := 1; g < groups; g++ {
		for k := 0; k < 2+g%2; k++ {
			sc = append(sc, e(fmt.Sprintf("m%d-%d", g, k), g), adv(time.Millisecond))
		}
	}
	sc = append(sc, Op{Kind: KStats}, adv(time.Minute), Op{Kind: KStats})
	// the oldest leaves: the next oldest is alone in no group, statistics move on
	sc = append(sc, Op{Kind: KCancel, IDs: []string{"old"}}, Op{Kind: KStats})
	// a late single message in a new smallest group, scheduled before everything else is due again
	sc = append(sc, e("late", groups), Op{Kind: KStats}, Op{Kind: KRequeue, IDs: []string{"old"}}, Op{Kind: KStats})
	return Directed{Name: fmt.Sprintf("stats-with-%d-groups", groups), Cfg: vlib.StoreCfg{}, Script: sc}
}

func DirectedScenarios() []Directed {
	out := directedScenarios()
	for _, g := range []int{11, 12, 26} {
		out = append(out, manyGroups(g))
	}
	return out
}

func directedScenarios() []Directed {
	dropOldest2 := vlib.StoreCfg{MaxDepth: 2, DropPolicy: "drop_oldest"}
	dropOldest3 := vlib.StoreCfg{MaxDepth: 3, DropPolicy: "drop_oldest"}
	batch := func(ids ...string) Op {
		op := Op{Kind: KEnqueueBatch}
		for _, id := range ids {
			op.Envs = append(op.Envs, env(id, time.Time{}))
		}
		return op
	}
	return []Directed{
		{Name: "D1-duplicate-under-drop_oldest", Cfg: dropOldest2, Script: []Op{enq("a"), adv(time.Second), enq("b"), adv(time.Second), enq("b"), enq("a")}},
		{Name: "D1-batch-cannot-make-room", Cfg: dropOldest3, Script: []Op{enq("a"), adv(time.Second), enq("b"), adv(time.Second), enq("c"), deq(2, time.Minute), batch("x", "y", "z")}},
		{Name: "D1-batch-duplicate", Cfg: dropOldest3, Script: []Op{enq("a"), adv(time.Second), enq("b"), adv(time.Second), enq("c"), batch("x", "c"), batch("x", "x")}},
		{Name: "D1-memory-pressure", MemoryOnly: true, Cfg: vlib.StoreCfg{MaxDepth: 2, DropPolicy: "drop_oldest", PressureItems: 1}, Script: []Op{
			enq("d"), deq(1, time.Minute), {Kind: KDead, Leases: []LeaseRef{lease("d", 1)}, Reason: "x"}, enq("a"), adv(time.Second), enq("b"), adv(time.Second), enq("c")}},
		{Name: "D5-padded-lease", Cfg: vlib.StoreCfg{}, Script: []Op{enq("a"), enq("b"), enq("c"), enq("d"), deq(4, time.Minute),
			{Kind: KAck, Leases: []LeaseRef{{Msg: "a", Attempt: 1, Pad: "both"}}},
			{Kind: KNack, Leases: []LeaseRef{{Msg: "b", Attempt: 1, Pad: "both"}}},
			{Kind: KExtend, Dur: time.Second, Leases: []LeaseRef{{Msg: "c", Attempt: 1, Pad: "both"}}},
			{Kind: KDead, Reason: "x", Leases: []LeaseRef{{Msg: "d", Attempt: 1, Pad: "both"}}}}},
		{Name: "D8-listdead-tie", Cfg: vlib.StoreCfg{}, Script: []Op{
			enqAt("c", 0), enqAt("a", 0), enqAt("b", 0), deq(3, time.Minute),
			{Kind: KDeadBatch, Reason: "x", Leases: []LeaseRef{lease("a", 1), lease("b", 1), lease("c", 1)}},
			{Kind: KListDead, DeadL: &queue.DeadListRequest{Limit: 2}},
			{Kind: KListDead, DeadL: &queue.DeadListRequest{Limit: 1}},
			{Kind: KList, List: &queue.MessageListRequest{Limit: 2, State: queue.StateDead}}}},
		{Name: "D9-out-of-order-received_at", Cfg: dropOldest2, Script: []Op{enqAt("new", time.Hour), enqAt("old", time.Minute), enq("x")}},
		{Name: "D10-id-reused-after-ack", Cfg: dropOldest2, Script: []Op{enq("a"), deq(1, time.Minute), {Kind: KAck, Leases: []LeaseRef{lease("a", 1)}},
			adv(time.Second), enq("b"), adv(time.Second), enq("a"), adv(time.Second), enq("c")}},
		{Name: "D11-eviction-tie", Cfg: dropOldest2, Script: []Op{enq("b"), enq("a"), enq("c")}},
		{Name: "KF1-over-depth-single-enqueue", Cfg: dropOldest2, Script: []Op{enq("a"), enq("b"), deq(2, time.Minute),
			{Kind: KCancel, IDs: []string{"a"}}, enq("c"), {Kind: KRequeue, IDs: []string{"a"}}, adv(time.Second), enq("d")}},
		{Name: "dlq-depth-prune-tie", Cfg: vlib.StoreCfg{PruneInterval: time.Nanosecond, DLQMaxDepth: 1}, Script: []Op{
			enqAt("c", 0), enqAt("a", 0), enqAt("b", 0), deq(3, time.Minute),
			{Kind: KDeadBatch, Reason: "x", Leases: []LeaseRef{lease("a", 1), lease("b", 1), lease("c", 1)}},
			adv(time.Second), {Kind: KStats}, {Kind: KList, List: &queue.MessageListRequest{}}}},
		{Name: "expired-lease-and-retention-in-one-dequeue", Cfg: vlib.StoreCfg{RetentionMaxAge: 10 * time.Second, PruneInterval: time.Nanosecond}, Script: []Op{
			enq("a"), deq(1, time.Second), adv(20 * time.Second), deq(1, time.Second), {Kind: KList, List: &queue.MessageListRequest{}}}},
		{Name: "expired-lease-and-retention-in-one-dequeue-unobserved", Cfg: vlib.StoreCfg{RetentionMaxAge: 10 * time.Second, PruneInterval: time.Second}, Script: []Op{
			enq("a"), adv(time.Second), deq(1, 5*time.Second), {Kind: KDequeue, Deq: &queue.DequeueRequest{Batch: 1, LeaseTTL: 5 * time.Second}, Forced: true, Pre: 40 * time.Second},
			{Kind: KList, List: &queue.MessageListRequest{}}}},
	}
}

// LongRefusalScript: a long history on a full drop_oldest queue in which every
// accepted enqueue is followed by one that must be refused after the store has
// already looked for victims - a duplicate of the newest id, a duplicate of the
// oldest queued id, or a batch that cannot fit even with every queued message
// evicted. Internal bookkeeping thresholds (order-list compaction, counters)
// are crossed many times; each refusal must leave the queue exactly as it was
// and the next accepted enqueue must again evict the oldest message.
func LongRefusalScript(n, depth int) []Op {
	var ops []Op
	id := func(i int) string { return fmt.Sprintf("L%05d", i) }
	for i := 0; i < n; i++ {
		ops = append(ops, adv(time.Millisecond), enq(id(i)))
		switch i % 3 {
		case 0:
			ops = append(ops, enq(id(i)))
		case 1:
			if i >= depth {
				ops = append(ops, enq(id(i-depth+1)))
			}
		default:
			var envs []queue.Envelope
			for k := 0; k <= depth; k++ {
				envs = append(envs, env(fmt.Sprintf("B%05d-%d", i, k), time.Time{}))
			}
			ops = append(ops, Op{Kind: KEnqueueBatch, Envs: envs})
		}
	}
	return ops
}

// LeaseScenarios: directed, deterministic lease situations (both backends):
// settle calls at the exact expiry instant and one nanosecond around it, batch
// settles that name an expired lease before a live one (and the reverse), a
// stale single / batch settle after the message was leased again, the same
// lease twice in a batch. The snapshot-diff monitor judges every reply and
// every effect.
func LeaseScenarios() []Directed {
	var out []Directed
	lb := func(k Kind, refs ...LeaseRef) Op { return Op{Kind: k, Leases: refs, Reason: "directed", Dur: 0} }
	for _, k := range []Kind{KAck, KNack, KExtend, KDead} {
		for _, off := range []time.Duration{-time.Nanosecond, 0, time.Nanosecond} {
			op := Op{Kind: k, Leases: []LeaseRef{lease("a", 1)}, Reason: "directed"}
			if k == KExtend {
				op.Dur = time.Second
			}
			out = append(out, Directed{Name: fmt.Sprintf("%s-at-expiry%+dns", k, int64(off)), Script: []Op{
				enq("a"), enq("b"), deq(1, time.Second), adv(time.Second + off), op, {Kind: KList, List: &queue.MessageListRequest{}},
				adv(10 * time.Millisecond), deq(5, time.Minute), {Kind: KList, List: &queue.MessageListRequest{}}}})
		}
	}
	for _, k := range []Kind{KAckBatch, KNackBatch, KDeadBatch} {
		// a leased with 1s, b leased with 1m; after 2s a's lease is over, b's is live
		prep := []Op{enq("a"), adv(time.Millisecond), enq("b"), adv(time.Millisecond), enq("c"), deq(1, time.Second), deq(1, time.Minute), adv(2 * time.Second)}
		tail := []Op{{Kind: KList, List: &queue.MessageListRequest{}}, adv(10 * time.Millisecond), deq(5, time.Minute), {Kind: KList, List: &queue.MessageListRequest{}}}
		for name, refs := range map[string][]LeaseRef{
			"expired-then-live":    {lease("a", 1), lease("b", 1)},
			"live-then-expired":    {lease("b", 1), lease("a", 1)},
			"expired-twice":        {lease("a", 1), lease("a", 1)},
			"live-twice":           {lease("b", 1), lease("b", 1)},
			"expired-live-expired": {lease("a", 1), lease("b", 1), lease("a", 1)},
		} {
			sc := append(append(append([]Op{}, prep...), lb(k, refs...)), tail...)
			out = append(out, Directed{Name: fmt.Sprintf("%s-%s", k, name), Script: sc})
		}
		// stale settle after the message was leased again: L1 expired, L2 live
		for _, single := range []bool{false, true} {
			op := lb(k, lease("a", 1))
			if single {
				op = Op{Kind: map[Kind]Kind{KAckBatch: KAck, KNackBatch: KNack, KDeadBatch: KDead}[k], Leases: []LeaseRef{lease("a", 1)}, Reason: "directed"}
			}
			out = append(out, Directed{Name: fmt.Sprintf("%s-stale-after-release-single=%v", k, single), Script: []Op{
				enq("a"), deq(1, time.Second), adv(2 * time.Second), deq(1, time.Minute), op, {Kind: KList, List: &queue.MessageListRequest{}},
				adv(10 * time.Millisecond), deq(5, time.Minute), lb(KAckBatch, lease("a", 2)), {Kind: KList, List: &queue.MessageListRequest{}}}})
		}
	}
	return out
}
