package checks

import (
	"encoding/json"
	"fmt"
	"net/http"
	"os"
	"path/filepath"
	"strings"
	"sync"
	"sync/atomic"
	"time"

	"github.com/nuetzliches/hookaido/internal/verifhook"
	"github.com/nuetzliches/hookaido/verifharness/l2"
	"github.com/nuetzliches/hookaido/verifharness/vlib"
)

const c18Head = "ingress { listen 127.0.0.1:0 }\npull_api { listen 127.0.0.2:0\n auth token raw:gtok }\nadmin_api { listen 127.0.0.3:0\n auth token raw:atok }\n"

// probe is one request of the behaviour fingerprint.
type c18Probe struct {
	Name string
	Do   func(a *l2.App) string
}

func c18Probes() []c18Probe {
	ing := func(target string, body int, hdr map[string]string) func(a *l2.App) string {
		return func(a *l2.App) string {
			req, _ := l2.NewRequest("POST", target, make([]byte, body), "")
			for k, v := range hdr {
				req.Header.Set(k, v)
			}
			before, _ := vlib.ListAll(a.Store)
			resp := l2.Do(a.Ingress, req)
			after, _ := vlib.ListAll(a.Store)
			route := ""
			ids := map[string]bool{}
			for _, e := range before {
				ids[e.ID] = true
			}
			for _, e := range after {
				if !ids[e.ID] {
					route = e.Route + ">" + e.Target
				}
			}
			return fmt.Sprintf("%d %s", resp.Status, route)
		}
	}
	pull := func(ep, tok string) func(a *l2.App) string {
		return func(a *l2.App) string {
			if a.Pull == nil {
				return "nopull"
			}
			resp := l2.Do(a.Pull, l2.JSONReq("POST", ep+"/dequeue", map[string]any{"batch": 1, "lease_ttl": "1ms"}, tok))
			return fmt.Sprint(resp.Status)
		}
	}
	admin := func(tok string) func(a *l2.App) string {
		return func(a *l2.App) string {
			return fmt.Sprint(l2.Do(a.Admin, l2.JSONReq("GET", "/healthz", nil, tok)).Status)
		}
	}
	basic := map[string]string{"Authorization": "Basic dTE6cDE="} // u1:p1
	return []c18Probe{
		{"POST /a unsigned", ing("/a", 4, nil)}, {"POST /a basic u1", ing("/a", 4, basic)}, {"POST /a 100 bytes", ing("/a", 100, basic)},
		{"POST /b", ing("/b", 4, nil)}, {"POST /b 100 bytes", ing("/b", 100, nil)}, {"POST /c", ing("/c", 4, nil)}, {"POST /nomatch", ing("/zzz", 4, nil)},
		{"pull /pa gtok", pull("/pa", "gtok")}, {"pull /pa rtok", pull("/pa", "rtok")}, {"pull /pb gtok", pull("/pb", "gtok")}, {"pull /pb none", pull("/pb", "")},
		{"admin atok", admin("atok")}, {"admin none", admin("")},
	}
}

func c18Fingerprint(a *l2.App) []string {
	var out []string
	for _, p := range c18Probes() {
		out = append(out, p.Name+" => "+p.Do(a))
	}
	return out
}

var c18Configs = []string{
	// 0: /a basic auth + small body + own pull token, /b open
	c18Head + "/a { queue { backend memory }\n auth basic u1 p1\n max_body 16\n pull { path /pa\n  auth token raw:rtok } }\n/b { queue { backend memory }\n pull { path /pb } }\n",
	// 1: /a gone, /c new, /b limited
	c18Head + "/c { queue { backend memory }\n pull { path /pa } }\n/b { queue { backend memory }\n max_body 32\n pull { path /pb } }\n",
	// 2: /a with hmac, /b with rate limit
	c18Head + "/a { queue { backend memory }\n auth hmac raw:k1\n pull { path /pa } }\n/b { queue { backend memory }\n rate_limit { rps 1000\n burst 1000 }\n pull { path /pb } }\n",
	// 3: only /b, different global tokens
	strings.Replace(c18Head, "raw:gtok", "raw:gtok2", 1) + "/b { queue { backend memory }\n pull { path /pb } }\n",
	// 4: /a open, /b basic
	c18Head + "/a { queue { backend memory }\n pull { path /pa } }\n/b { queue { backend memory }\n auth basic u1 p1\n pull { path /pb } }\n",
}

// c18FailedReload: a reload that fails must leave every per-request decision as before.
func c18FailedReload(c *vlib.Ctx) {
	dir := c.Scratch()
	type failure struct {
		name  string
		apply func(a *l2.App, next string) (undo func())
	}
	secretFile := filepath.Join(dir, "c18-secret")
	failures := []failure{
		{"syntax_error", func(a *l2.App, next string) func() { _ = a.WriteConfig(next + "\n/broken {"); return nil }},
		{"compile_error_duplicate_route", func(a *l2.App, next string) func() {
			_ = a.WriteConfig(next + "\n/b { pull { path /dup } }\n")
			return nil
		}},
		{"file_removed", func(a *l2.App, next string) func() { _ = os.Remove(a.Path); return nil }},
		{"file_is_directory", func(a *l2.App, next string) func() {
			_ = os.Remove(a.Path)
			_ = os.Mkdir(a.Path, 0o755)
			return func() { _ = os.Remove(a.Path) }
		}},
		{"dangling_symlink", func(a *l2.App, next string) func() {
			_ = os.Remove(a.Path)
			_ = os.Symlink(filepath.Join(dir, "does-not-exist"), a.Path)
			return func() { _ = os.Remove(a.Path) }
		}},
		{"env_secret_unset", func(a *l2.App, next string) func() {
			os.Unsetenv("VERIF_C18_SECRET")
			_ = a.WriteConfig(strings.Replace(next, "raw:gtok", "env:VERIF_C18_SECRET", 1))
			return nil
		}},
		{"file_secret_missing", func(a *l2.App, next string) func() {
			_ = os.Remove(secretFile)
			_ = a.WriteConfig(strings.Replace(next, "raw:atok", "file:"+secretFile, 1))
			return nil
		}},
		{"api_tokens_changed_and_route_hmac_env_unset", func(a *l2.App, next string) func() {
			// the API tokens of the new file load fine, a secret loaded later does not
			os.Unsetenv("VERIF_C18_UNSET_LATE")
			t := strings.Replace(strings.Replace(next, "raw:gtok", "raw:gtokNEW", 1), "raw:atok", "raw:atokNEW", 1)
			_ = a.WriteConfig(t + "/latesecret { queue { backend memory }\n auth hmac env:VERIF_C18_UNSET_LATE\n pull { path /platesecret } }\n")
			return nil
		}},
		{"api_tokens_changed_and_route_token_file_missing", func(a *l2.App, next string) func() {
			_ = os.Remove(secretFile)
			t := strings.Replace(strings.Replace(next, "raw:gtok", "raw:gtokNEW", 1), "raw:atok", "raw:atokNEW", 1)
			_ = a.WriteConfig(t + "/latetoken { queue { backend memory }\n pull { path /platetoken\n  auth token file:" + secretFile + " } }\n")
			return nil
		}},
		{"restart_required_listener_change", func(a *l2.App, next string) func() {
			_ = a.WriteConfig(strings.Replace(next, "listen 127.0.0.1:0", "listen 127.0.0.9:0", 1))
			return nil
		}},
		{"restart_required_backend_change", func(a *l2.App, next string) func() {
			_ = a.WriteConfig(strings.ReplaceAll(next, "backend memory", "backend sqlite"))
			return nil
		}},
	}
	for oi, old := range c18Configs {
		for ni, next := range c18Configs {
			if oi == ni && !c.Thorough() && oi != 2 {
				continue // (2 -> 2 keeps the HMAC route in the candidate: its authenticator is rebuilt before the failure)
			}
			if !c.Thorough() && (oi+ni)%2 == 1 {
				continue
			}
			for _, f := range failures {
				a, err := l2.Start(dir, old, nil, nil)
				if err != nil {
					c.Inconclusive("C18 config did not start: " + err.Error())
					return
				}
				before := c18Fingerprint(a)
				// replay protection is part of "authentication ... exactly as before": a signed
				// request honoured before the failed reload is still a replay after it
				var captured func() *http.Request
				if strings.Contains(old, "auth hmac raw:k1") {
					ts, body := time.Now().Unix(), []byte("captured")
					captured = func() *http.Request { return signedReq("k1", "/a", ts, "cap-nonce", body) }
					if st := l2.Do(a.Ingress, captured()).Status; st != 202 {
						captured = nil
					}
				}
				undo := f.apply(a, next)
				ok := a.Reload()
				after := c18Fingerprint(a)
				if captured != nil {
					c.Count("captured_requests_replayed_after_failed_reload", 1)
					if st := l2.Do(a.Ingress, captured()).Status; st != 401 && !ok {
						c.Violation(vlib.Signature{"class": "behaviour_changed_by_failed_reload", "failure": f.name, "probe": "replay of a request honoured before the reload"},
							fmt.Sprintf("after a failed reload (%s) the signed request honoured before it is answered %d instead of 401: the replay state of the running authenticator changed", f.name, st), map[string]any{"old": old, "candidate": next})
					}
				}
				c.Count("evaluations", 1)
				c.Count("failed_reload_trials", 1)
				if c.Counter("failed_reload_trials") <= 2 {
					c.Sample(map[string]any{"part": "failed_reload", "failure": f.name, "old_config": old, "candidate": next, "reload_reported_ok": ok, "fingerprint_before": before, "fingerprint_after": after})
				}
				c.Distinct("nontrivial", fmt.Sprintf("failed_reload:%s:%d->%d", f.name, oi, ni))
				if ok {
					c.Violation(vlib.Signature{"class": "invalid_reload_applied", "failure": f.name}, fmt.Sprintf("reload with injected failure %q reported success (old config %d, candidate %d)", f.name, oi, ni), map[string]any{"old": old, "candidate": next})
				}
				for i := range before {
					if before[i] != after[i] {
						c.Violation(vlib.Signature{"class": "behaviour_changed_by_failed_reload", "failure": f.name, "probe": c18Probes()[i].Name},
							fmt.Sprintf("after a failed reload (%s) probe changed: %q -> %q", f.name, before[i], after[i]), map[string]any{"old": old, "candidate": next, "before": before, "after": after})
						break
					}
				}
				if undo != nil {
					undo()
				}
				// a later valid reload must still work and switch completely
				_ = a.WriteConfig(next)
				if a.Reload() {
					ref, err := l2.Start(dir, next, nil, nil)
					if err == nil {
						want, got := c18Fingerprint(ref), c18Fingerprint(a)
						for i := range want {
							if want[i] != got[i] {
								c.Violation(vlib.Signature{"class": "reload_differs_from_fresh_start", "probe": c18Probes()[i].Name},
									fmt.Sprintf("after reload the probe answers %q, a fresh start of the same file answers %q", got[i], want[i]), map[string]any{"old": old, "new": next})
								break
							}
						}
						ref.Close()
					}
				} else if oi != ni {
					c.Count("valid_reload_refused", 1)
				}
				a.Close()
			}
		}
	}
}

// c18ManagementAfterRefusedReload: the file on disk holds an edit that the
// running process refused (restart required, or invalid); then the management
// API rewrites the file (endpoint upsert / delete). The reload that follows the
// rewrite needs a restart or fails too, so the mutation must fail, put back the
// bytes it found, and leave the running behaviour exactly as before. With a
// clean file the same mutation must succeed and behave like a fresh start.
func c18ManagementAfterRefusedReload(c *vlib.Ctx) {
	dir := c.Scratch()
	type pend struct {
		name    string
		edit    func(next string) string
		refused bool // the pending file cannot be applied without a restart / at all
	}
	pends := []pend{
		{"pending_listener_change", func(n string) string { return strings.Replace(n, "listen 127.0.0.1:0", "listen 127.0.0.9:0", 1) }, true},
		{"pending_backend_change", func(n string) string { return strings.ReplaceAll(n, "backend memory", "backend sqlite") }, true},
		{"pending_admin_listener_change", func(n string) string { return strings.Replace(n, "listen 127.0.0.3:0", "listen 127.0.0.8:0", 1) }, true},
		{"pending_compile_error", func(n string) string { return n + "\n/b { pull { path /dup } }\n" }, true},
		{"pending_syntax_error", func(n string) string { return n + "\n/broken {" }, true},
		{"clean_file", nil, false},
	}
	muts := []struct {
		name, method, body string
	}{{"upsert", "PUT", `{"route":"/b"}`}, {"delete_unknown", "DELETE", ""}}
	for oi, old := range c18Configs {
		for ni, next := range c18Configs {
			if !c.Thorough() && (oi+2*ni)%3 != 0 {
				continue
			}
			for _, pd := range pends {
				for _, mu := range muts {
					a, err := l2.Start(dir, old, nil, nil)
					if err != nil {
						c.Inconclusive("C18 config did not start: " + err.Error())
						return
					}
					if pd.edit != nil {
						pending := pd.edit(next)
						// every other trial the file on disk has CRLF line ends (or a lone CR and a
						// BOM): the bytes put back after a failed mutation are the bytes read
						switch c.Counter("management_mutation_trials") % 4 {
						case 1:
							pending = strings.ReplaceAll(pending, "\n", "\r\n")
							c.Count("management_mutation_trials_on_crlf_files", 1)
						case 3:
							pending = "\xef\xbb\xbf" + strings.Replace(pending, "\n", "\r", 1)
							c.Count("management_mutation_trials_on_crlf_files", 1)
						}
						_ = a.WriteConfig(pending)
						if a.Reload() {
							c.Violation(vlib.Signature{"class": "invalid_reload_applied", "failure": pd.name}, "reload of a file that needs a restart or is invalid reported success", map[string]any{"old": old, "pending": pd.edit(next)})
						}
					}
					fileBefore, _ := os.ReadFile(a.Path)
					before := c18Fingerprint(a)
					req := l2.JSONReq(mu.method, a.Compiled.AdminAPI.Prefix+"/applications/app1/endpoints/ep1", []byte(mu.body), "atok")
					req.Header.Set("X-Hookaido-Audit-Reason", "verif")
					resp := l2.Do(a.Admin, req)
					fileAfter, _ := os.ReadFile(a.Path)
					after := c18Fingerprint(a)
					c.Count("evaluations", 1)
					c.Count("management_mutation_trials", 1)
					ok2xx := resp.Status >= 200 && resp.Status <= 299
					if ok2xx {
						c.Count("management_mutations_applied", 1)
					} else {
						c.Count("management_mutations_refused", 1)
					}
					c.Distinct("nontrivial", fmt.Sprintf("mgmt:%s:%s:%d->%d:2xx=%v", pd.name, mu.name, oi, ni, ok2xx))
					wit := map[string]any{"old": old, "file_before_mutation": string(fileBefore), "file_after_mutation": string(fileAfter), "mutation": mu.name, "status": resp.Status, "body": string(resp.Body[:minInt(300, len(resp.Body))]), "fingerprint_before": before, "fingerprint_after": after}
					if c.Counter("management_mutation_trials") <= 2 {
						c.Sample(map[string]any{"part": "management_mutation", "pending": pd.name, "mutation": mu.name, "status": resp.Status, "file_changed": string(fileBefore) != string(fileAfter)})
					}
					changed := -1
					for i := range before {
						if before[i] != after[i] {
							changed = i
							break
						}
					}
					switch {
					case pd.refused || !ok2xx:
						if pd.refused && ok2xx && string(fileBefore) != string(fileAfter) {
							c.Violation(vlib.Signature{"class": "mutation_applied_over_refused_config", "pending": pd.name, "mutation": mu.name},
								fmt.Sprintf("management %s answered %d and rewrote the file although the configuration on disk (%s) cannot be applied by a reload", mu.name, resp.Status, pd.name), wit)
						}
						if string(fileBefore) != string(fileAfter) && !ok2xx {
							c.Violation(vlib.Signature{"class": "file_not_restored_after_failed_mutation", "pending": pd.name, "mutation": mu.name},
								fmt.Sprintf("management %s failed (%d) but the config file differs from what it was before the call", mu.name, resp.Status), wit)
						}
						if changed >= 0 {
							c.Violation(vlib.Signature{"class": "behaviour_changed_by_failed_mutation", "pending": pd.name, "mutation": mu.name, "probe": c18Probes()[changed].Name},
								fmt.Sprintf("management %s over %s (status %d): probe changed %q -> %q although the reload could not be applied", mu.name, pd.name, resp.Status, before[changed], after[changed]), wit)
						}
					default:
						// applied: the file must compile and the process behave like a fresh start of it
						ref, err := l2.Start(dir, string(fileAfter), nil, nil)
						if err != nil {
							c.Violation(vlib.Signature{"class": "mutation_wrote_invalid_config", "mutation": mu.name}, "the file written by the management API does not start: "+err.Error(), wit)
							break
						}
						want := c18Fingerprint(ref)
						for i := range want {
							if want[i] != after[i] {
								c.Violation(vlib.Signature{"class": "mutation_differs_from_fresh_start", "probe": c18Probes()[i].Name},
									fmt.Sprintf("after management %s the probe answers %q, a fresh start of the written file answers %q", mu.name, after[i], want[i]), wit)
								break
							}
						}
						ref.Close()
					}
					a.Close()
				}
			}
		}
	}
}

const c18SettingsBase = `ingress { listen 127.0.0.1:0 }
pull_api { listen 127.0.0.2:0
 auth token raw:gtok
 max_batch 5
 default_lease_ttl 20s
 max_lease_ttl 40s
 default_max_wait 0
 max_wait 1s }
admin_api { listen 127.0.0.3:0
 auth token raw:atok }
defaults { max_body 64
 max_headers 4096
 publish_policy { require_actor off } }
queue_limits { max_depth 40
 drop_policy reject }
/b { queue { backend memory }
 pull { path /pb } }
`

// c18SettingsFingerprint: probes that observe the settings a process reads at
// start-up or at reload: pull limits (lease clamp, default lease, batch cap),
// default body limit, publish policy, queue depth limit, route table.
func c18SettingsFingerprint(a *l2.App, clock *vlib.VClock) []string {
	var out []string
	pp := a.Compiled.PullAPI.Prefix
	ap := a.Compiled.AdminAPI.Prefix
	post := func(h http.Handler, target string, body any, tok string) l2.Resp {
		return l2.Do(h, l2.JSONReq("POST", target, body, tok))
	}
	// drain what earlier probes left on /b so that counts below are comparable
	for i := 0; i < 40; i++ {
		var r struct {
			Items []struct {
				LeaseID string `json:"lease_id"`
			} `json:"items"`
		}
		resp := post(a.Pull, pp+"/pb/dequeue", map[string]any{"batch": 100}, "gtok")
		if resp.Status != 200 || resp.JSON(&r) != nil || len(r.Items) == 0 {
			break
		}
		for _, it := range r.Items {
			post(a.Pull, pp+"/pb/ack", map[string]any{"lease_id": it.LeaseID}, "gtok")
		}
	}
	for i := 0; i < 12; i++ {
		req, _ := l2.NewRequest("POST", "/b", []byte("x"), "")
		l2.Do(a.Ingress, req)
	}
	type deq struct {
		Items []struct {
			LeaseID   string    `json:"lease_id"`
			NextRunAt time.Time `json:"next_run_at"`
		} `json:"items"`
	}
	lease := func(body map[string]any) string {
		var r deq
		resp := post(a.Pull, pp+"/pb/dequeue", body, "gtok")
		if resp.Status != 200 || resp.JSON(&r) != nil {
			return fmt.Sprintf("status %d", resp.Status)
		}
		d := "none"
		if len(r.Items) > 0 {
			// the pull handler runs on the wall clock; 5s resolution separates 20s/35s/40s/10m/1h
			d = time.Until(r.Items[0].NextRunAt).Round(5 * time.Second).String()
		}
		for _, it := range r.Items {
			post(a.Pull, pp+"/pb/nack", map[string]any{"lease_id": it.LeaseID, "delay": "0s"}, "gtok")
		}
		return fmt.Sprintf("%d items lease %s", len(r.Items), d)
	}
	out = append(out, "dequeue batch=100 lease_ttl=1h => "+lease(map[string]any{"batch": 100, "lease_ttl": "1h"}))
	out = append(out, "dequeue batch=1 default lease => "+lease(map[string]any{"batch": 1}))
	for _, n := range []int{60, 70, 200} {
		req, _ := l2.NewRequest("POST", "/b", make([]byte, n), "")
		out = append(out, fmt.Sprintf("POST /b %d bytes => %d", n, l2.Do(a.Ingress, req).Status))
	}
	for _, rt := range []string{"/e2", "/b"} {
		req, _ := l2.NewRequest("POST", rt, []byte("y"), "")
		out = append(out, fmt.Sprintf("POST %s => %d", rt, l2.Do(a.Ingress, req).Status))
	}
	pub := l2.JSONReq("POST", ap+"/messages/publish", map[string]any{"items": []map[string]any{{"id": fmt.Sprintf("fp-%d", clock.NowNS()), "route": "/b", "payload_b64": "eA=="}}}, "atok")
	pub.Header.Set("X-Hookaido-Audit-Reason", "verif")
	out = append(out, fmt.Sprintf("publish without actor => %d", l2.Do(a.Admin, pub).Status))
	for _, v := range []struct{ name, actor, reqID string }{{"publish with actor ci-bot and request id", "ci-bot", "r-1"}, {"publish with actor deploy-7, no request id", "deploy-7", ""}, {"publish with actor mallory and request id", "mallory", "r-2"}} {
		pq := l2.JSONReq("POST", ap+"/messages/publish", map[string]any{"items": []map[string]any{{"id": fmt.Sprintf("fp-%s-%d", v.actor, clock.NowNS()), "route": "/b", "payload_b64": "eA=="}}}, "atok")
		pq.Header.Set("X-Hookaido-Audit-Reason", "verif")
		pq.Header.Set("X-Hookaido-Audit-Actor", v.actor)
		if v.reqID != "" {
			pq.Header.Set("X-Request-ID", v.reqID)
		}
		out = append(out, fmt.Sprintf("%s => %d", v.name, l2.Do(a.Admin, pq).Status))
	}
	clock.Advance(time.Millisecond)
	// depth limit: fill up and count acceptances
	acc := 0
	for i := 0; i < 60; i++ {
		req, _ := l2.NewRequest("POST", "/b", []byte("z"), "")
		if l2.Do(a.Ingress, req).Status == 202 {
			acc++
		}
	}
	out = append(out, fmt.Sprintf("60 posts on a queue holding ~15 => %s accepted", cmpClass(acc, 25)))
	out = append(out, fmt.Sprintf("pull wrong prefix => %d", post(a.Pull, "/altprefix/pb/dequeue", map[string]any{"batch": 1}, "gtok").Status))
	return out
}

// c18SettingEdits: one setting of the file changes (every pull limit, defaults,
// publish policy, queue limits, retention, prefixes, listeners, TLS-free
// observability) together with a route added, and the process reloads. Whatever
// the process decides - apply or refuse - must be whole: refused => every probe
// as before; applied => every probe as on a fresh start of the new file.
func c18SettingEdits(c *vlib.Ctx) {
	dir := c.Scratch()
	rep := func(old, new string) func(string) string {
		return func(t string) string { return strings.Replace(t, old, new, 1) }
	}
	edits := []struct {
		name string
		f    func(string) string
	}{
		{"pull_max_lease_ttl", rep("max_lease_ttl 40s", "max_lease_ttl 10m")},
		{"pull_max_lease_ttl_removed", rep(" max_lease_ttl 40s\n", "")},
		{"pull_default_lease_ttl", rep("default_lease_ttl 20s", "default_lease_ttl 35s")},
		{"pull_max_batch", rep("max_batch 5", "max_batch 9")},
		{"pull_max_wait", rep("max_wait 1s", "max_wait 2s")},
		{"pull_default_max_wait", rep("default_max_wait 0", "default_max_wait 10ms")},
		{"pull_prefix", rep("pull_api { listen 127.0.0.2:0", "pull_api { listen 127.0.0.2:0\n prefix /altprefix")},
		{"admin_prefix", rep("admin_api { listen 127.0.0.3:0", "admin_api { listen 127.0.0.3:0\n prefix /altadmin")},
		{"defaults_max_body", rep("max_body 64", "max_body 128")},
		{"defaults_max_headers", rep("max_headers 4096", "max_headers 8192")},
		{"publish_policy_require_actor", rep("require_actor off", "require_actor on")},
		{"publish_policy_require_request_id", rep("require_actor off", "require_actor off\n  require_request_id on")},
		{"publish_policy_direct_off", rep("require_actor off", "require_actor off\n  direct off")},
		{"publish_policy_allow_pull_routes_off", rep("require_actor off", "require_actor off\n  allow_pull_routes off")},
		{"publish_policy_actor_allow", rep("require_actor off", "require_actor on\n  actor_allow \"ci-bot\"")},
		{"publish_policy_actor_prefix", rep("require_actor off", "require_actor on\n  actor_prefix \"deploy-\"")},
		{"publish_policy_fail_closed", rep("require_actor off", "require_actor off\n  fail_closed on")},
		{"queue_limits_max_depth", rep("max_depth 40", "max_depth 400")},
		{"queue_limits_drop_policy", rep("drop_policy reject", "drop_policy drop_oldest")},
		{"queue_retention", func(t string) string { return t + "queue_retention { max_age 1h\n prune_interval 1m }\n" }},
		{"delivered_retention", func(t string) string { return t + "delivered_retention { max_age 1h }\n" }},
		{"dlq_retention", func(t string) string { return t + "dlq_retention { max_age 1h\n max_depth 10 }\n" }},
		{"ingress_listen", rep("ingress { listen 127.0.0.1:0", "ingress { listen 127.0.0.9:0")},
		{"pull_listen", rep("pull_api { listen 127.0.0.2:0", "pull_api { listen 127.0.0.7:0")},
		{"pull_token", rep("raw:gtok", "raw:gtok2")},
		{"route_only", func(t string) string { return t }},
	}
	for _, e := range edits {
		for _, withRoute := range []bool{true, false} {
			if e.name == "route_only" && !withRoute {
				continue
			}
			next := e.f(c18SettingsBase)
			if next == c18SettingsBase && e.name != "route_only" {
				c.Inconclusive("C18 setting edit " + e.name + " did not change the text")
				continue
			}
			if withRoute {
				next += "/e2 { queue { backend memory }\n pull { path /pe2 } }\n"
			}
			clock := vlib.NewVClock(vlib.Epoch)
			a, err := l2.Start(dir, c18SettingsBase, nil, clock)
			if err != nil {
				c.Inconclusive("C18 settings base did not start: " + err.Error())
				return
			}
			before := c18SettingsFingerprint(a, clock)
			_ = a.WriteConfig(next)
			ok := a.Reload()
			after := c18SettingsFingerprint(a, clock)
			c.Count("evaluations", 1)
			c.Count("setting_edit_trials", 1)
			c.Distinct("nontrivial", fmt.Sprintf("setting_edit:%s:route=%v:applied=%v", e.name, withRoute, ok))
			wit := map[string]any{"edit": e.name, "with_added_route": withRoute, "reload_reported_ok": ok, "before": before, "after": after, "new_file": next}
			if c.Counter("setting_edit_trials") <= 2 || (ok && c.Counter("setting_edit_applied_samples") < 2) {
				if ok {
					c.Count("setting_edit_applied_samples", 1)
				}
				c.Sample(map[string]any{"part": "setting_edit", "edit": e.name, "with_added_route": withRoute, "reload_reported_ok": ok, "fingerprint_before": before, "fingerprint_after": after})
			}
			if !ok {
				for i := range before {
					if before[i] != after[i] {
						c.Violation(vlib.Signature{"class": "behaviour_changed_by_failed_reload", "failure": "setting:" + e.name, "probe": strings.SplitN(before[i], " => ", 2)[0]},
							fmt.Sprintf("reload changing %s was refused but a probe changed: %q -> %q", e.name, before[i], after[i]), wit)
						break
					}
				}
			} else {
				refClock := vlib.NewVClock(vlib.Epoch)
				ref, err := l2.Start(dir, next, nil, refClock)
				if err != nil {
					c.Violation(vlib.Signature{"class": "invalid_reload_applied", "failure": "setting:" + e.name}, "reload applied a file that does not start: "+err.Error(), wit)
				} else {
					_ = c18SettingsFingerprint(ref, refClock) // same history as the reloaded process: one probe run before
					want := c18SettingsFingerprint(ref, refClock)
					wit["fresh_start"] = want
					for i := range want {
						if want[i] != after[i] {
							c.Violation(vlib.Signature{"class": "reload_differs_from_fresh_start", "setting": e.name, "probe": strings.SplitN(want[i], " => ", 2)[0]},
								fmt.Sprintf("reload changing %s reported success, but the probe answers %q where a fresh start of the same file answers %q (part of the file is live, part is not)", e.name, after[i], want[i]), wit)
							break
						}
					}
					ref.Close()
				}
			}
			a.Close()
		}
	}
}

// c18SecretRotation: the configuration text stays the same (or changes only in
// spelling); what changes is the content behind its secret references (file:,
// env:). A reload that reports success must behave like a fresh start on the
// same files - new secrets in force, old ones rejected - and a reload whose
// secrets cannot be loaded must report failure and leave everything as before.
func c18SecretRotation(c *vlib.Ctx) {
	dir := c.Scratch()
	tokFile := filepath.Join(dir, "c18-rot-pulltok")
	admFile := filepath.Join(dir, "c18-rot-admtok")
	const envHMAC = "VERIF_C18_ROT_HMAC"
	text := fmt.Sprintf("ingress { listen 127.0.0.1:0 }\npull_api { listen 127.0.0.2:0\n auth token file:%s }\nadmin_api { listen 127.0.0.3:0\n auth token file:%s }\n/a { queue { backend memory }\n auth hmac env:%s\n pull { path /pa } }\n", tokFile, admFile, envHMAC)
	setAll := func(gen string) {
		_ = os.WriteFile(tokFile, []byte("ptok-"+gen+"\n"), 0o600)
		_ = os.WriteFile(admFile, []byte("atok-"+gen+"\n"), 0o600)
		os.Setenv(envHMAC, "hsecret-"+gen)
	}
	nonce := 0
	fp := func(a *l2.App, clock *vlib.VClock) []string {
		var out []string
		for _, gen := range []string{"old", "new"} {
			resp := l2.Do(a.Pull, l2.JSONReq("POST", a.Compiled.PullAPI.Prefix+"/pa/dequeue", map[string]any{"batch": 1}, "ptok-"+gen))
			out = append(out, fmt.Sprintf("pull with %s token => %d", gen, resp.Status))
			resp = l2.Do(a.Admin, l2.JSONReq("GET", a.Compiled.AdminAPI.Prefix+"/healthz", nil, "atok-"+gen))
			out = append(out, fmt.Sprintf("admin with %s token => %d", gen, resp.Status))
			nonce++
			body := []byte("x")
			resp = l2.Do(a.Ingress, signedReq("hsecret-"+gen, "/a", clock.Now().Unix(), fmt.Sprintf("rot-%d", nonce), body))
			out = append(out, fmt.Sprintf("POST /a signed with %s secret => %d", gen, resp.Status))
		}
		return out
	}
	type tc struct {
		name   string
		mutate func()
		edit   func(string) string // spelling-only change of the file (nil = untouched)
		unload bool                // the reload cannot load its secrets
	}
	cases := []tc{
		{"rotate_all_untouched_file", func() { setAll("new") }, nil, false},
		{"rotate_pull_token_only", func() { _ = os.WriteFile(tokFile, []byte("ptok-new\n"), 0o600) }, nil, false},
		{"rotate_hmac_env_only", func() { os.Setenv(envHMAC, "hsecret-new") }, nil, false},
		{"rotate_all_reformatted_file", func() { setAll("new") }, func(t string) string { return strings.ReplaceAll(t, "\n auth", "\n    auth") + "# touched\n" }, false},
		{"token_file_removed_untouched_file", func() { _ = os.Remove(tokFile) }, nil, true},
		{"hmac_env_unset_untouched_file", func() { os.Unsetenv(envHMAC) }, nil, true},
		{"admin_token_file_blank_untouched_file", func() { _ = os.WriteFile(admFile, []byte("\n"), 0o600) }, nil, true},
		{"no_change_at_all", func() {}, nil, false},
	}
	for _, k := range cases {
		setAll("old")
		clock := vlib.NewVClock(c08T0)
		a, err := l2.Start(dir, text, nil, clock)
		if err != nil {
			c.Inconclusive("C18 rotation config did not start: " + err.Error())
			return
		}
		before := fp(a, clock)
		k.mutate()
		next := text
		if k.edit != nil {
			next = k.edit(text)
			_ = a.WriteConfig(next)
		}
		ok := a.Reload()
		after := fp(a, clock)
		c.Count("evaluations", 1)
		c.Count("secret_rotation_trials", 1)
		c.Distinct("nontrivial", fmt.Sprintf("secret_rotation:%s:applied=%v", k.name, ok))
		wit := map[string]any{"case": k.name, "reload_reported_ok": ok, "before": before, "after": after}
		if c.Counter("secret_rotation_trials") <= 1 {
			c.Sample(map[string]any{"part": "secret_rotation", "case": k.name, "reload_reported_ok": ok, "fingerprint_before": before, "fingerprint_after": after})
		}
		if k.unload && ok {
			c.Violation(vlib.Signature{"class": "invalid_reload_applied", "failure": "secrets:" + k.name}, fmt.Sprintf("reload reported success although its secrets cannot be loaded (%s)", k.name), wit)
		}
		if !ok {
			for i := range before {
				if before[i] != after[i] {
					c.Violation(vlib.Signature{"class": "behaviour_changed_by_failed_reload", "failure": "secrets:" + k.name, "probe": strings.SplitN(before[i], " => ", 2)[0]},
						fmt.Sprintf("reload (%s) was refused but a probe changed: %q -> %q", k.name, before[i], after[i]), wit)
					break
				}
			}
		} else if !k.unload {
			refClock := vlib.NewVClock(c08T0)
			ref, err := l2.Start(dir, next, nil, refClock)
			if err != nil {
				c.Inconclusive("C18 rotation reference did not start: " + err.Error())
			} else {
				want := fp(ref, refClock)
				wit["fresh_start"] = want
				for i := range want {
					if want[i] != after[i] {
						c.Violation(vlib.Signature{"class": "reload_differs_from_fresh_start", "setting": "secrets:" + k.name, "probe": strings.SplitN(want[i], " => ", 2)[0]},
							fmt.Sprintf("reload after %s reported success, but the probe answers %q where a fresh start on the same files answers %q", k.name, after[i], want[i]), wit)
						break
					}
				}
				ref.Close()
			}
		}
		a.Close()
	}
	os.Unsetenv(envHMAC)
}

// c18Mixture: during a successful reload every request is served entirely under
// the old or entirely under the new configuration.
func c18Mixture(c *vlib.Ctx) {
	dir := c.Scratch()
	type pair struct {
		name     string
		old, new string
		// probe and the answers that belong to the old / the new configuration
		target string
		body   int
		oldA   string
		newA   string
	}
	pairs := []pair{
		{"auth_route_removed", c18Head + "/a { queue { backend memory }\n auth hmac raw:k1\n pull { path /pa } }\n/b { queue { backend memory }\n pull { path /pb } }\n",
			c18Head + "/b { queue { backend memory }\n pull { path /pb } }\n", "/a", 4, "401", "404"},
		{"limited_route_removed", c18Head + "/a { queue { backend memory }\n max_body 16\n pull { path /pa } }\n/b { queue { backend memory }\n pull { path /pb } }\n",
			c18Head + "/b { queue { backend memory }\n pull { path /pb } }\n", "/a", 100, "413", "404"},
		{"basic_route_removed", c18Head + "/a { queue { backend memory }\n auth basic u1 p1\n pull { path /pa } }\n/b { queue { backend memory }\n pull { path /pb } }\n",
			c18Head + "/b { queue { backend memory }\n pull { path /pb } }\n", "/a", 4, "401", "404"},
		{"auth_route_added_under_prefix", c18Head + "/ { queue { backend memory }\n pull { path /proot } }\n",
			c18Head + "/a { queue { backend memory }\n auth basic u1 p1\n pull { path /pa } }\n/ { queue { backend memory }\n pull { path /proot } }\n", "/a", 4, "202 />pull", "401"},
	}
	modes := []string{"writer_window", "reader_window", "free_running"}
	rounds := c.N(40, 1500)
	for _, pr := range pairs {
		for _, mode := range modes {
			n := rounds
			if mode != "free_running" {
				n = c.N(6, 60)
			}
			for round := 0; round < n; round++ {
				verifhook.Reset()
				a, err := l2.Start(dir, pr.old, nil, nil)
				if err != nil {
					c.Inconclusive("C18 mixture config did not start: " + err.Error())
					return
				}
				probe := func() string {
					req, _ := l2.NewRequest("POST", pr.target, make([]byte, pr.body), "")
					before, _ := vlib.ListAll(a.Store)
					resp := l2.Do(a.Ingress, req)
					s := fmt.Sprint(resp.Status)
					if resp.Status == 202 {
						after, _ := vlib.ListAll(a.Store)
						if len(after) > len(before) {
							e := after[0]
							for _, x := range after {
								found := false
								for _, y := range before {
									if y.ID == x.ID {
										found = true
									}
								}
								if !found {
									e = x
								}
							}
							s += " " + e.Route + ">" + e.Target
						}
					}
					return s
				}
				classify := func(ans, site string) {
					c.Count("evaluations", 1)
					c.Count("requests_during_reload", 1)
					kind := "neither"
					switch {
					case ans == pr.oldA || strings.HasPrefix(ans, pr.oldA+" "):
						kind = "old"
					case ans == pr.newA || strings.HasPrefix(ans, pr.newA+" "):
						kind = "new"
					}
					c.Count("answers_"+kind, 1)
					if c.Counter("answers_"+kind) <= 1 {
						c.Sample(map[string]any{"part": "mixture", "pair": pr.name, "window": mode, "probe": "POST " + pr.target, "answer": ans, "classified": kind, "old_answer": pr.oldA, "new_answer": pr.newA})
					}
					c.Distinct("nontrivial", fmt.Sprintf("mixture:%s:%s:%s", pr.name, mode, kind))
					if kind == "neither" {
						c.Violation(vlib.Signature{"class": "mixed_configuration", "site": site},
							fmt.Sprintf("[%s, %s] request answered %q, which belongs neither to the old (%s) nor to the new (%s) configuration", pr.name, mode, ans, pr.oldA, pr.newA),
							map[string]any{"old": pr.old, "new": pr.new, "probe": pr.target, "mode": mode})
					}
				}
				_ = a.WriteConfig(pr.new)
				switch mode {
				case "writer_window":
					// the reload goroutine stops between its swaps; requests run meanwhile
					entered, release := make(chan struct{}), make(chan struct{})
					var once sync.Once
					verifhook.Set("app.reload.between_swaps", func() { once.Do(func() { close(entered); <-release }) })
					done := make(chan bool, 1)
					go func() { done <- a.Reload() }()
					select {
					case <-entered:
						for k := 0; k < 3; k++ {
							classify(probe(), "writer")
						}
						c.Count("hook_hits_between_swaps", 1)
					case ok := <-done:
						c.Inconclusive(fmt.Sprintf("C18: app.reload.between_swaps never reached (reload returned %v)", ok))
						done <- ok
					case <-time.After(5 * time.Second):
						c.Inconclusive("C18: reload hung before between_swaps")
					}
					close(release)
					<-done
					classify(probe(), "after_reload")
				case "reader_window":
					// a request stops right after route resolution; the reload completes meanwhile
					entered, release := make(chan struct{}), make(chan struct{})
					var once sync.Once
					verifhook.Set("ingress.after_resolve", func() { once.Do(func() { close(entered); <-release }) })
					ans := make(chan string, 1)
					go func() { ans <- probe() }()
					select {
					case <-entered:
						a.Reload()
						c.Count("hook_hits_after_resolve", 1)
					case v := <-ans:
						// not resolved at all under the old configuration (no route matched): no reader window
						ans <- v
					case <-time.After(5 * time.Second):
						c.Inconclusive("C18: request hung before after_resolve")
					}
					close(release)
					classify(<-ans, "reader")
				default:
					// free-running: 16 request goroutines race with the reload
					var wg sync.WaitGroup
					var stop atomic.Bool
					answers := make(chan string, 4096)
					for g := 0; g < 16; g++ {
						wg.Add(1)
						go func() {
							defer wg.Done()
							for k := 0; k < 40 && !stop.Load(); k++ {
								select {
								case answers <- probe():
								default:
								}
							}
						}()
					}
					time.Sleep(time.Duration(round%5) * 100 * time.Microsecond)
					a.Reload()
					stop.Store(true)
					wg.Wait()
					close(answers)
					for v := range answers {
						// (a 202 under the old config of pair 4 may name another new message; prefix match handles it)
						classify(v, "reader")
					}
				}
				verifhook.Reset()
				a.Close()
			}
		}
	}
}

// C18: configuration changes apply atomically or not at all.
func C18(c *vlib.Ctx) {
	c.Rule("(a) 9 injected reload failures (syntax error, compile error, file removed / replaced by a directory / dangling symlink, env secret unset, file secret missing, listener change, backend change) x old/candidate configuration pairs through the production reload path: a behaviour fingerprint of 13 probes (ingress status + stored route/target, pull token decisions, admin token decision) must be identical before and after; a later valid reload must behave like a fresh start; trend_signals / adaptive_backpressure edits reloaded with a warm admission cache on a backlog whose trend separates them: the next requests are admitted or refused as by a fresh start of the file in force; management mutations that rewrite the file and then fail in their reload (secret become unloadable) on files with LF / CRLF / BOM / lone CR / mixed line ends: the previous bytes are back, the fingerprint unchanged. (b) configuration pairs built so that mixtures are observable (authenticated / size-limited route removed, authenticated route added under a catch-all): requests are classified old / new / neither while the reload goroutine is parked between its swaps (writer window), while a request is parked right after route resolution (reader window), and free-running with 16 request goroutines (-race). (c) the real `hookaido mcp serve` and `hookaido run` children are SIGKILLed at every named point of the file replacement and at injected syscall indices (strace): the config file must hash to the complete old or new content and compile; trace specification write(tmp) -> fsync(tmp) -> rename -> fsync(dir), never O_TRUNC on the path; write_and_reload without a running instance must restore the previous bytes; after every named crash point and every second injected one the next two rewrites (a shorter, then a longer file) must put exactly their content at the config path whatever the killed writer left behind. The temporary file of the trace specification is whatever is renamed over the config path (any name). distinct_nontrivial = distinct (failure kind, pair) / (pair, window, classification) / (writer, crash point) classes.")
	c.Assume("'cannot be read' is produced with a removed file, a directory and a dangling symlink (the harness runs as root, so permission bits are ignored)")
	c.Assume("rate windows are not part of the fingerprint (a reload re-arms the buckets, as the statement of C12 notes)")
	c18FailedReload(c)
	c18ManagementAfterRefusedReload(c)
	c18SettingEdits(c)
	c18TrendReload(c)
	c18MgmtRollbackBytes(c)
	c18SecretRotation(c)
	deliverEdits(c)
	if c.Counter("management_mutations_applied") == 0 || c.Counter("management_mutations_refused") == 0 {
		c.Inconclusive("C18 management part observed no applied or no refused mutation")
	}
	c18Mixture(c)
	c18Files(c)
	c18MCPReloadVerdict(c)
	c.CollectRaces()
}

var _ = json.Marshal
