package checks

import (
	"bufio"
	"bytes"
	"encoding/json"
	"fmt"
	"io"
	"net/http"
	"net/http/httptest"
	"os"
	"os/exec"
	"path/filepath"
	"regexp"
	"strings"
	"time"

	"github.com/nuetzliches/hookaido/internal/config"
	"github.com/nuetzliches/hookaido/verifharness/l3"
	"github.com/nuetzliches/hookaido/verifharness/vlib"
)

const c18FileOld = `ingress { listen %INGRESS% }
pull_api { listen %PULL%
 auth token raw:tok }
admin_api { listen %ADMIN% }
/hooks { pull { path /pull/hooks } }
/managed { application app1
 endpoint_name ep1
 pull { path /pull/managed } }
/spare { pull { path /pull/spare } }
`

// mcpCall runs `hookaido mcp serve` as a child, sends one tools/call frame and
// returns the response text (empty when the child died first).
func mcpCall(dir, cfg string, env []string, strace []string, tool string, args map[string]any) (string, error) {
	params, _ := json.Marshal(map[string]any{"name": tool, "arguments": args})
	req, _ := json.Marshal(map[string]any{"jsonrpc": "2.0", "id": 1, "method": "tools/call", "params": json.RawMessage(params)})
	cmdArgs := []string{"mcp", "serve", "--config", cfg, "--db", filepath.Join(dir, "hookaido.db"), "--role", "admin", "--enable-mutations", "--principal", "alice", "--pid-file", filepath.Join(dir, "hookaido.pid")}
	var cmd *exec.Cmd
	if len(strace) > 0 {
		full := append(append([]string{}, strace...), l3.Bin())
		cmd = exec.Command("strace", append(full, cmdArgs...)...)
	} else {
		cmd = exec.Command(l3.Bin(), cmdArgs...)
	}
	cmd.Env = append(os.Environ(), env...)
	cmd.Dir = dir
	var out, errb bytes.Buffer
	cmd.Stdout, cmd.Stderr = &out, &errb
	cmd.Stdin = strings.NewReader(fmt.Sprintf("Content-Length: %d\r\n\r\n%s", len(req), req))
	done := make(chan error, 1)
	if err := cmd.Start(); err != nil {
		return "", err
	}
	go func() { done <- cmd.Wait() }()
	select {
	case <-done:
	case <-time.After(30 * time.Second):
		_ = cmd.Process.Kill()
		return "", fmt.Errorf("mcp child hung")
	}
	br := bufio.NewReader(&out)
	n := -1
	for {
		line, err := br.ReadString('\n')
		if err != nil {
			return "", nil // died before answering
		}
		line = strings.TrimSpace(line)
		if line == "" {
			break
		}
		if strings.HasPrefix(strings.ToLower(line), "content-length:") {
			fmt.Sscanf(strings.TrimSpace(line[15:]), "%d", &n)
		}
	}
	if n < 0 {
		return "", nil
	}
	body := make([]byte, n)
	if _, err := io.ReadFull(br, body); err != nil {
		return "", nil
	}
	return string(body), nil
}

func compilesOK(b []byte) error {
	cfg, err := config.Parse(b)
	if err != nil {
		return err
	}
	if _, res := config.Compile(cfg); !res.OK {
		return fmt.Errorf("%v", res.Errors)
	}
	return nil
}

// judgeFile: the config file must be the complete old or the complete new
// content (new = whatever compiles and differs from old in the expected way).
func judgeFile(c *vlib.Ctx, writer, crash string, path string, old []byte, isNew func([]byte) bool) {
	b, err := os.ReadFile(path)
	c.Count("evaluations", 1)
	c.Count("file_crash_points_checked", 1)
	wit := map[string]any{"writer": writer, "crash": crash}
	sig := func(class string) vlib.Signature {
		return vlib.Signature{"class": class, "writer": writer, "crash": regexp.MustCompile(`\d+$`).ReplaceAllString(crash, "N")}
	}
	switch {
	case err != nil:
		c.Violation(sig("config_file_missing_after_crash"), fmt.Sprintf("[%s, crash %s] the config file is gone: %v", writer, crash, err), wit)
		return
	case bytes.Equal(b, old):
		c.Distinct("nontrivial", writer+":"+crashClass(crash)+":old")
		if c.Counter("file_crash_points_checked") <= 3 {
			c.Sample(map[string]any{"part": "file_replacement", "writer": writer, "crash": crash, "file_after_crash": "complete old content"})
		}
	case isNew(b):
		c.Distinct("nontrivial", writer+":"+crashClass(crash)+":new")
	default:
		wit["content"] = string(b[:minInt(len(b), 600)])
		c.Violation(sig("config_file_neither_old_nor_new"), fmt.Sprintf("[%s, crash %s] the config file (%d bytes) is neither the complete old (%d bytes) nor the complete new content", writer, crash, len(b), len(old)), wit)
		return
	}
	if err := compilesOK(b); err != nil {
		c.Violation(sig("config_file_does_not_compile_after_crash"), fmt.Sprintf("[%s, crash %s] the config file does not compile: %v", writer, crash, err), wit)
	}
}

// c18WriteAfterCrash: whatever a killed writer left in the directory, the next
// rewrite (here a shorter file, then a longer one) must again put exactly its
// content at the config path.
func c18WriteAfterCrash(c *vlib.Ctx, writer, crash, dir, cfg string, old []byte) {
	short := strings.Replace(string(old), "/spare { pull { path /pull/spare } }\n", "", 1)
	long := string(old) + "/later1 { pull { path /pull/later1 } }\n/later2 { pull { path /pull/later2 } }\n"
	for i, content := range []string{short, long} {
		resp, err := mcpCall(dir, cfg, nil, nil, "config_apply", map[string]any{"content": content, "mode": "write_only"})
		if err != nil {
			c.Inconclusive("C18 write after crash: " + err.Error())
			return
		}
		b, rerr := os.ReadFile(cfg)
		c.Count("evaluations", 1)
		c.Count("writes_after_crash", 1)
		c.Distinct("nontrivial", fmt.Sprintf("write_after_crash:%s:%s:%s", writer, crashClass(crash), []string{"shorter", "longer"}[i]))
		if rerr != nil || string(b) != content {
			wit := map[string]any{"crashed_writer": writer, "crash": crash, "response": resp[:minInt(300, len(resp))], "want_len": len(content), "got_len": len(b), "got_tail": string(b[maxInt(0, len(b)-160):]), "leftovers": c20Snapshot(dir)}
			c.Violation(vlib.Signature{"class": "write_after_crash_not_exact", "writer": writer, "crash": regexp.MustCompile(`\d+$`).ReplaceAllString(crash, "N"), "next_write": []string{"shorter", "longer"}[i]},
				fmt.Sprintf("[%s killed at %s] the next config_apply (%s content, %d bytes) left %d bytes at the config path that are not its content (compiles: %v)", writer, crash, []string{"shorter", "longer"}[i], len(content), len(b), compilesOK(b) == nil), wit)
			return
		}
	}
}

func crashClass(s string) string {
	if strings.HasPrefix(s, "inject:") {
		parts := strings.Split(s, ":")
		return "inject:" + parts[1]
	}
	return s
}

// c18Files: crash points inside the config-file replacement.
func c18Files(c *vlib.Ctx) {
	if _, err := os.Stat(l3.Bin()); err != nil {
		c.Inconclusive("product binary missing: " + l3.Bin())
		return
	}
	root := filepath.Join(vlib.VerifRoot(), ".run", fmt.Sprintf("c18.%d", os.Getpid()))
	_ = os.MkdirAll(root, 0o755)
	defer os.RemoveAll(root)
	n := 0
	fixture := func() (dir, cfg string, old []byte) {
		n++
		dir = filepath.Join(root, fmt.Sprintf("f%d", n))
		_ = os.MkdirAll(dir, 0o755)
		cfg = filepath.Join(dir, "Hookaidofile")
		old = []byte(strings.NewReplacer("%INGRESS%", "127.0.0.1:18180", "%PULL%", "127.0.0.1:18181", "%ADMIN%", "127.0.0.1:18182").Replace(c18FileOld))
		_ = os.WriteFile(cfg, old, 0o644)
		return
	}
	newContent := func(old []byte) string { return string(old) + "/applied { pull { path /pull/applied } }\n" }
	type writer struct {
		name   string
		tool   string
		args   func(old []byte) map[string]any
		isNew  func(old []byte) func([]byte) bool
		prefix string
	}
	writers := []writer{
		{"mcp_config_apply", "config_apply", func(old []byte) map[string]any {
			return map[string]any{"content": newContent(old), "mode": "write_only"}
		},
			func(old []byte) func([]byte) bool { return func(b []byte) bool { return string(b) == newContent(old) } }, "mcp"},
		{"mcp_management_endpoint_upsert", "management_endpoint_upsert", func(old []byte) map[string]any {
			return map[string]any{"application": "app1", "endpoint_name": "ep2", "route": "/spare", "reason": "verif"}
		}, func(old []byte) func([]byte) bool {
			return func(b []byte) bool {
				return bytes.Contains(b, []byte("ep2")) && compilesOK(b) == nil && bytes.Contains(b, []byte("/managed"))
			}
		}, "mcp"},
		{"mcp_management_endpoint_delete", "management_endpoint_delete", func(old []byte) map[string]any {
			return map[string]any{"application": "app1", "endpoint_name": "ep1", "reason": "verif"}
		}, func(old []byte) func([]byte) bool {
			return func(b []byte) bool {
				return !bytes.Contains(b, []byte("ep1")) && compilesOK(b) == nil && bytes.Contains(b, []byte("/managed"))
			}
		}, "mcp"},
	}
	points := []string{"after_write", "after_sync", "after_rename"}
	for _, w := range writers {
		// no crash: the write must happen (vacuity guard) and follow the trace specification
		dir, cfg, old := fixture()
		trace := filepath.Join(dir, "trace.log")
		resp, err := mcpCall(dir, cfg, nil, []string{"-f", "-y", "-o", trace, "-e", "trace=openat,write,fsync,fdatasync,rename,renameat,renameat2,fchmod"}, w.tool, w.args(old))
		if err != nil {
			c.Inconclusive("C18 files: " + err.Error())
			return
		}
		b, _ := os.ReadFile(cfg)
		if !w.isNew(old)(b) {
			c.Inconclusive(fmt.Sprintf("C18 files: writer %s did not write the new content without a crash: %s", w.name, resp[:minInt(300, len(resp))]))
			continue
		}
		c18TraceSpec(c, w.name, trace, cfg)
		_ = os.RemoveAll(dir)
		// named crash points
		for _, pt := range points {
			dir, cfg, old := fixture()
			killLog := filepath.Join(dir, "kill.log")
			_, err := mcpCall(dir, cfg, []string{"VERIF_POINTS=" + w.prefix + ".writefile." + pt + "=kill@1", "VERIF_POINTS_LOG=" + killLog}, nil, w.tool, w.args(old))
			if err != nil {
				c.Inconclusive("C18 files: " + err.Error())
				return
			}
			if _, err := os.Stat(killLog); err != nil {
				c.Inconclusive(fmt.Sprintf("C18 files: point %s.writefile.%s was not reached by %s", w.prefix, pt, w.name))
			} else {
				c.Count("killed_at_point", 1)
			}
			judgeFile(c, w.name, w.prefix+".writefile."+pt, cfg, old, w.isNew(old))
			c18WriteAfterCrash(c, w.name, w.prefix+".writefile."+pt, dir, cfg, old)
			_ = os.RemoveAll(dir)
		}
		// injected SIGKILL at syscall indices of the write path
		maxN := c.N(6, 14)
		for _, sc := range []string{"write", "fsync", "renameat", "fchmod", "openat"} {
			lo := 1
			if sc == "openat" {
				lo = 8 // the first openat calls belong to process start-up
				if !c.Thorough() {
					continue
				}
			}
			for k := lo; k < lo+maxN; k++ {
				dir, cfg, old := fixture()
				_, err := mcpCall(dir, cfg, nil, []string{"-f", "-o", "/dev/null", "-e", "trace=" + sc, "-e", fmt.Sprintf("inject=%s:signal=SIGKILL:when=%d", sc, k)}, w.tool, w.args(old))
				if err != nil {
					c.Inconclusive("C18 files: " + err.Error())
					return
				}
				judgeFile(c, w.name, fmt.Sprintf("inject:%s:%d", sc, k), cfg, old, w.isNew(old))
				if k%2 == 0 {
					c18WriteAfterCrash(c, w.name, fmt.Sprintf("inject:%s:%d", sc, k), dir, cfg, old)
				}
				_ = os.RemoveAll(dir)
			}
		}
	}
	c18AdminWriter(c, root)
}

var reRename = regexp.MustCompile(`rename(?:at2?)?\((?:AT_FDCWD(?:<[^>]*>)?, )?"([^"]+)", (?:AT_FDCWD(?:<[^>]*>)?, )?"([^"]+)"`)
var reOpenat = regexp.MustCompile(`openat\(AT_FDCWD(?:<[^>]*>)?, "([^"]+)", ([A-Z_|]+)`)

// c18TraceSpec: write(tmp) -> fsync(tmp) -> rename(tmp, path) -> fsync(dir); never O_TRUNC on the path.
func c18TraceSpec(c *vlib.Ctx, writer, trace, cfgPath string) {
	b, err := os.ReadFile(trace)
	if err != nil {
		c.Inconclusive("C18 trace spec: " + err.Error())
		return
	}
	lines := strings.Split(string(b), "\n")
	base := filepath.Base(cfgPath)
	dir := filepath.Dir(cfgPath)
	stage := 0 // 0 nothing, 1 tmp written, 2 tmp synced, 3 renamed, 4 dir synced
	// the temporary file is whatever gets renamed over the config path, under any name
	tmp := ""
	for _, ln := range lines {
		if m := reRename.FindStringSubmatch(ln); m != nil && filepath.Base(m[2]) == base && filepath.Base(m[1]) != base {
			tmp = m[1]
			break
		}
	}
	c.Count("evaluations", 1)
	for _, ln := range lines {
		if m := reOpenat.FindStringSubmatch(ln); m != nil {
			if filepath.Base(m[1]) == base && strings.Contains(m[2], "O_TRUNC") {
				c.Violation(vlib.Signature{"class": "config_path_opened_with_truncate", "writer": writer}, "the config path itself is opened with O_TRUNC: "+ln, nil)
			}
			continue
		}
		if tmp == "" {
			continue
		}
		tb := filepath.Base(tmp)
		switch {
		case strings.Contains(ln, "write(") && strings.Contains(ln, tb) && stage < 1:
			stage = 1
		case (strings.Contains(ln, "fsync(") || strings.Contains(ln, "fdatasync(")) && strings.Contains(ln, tb):
			if stage == 1 {
				stage = 2
			}
		case strings.Contains(ln, "rename") && strings.Contains(ln, tb):
			if stage != 2 {
				c.Violation(vlib.Signature{"class": "rename_before_fsync", "writer": writer}, "the temporary file is renamed over the config before it was written and fsynced: "+ln, map[string]any{"stage": stage})
			}
			stage = 3
		case strings.Contains(ln, "fsync(") && strings.Contains(ln, "<"+dir+">") && stage == 3:
			stage = 4
		}
	}
	c.Distinct("nontrivial", fmt.Sprintf("trace_spec:%s:stage%d", writer, stage))
	if stage != 4 {
		c.Violation(vlib.Signature{"class": "atomic_replace_sequence_incomplete", "writer": writer, "stage": fmt.Sprint(stage)},
			fmt.Sprintf("expected write(tmp) -> fsync(tmp) -> rename(tmp, path) -> fsync(dir); the trace only reached stage %d", stage), map[string]any{"tmp": tmp})
	}
}

// c18AdminWriter: the management API of a running instance rewrites the file
// (app.writefile.* points).
func c18AdminWriter(c *vlib.Ctx, root string) {
	for _, pt := range []string{"none", "after_write", "after_sync", "after_rename"} {
		dir := filepath.Join(root, "admin-"+pt)
		p, err := l3.New(dir, c18FileOld)
		if err != nil {
			c.Inconclusive("C18 admin writer: " + err.Error())
			return
		}
		old, _ := os.ReadFile(p.Cfg)
		var env []string
		killLog := filepath.Join(dir, "kill.log")
		if pt != "none" {
			env = []string{"VERIF_POINTS=app.writefile." + pt + "=kill@1", "VERIF_POINTS_LOG=" + killLog}
		}
		if err := p.Start(l3.StartOpts{Env: env}); err != nil {
			c.Inconclusive("C18 admin writer: " + err.Error())
			return
		}
		if err := p.WaitHealthy(60 * time.Second); err != nil {
			c.Inconclusive("C18 admin writer: " + err.Error())
			p.Kill()
			return
		}
		resp := p.Admin("PUT", "/applications/app1/endpoints/ep2", map[string]any{"route": "/spare"})
		isNew := func(b []byte) bool { return bytes.Contains(b, []byte("ep2")) && compilesOK(b) == nil }
		if pt == "none" {
			b, _ := os.ReadFile(p.Cfg)
			if resp.Status != 200 || !isNew(b) {
				c.Inconclusive(fmt.Sprintf("C18 admin writer: PUT did not rewrite the file (status %d %s)", resp.Status, string(resp.Body)))
			}
			// the running instance must now serve the new mapping (reload applied)
			p.Stop()
		} else {
			p.WaitExit(2 * time.Second)
			if _, err := os.Stat(killLog); err != nil {
				c.Inconclusive("C18 admin writer: point app.writefile." + pt + " not reached")
			} else {
				c.Count("killed_at_point", 1)
			}
			p.Kill()
			judgeFile(c, "admin_put_endpoint", "app.writefile."+pt, p.Cfg, old, isNew)
			// and the instance must come up again on whatever the file holds
			if err := p.Start(l3.StartOpts{}); err == nil {
				if err := p.WaitHealthy(60 * time.Second); err != nil {
					c.Violation(vlib.Signature{"class": "restart_failed_after_file_crash", "crash": "app.writefile." + pt}, "the instance does not start on the config file left by the crash: "+err.Error(), nil)
				}
				p.Stop()
			}
		}
		_ = os.RemoveAll(dir)
	}
}

// c18MCPReloadVerdict: MCP config_apply / management tools in write_and_reload
// mode write the candidate and then ask the instance's admin health endpoint
// (address, prefix and token of the CANDIDATE) whether it took the file over.
// Only a 200 says so. Any other answer - 401 (old token still in force), 403,
// 404 (old prefix still in force), a redirect, 5xx, nothing listening - means
// the reload was not applied: the previous bytes must be back in the file and
// the result must not claim success.
func c18MCPReloadVerdict(c *vlib.Ctx) {
	root := c.Scratch()
	if err := c20MakeTemplate(root); err != nil {
		c.Inconclusive("C18 mcp verdict template db: " + err.Error())
		return
	}
	row := 900000
	for _, status := range []int{200, 204, 301, 401, 403, 404, 429, 500, 503, 0} {
		for _, tool := range []string{"config_apply", "management_endpoint_upsert"} {
			row++
			f, err := c20NewFixture(root, row)
			if err != nil {
				c.Inconclusive(err.Error())
				return
			}
			addr := "127.0.0.1:1" // nothing listens there
			var srv *httptest.Server
			if status != 0 {
				st := status
				srv = httptest.NewServer(http.HandlerFunc(func(w http.ResponseWriter, r *http.Request) {
					if st == 301 {
						w.Header().Set("Location", "/elsewhere")
					}
					w.WriteHeader(st)
				}))
				addr = strings.TrimPrefix(srv.URL, "http://")
			}
			// the file the instance runs already names the fake admin address, so that
			// the management tool (which keeps admin_api as it is) probes it too
			running := strings.Replace(c20Config, "admin_api { listen 127.0.0.1:18082 }", "admin_api { listen "+addr+" }", 1)
			_ = os.WriteFile(f.Cfg, []byte(running), 0o644)
			args := map[string]any{"content": running + "/viaapply { pull { path /pull/viaapply } }\n", "mode": "write_and_reload", "reload_timeout": "300ms"}
			if tool == "management_endpoint_upsert" {
				args = map[string]any{"application": "app1", "endpoint_name": "ep2", "route": "/spare", "reason": "verif", "mode": "write_and_reload", "reload_timeout": "300ms"}
			}
			before, _ := os.ReadFile(f.Cfg)
			ro, _, err := c20Call(f, "admin", true, true, "alice", "tools/call", map[string]any{"name": tool, "arguments": args})
			after, _ := os.ReadFile(f.Cfg)
			if srv != nil {
				srv.Close()
			}
			if err != nil {
				c.Inconclusive("C18 mcp verdict call: " + err.Error())
				_ = os.RemoveAll(f.Dir)
				continue
			}
			text := ""
			if len(ro.Result.Content) > 0 {
				text = ro.Result.Content[0].Text
			}
			var out struct {
				OK         bool `json:"ok"`
				Applied    bool `json:"applied"`
				Reloaded   bool `json:"reloaded"`
				RolledBack bool `json:"rolled_back"`
			}
			_ = json.Unmarshal([]byte(text), &out)
			c.Count("evaluations", 1)
			c.Count("mcp_reload_verdict_trials", 1)
			c.Distinct("nontrivial", fmt.Sprintf("mcp_reload_verdict:%s:health=%d:ok=%v:file_changed=%v", tool, status, out.OK, string(before) != string(after)))
			wit := map[string]any{"tool": tool, "health_status": status, "is_error": ro.Result.IsError, "text": text[:minInt(400, len(text))], "file_changed": string(before) != string(after)}
			if status == 200 {
				if string(before) == string(after) || ro.Result.IsError {
					c.Violation(vlib.Signature{"class": "healthy_reload_not_applied", "tool": tool}, fmt.Sprintf("%s write_and_reload with a healthy instance (200) did not keep the new file", tool), wit)
				}
			} else {
				if string(before) != string(after) {
					c.Violation(vlib.Signature{"class": "file_not_restored_after_failed_reload", "tool": tool, "health": fmt.Sprint(status)},
						fmt.Sprintf("%s write_and_reload: the health probe answered %d (the instance did not take the file over) but the previous content was not put back", tool, status), wit)
				}
				if !ro.Result.IsError && (out.OK || out.Reloaded) {
					c.Violation(vlib.Signature{"class": "failed_reload_reported_ok", "tool": tool, "health": fmt.Sprint(status)},
						fmt.Sprintf("%s write_and_reload reports ok/reloaded although the health probe answered %d", tool, status), wit)
				}
			}
			_ = os.RemoveAll(f.Dir)
		}
	}
}

func maxInt(a, b int) int {
	if a > b {
		return a
	}
	return b
}
