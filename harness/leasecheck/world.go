package leasecheck

import (
	"bytes"
	"context"
	"encoding/json"
	"errors"
	"fmt"
	"net"
	"net/http"
	"net/http/httptest"
	"os"
	"runtime"
	"sort"
	"strings"
	"sync"
	"sync/atomic"
	"time"

	"github.com/anishathalye/porcupine"
	"google.golang.org/grpc"
	"google.golang.org/grpc/codes"
	"google.golang.org/grpc/credentials/insecure"
	"google.golang.org/grpc/status"
	"google.golang.org/grpc/test/bufconn"
	"google.golang.org/protobuf/types/known/durationpb"

	"github.com/nuetzliches/hookaido/internal/pullapi"
	"github.com/nuetzliches/hookaido/internal/queue"
	"github.com/nuetzliches/hookaido/internal/workerapi"
	workerapipb "github.com/nuetzliches/hookaido/internal/workerapi/proto"
	"github.com/nuetzliches/hookaido/verifharness/vlib"
)

const route = "/r0"
const endpoint = "/pull/r0"

// Rec is one recorded per-message operation.
type Rec struct {
	Client int
	In     In
	Out    Out
	Call   int64
	Ret    int64
	Err    string // transport-level anomaly (unexpected status)
}

type Cfg struct {
	Backend     string
	Store       vlib.StoreCfg
	Messages    int
	Clients     int
	Phases      int
	StaleBias   float64  // probability that a settlement presents a non-fresh lease
	Transports  []string // subset of direct, http, grpc
	Operator    bool     // cancel / requeue by id
	OperatorPct int      // share of operator operations (default 10)
	BatchPct    int      // share of settlements in batch form (default 30)
	// OperatorAimsAtLeased: the operator mostly picks messages that were leased
	// most recently (their holders are about to settle).
	OperatorAimsAtLeased bool
	// SecondHandle (SQLite): operator calls go through a second store handle on the
	// same database file, as `hookaido mcp` works next to a running server.
	SecondHandle bool
	DequeuePct   int    // share of dequeue operations (default 38)
	Settle       []Kind // settlement mix (default: ack x2, nack x2, extend, dead)
	Label        string
	Mode         Mode
	Prop         string
}

type World struct {
	noDequeue bool // set between phases only
	cfg       Cfg
	c         *vlib.Ctx
	h         *vlib.Handle
	clock     *vlib.VClock
	pull      *pullapi.Server
	opStore   queue.Store // store the operator calls use (second handle or h.Store)
	grpcC     workerapipb.WorkerServiceClient
	closers   []func()
	tick      atomic.Int64

	mu        sync.Mutex
	recs      []Rec
	leaseMsg  map[string]string
	leases    []string
	leaseSet  map[string]int
	msgs      []string
	anomalies []string
}

func (w *World) now() int64 { return w.tick.Add(1) }

func NewWorld(c *vlib.Ctx, cfg Cfg) (*World, error) {
	if cfg.DequeuePct == 0 {
		cfg.DequeuePct = 38
	}
	if len(cfg.Settle) == 0 {
		cfg.Settle = []Kind{EvAck, EvAck, EvNack, EvNack, EvExtend, EvDead}
	}
	if cfg.OperatorPct == 0 {
		cfg.OperatorPct = 10
	}
	if cfg.BatchPct == 0 {
		cfg.BatchPct = 30
	}
	w := &World{cfg: cfg, c: c, clock: vlib.NewVClock(vlib.Epoch), leaseMsg: map[string]string{}, leaseSet: map[string]int{}}
	h, err := vlib.OpenStore(cfg.Backend, cfg.Store, w.clock, c.Scratch())
	if err != nil {
		return nil, err
	}
	w.h = h
	w.opStore = h.Store
	if cfg.SecondHandle && cfg.Backend == "sqlite" {
		st2, err := h.SecondHandle()
		if err != nil {
			return nil, err
		}
		w.opStore = st2
		w.closers = append(w.closers, func() { _ = st2.Close() })
	}
	w.pull = pullapi.NewServer(h.Store)
	w.pull.ResolveRoute = func(ep string) (string, bool) {
		if ep == endpoint {
			return route, true
		}
		return "", false
	}
	w.pull.MaxLeaseTTL = 0
	w.pull.VerifSetNow(w.clock.Now)
	// gRPC over an in-memory listener
	ws := workerapi.NewServer(w.pull)
	gs := grpc.NewServer()
	workerapipb.RegisterWorkerServiceServer(gs, ws)
	ln := bufconn.Listen(1 << 20)
	go func() { _ = gs.Serve(ln) }()
	conn, err := grpc.NewClient("passthrough:///bufnet", grpc.WithContextDialer(func(ctx context.Context, _ string) (net.Conn, error) { return ln.DialContext(ctx) }),
		grpc.WithTransportCredentials(insecure.NewCredentials()))
	if err != nil {
		return nil, err
	}
	w.grpcC = workerapipb.NewWorkerServiceClient(conn)
	w.closers = append(w.closers, func() { _ = conn.Close(); gs.Stop(); _ = ln.Close() })
	return w, nil
}

func (w *World) Close() {
	for _, f := range w.closers {
		f()
	}
	p := w.h.Path
	w.h.Close()
	if p != "" {
		for _, suf := range []string{"", "-wal", "-shm"} {
			_ = os.Remove(p + suf)
		}
	}
}

func (w *World) record(r Rec) {
	w.mu.Lock()
	w.recs = append(w.recs, r)
	w.mu.Unlock()
}

func (w *World) anomaly(s string) {
	w.mu.Lock()
	if len(w.anomalies) < 20 {
		w.anomalies = append(w.anomalies, s)
	}
	w.mu.Unlock()
}

func (w *World) learn(items []leased) {
	w.mu.Lock()
	for _, it := range items {
		w.leaseSet[it.Lease]++
		if _, ok := w.leaseMsg[it.Lease]; !ok {
			w.leaseMsg[it.Lease] = it.Msg
			w.leases = append(w.leases, it.Lease)
		}
	}
	w.mu.Unlock()
}

type leased struct {
	Msg     string
	Lease   string
	Attempt int
	Until   int64
}

// ---------------------------------------------------------------------------
// Transports. Each returns per-lease outcomes: true = success, false = conflict.

func (w *World) dequeue(tr string, batch int, ttl time.Duration) ([]leased, error) {
	switch tr {
	case "direct":
		resp, err := w.h.Store.Dequeue(queue.DequeueRequest{Route: route, Target: "pull", Batch: batch, LeaseTTL: ttl})
		if err != nil {
			return nil, err
		}
		var out []leased
		for _, it := range resp.Items {
			out = append(out, leased{it.ID, it.LeaseID, it.Attempt, it.LeaseUntil.UnixNano()})
		}
		return out, nil
	case "http":
		body, _ := json.Marshal(map[string]any{"batch": batch, "lease_ttl": ttl.String(), "max_wait": "0s"})
		st, rb := w.httpDo("dequeue", body)
		if st != 200 {
			return nil, fmt.Errorf("http dequeue status %d: %s", st, rb)
		}
		var resp struct {
			Items []struct {
				ID        string    `json:"id"`
				LeaseID   string    `json:"lease_id"`
				Attempt   int       `json:"attempt"`
				NextRunAt time.Time `json:"next_run_at"`
			} `json:"items"`
		}
		if err := json.Unmarshal(rb, &resp); err != nil {
			return nil, err
		}
		var out []leased
		for _, it := range resp.Items {
			out = append(out, leased{it.ID, it.LeaseID, it.Attempt, it.NextRunAt.UnixNano()})
		}
		return out, nil
	default:
		resp, err := w.grpcC.Dequeue(context.Background(), &workerapipb.DequeueRequest{Endpoint: endpoint, Batch: uint32(batch), LeaseTtl: durationpb.New(ttl), MaxWait: durationpb.New(0)})
		if err != nil {
			return nil, err
		}
		var out []leased
		for _, it := range resp.Items {
			out = append(out, leased{it.Id, it.LeaseId, int(it.Attempt), it.NextRunAt.AsTime().UnixNano()})
		}
		return out, nil
	}
}

func (w *World) httpDo(op string, body []byte) (int, []byte) {
	req := httptest.NewRequest(http.MethodPost, endpoint+"/"+op, bytes.NewReader(body))
	rec := httptest.NewRecorder()
	w.pull.ServeHTTP(rec, req)
	return rec.Code, rec.Body.Bytes()
}

func classify(err error) (ok bool, anomaly string) {
	switch {
	case err == nil:
		return true, ""
	case errors.Is(err, queue.ErrLeaseNotFound), errors.Is(err, queue.ErrLeaseExpired):
		return false, ""
	}
	return false, err.Error()
}

// settle performs ack/nack/dead/extend for one or several leases and returns
// the outcome per presented lease id.
func (w *World) settle(tr string, kind Kind, leases []string, dur time.Duration, batchForm bool) (map[string]bool, string) {
	out := map[string]bool{}
	switch tr {
	case "direct":
		if batchForm && kind != EvExtend {
			bs := w.h.Store.(queue.LeaseBatchStore)
			var r queue.LeaseBatchResult
			var err error
			switch kind {
			case EvAck:
				r, err = bs.AckBatch(leases)
			case EvNack:
				r, err = bs.NackBatch(leases, dur)
			default:
				r, err = bs.MarkDeadBatch(leases, "lc")
			}
			if err != nil {
				return nil, err.Error()
			}
			return batchOutcome(leases, r.Conflicts), ""
		}
		for _, l := range leases {
			var err error
			switch kind {
			case EvAck:
				err = w.h.Store.Ack(l)
			case EvNack:
				err = w.h.Store.Nack(l, dur)
			case EvDead:
				err = w.h.Store.MarkDead(l, "lc")
			case EvExtend:
				err = w.h.Store.Extend(l, dur)
			}
			ok, an := classify(err)
			if an != "" {
				return nil, an
			}
			out[l] = ok
		}
		return out, ""
	case "http":
		op := map[Kind]string{EvAck: "ack", EvNack: "nack", EvDead: "nack", EvExtend: "extend"}[kind]
		if batchForm && kind != EvExtend {
			m := map[string]any{"lease_ids": leases}
			if kind == EvNack {
				m["delay"] = dur.String()
			}
			if kind == EvDead {
				m["dead"], m["reason"] = true, "lc"
			}
			body, _ := json.Marshal(m)
			st, rb := w.httpDo(op, body)
			if st != 200 && st != 409 {
				return nil, fmt.Sprintf("http batch %s status %d: %s", op, st, rb)
			}
			var resp struct {
				Conflicts []struct {
					LeaseID string `json:"lease_id"`
				} `json:"conflicts"`
			}
			if err := json.Unmarshal(rb, &resp); err != nil {
				return nil, err.Error()
			}
			var cs []queue.LeaseBatchConflict
			for _, c := range resp.Conflicts {
				cs = append(cs, queue.LeaseBatchConflict{LeaseID: c.LeaseID})
			}
			if (st == 409) != (len(cs) > 0) {
				return nil, fmt.Sprintf("http batch %s: status %d with %d conflicts", op, st, len(cs))
			}
			return batchOutcome(dedupe(leases), cs), "" // the API de-duplicates lease_ids
		}
		for _, l := range leases {
			m := map[string]any{"lease_id": l}
			switch kind {
			case EvNack:
				m["delay"] = dur.String()
			case EvDead:
				m["dead"], m["reason"] = true, "lc"
			case EvExtend:
				m["extend_by"] = dur.String()
			}
			body, _ := json.Marshal(m)
			st, rb := w.httpDo(op, body)
			switch st {
			case 204:
				out[l] = true
			case 409:
				out[l] = false
			default:
				return nil, fmt.Sprintf("http %s status %d: %s", op, st, rb)
			}
		}
		return out, ""
	default: // grpc
		ctx := context.Background()
		grpcOK := func(err error) (bool, string) {
			if err == nil {
				return true, ""
			}
			if status.Code(err) == codes.FailedPrecondition {
				return false, ""
			}
			return false, "grpc: " + err.Error()
		}
		if batchForm && kind != EvExtend {
			var conflicts []*workerapipb.LeaseConflict
			var err error
			if kind == EvAck {
				var r *workerapipb.AckResponse
				r, err = w.grpcC.Ack(ctx, &workerapipb.AckRequest{Endpoint: endpoint, LeaseIds: leases})
				if r != nil {
					conflicts = r.Conflicts
				}
			} else {
				var r *workerapipb.NackResponse
				r, err = w.grpcC.Nack(ctx, &workerapipb.NackRequest{Endpoint: endpoint, LeaseIds: leases, Delay: durationpb.New(dur), Dead: kind == EvDead, Reason: "lc"})
				if r != nil {
					conflicts = r.Conflicts
				}
			}
			if err != nil {
				return nil, "grpc batch: " + err.Error()
			}
			var cs []queue.LeaseBatchConflict
			for _, c := range conflicts {
				cs = append(cs, queue.LeaseBatchConflict{LeaseID: c.LeaseId})
			}
			return batchOutcome(dedupe(leases), cs), "" // the API de-duplicates lease_ids
		}
		for _, l := range leases {
			var err error
			switch kind {
			case EvAck:
				_, err = w.grpcC.Ack(ctx, &workerapipb.AckRequest{Endpoint: endpoint, LeaseId: l})
			case EvNack:
				_, err = w.grpcC.Nack(ctx, &workerapipb.NackRequest{Endpoint: endpoint, LeaseId: l, Delay: durationpb.New(dur)})
			case EvDead:
				_, err = w.grpcC.Nack(ctx, &workerapipb.NackRequest{Endpoint: endpoint, LeaseId: l, Dead: true, Reason: "lc"})
			case EvExtend:
				_, err = w.grpcC.Extend(ctx, &workerapipb.ExtendRequest{Endpoint: endpoint, LeaseId: l, ExtendBy: durationpb.New(dur)})
			}
			ok, an := grpcOK(err)
			if an != "" {
				return nil, an
			}
			out[l] = ok
		}
		return out, ""
	}
}

func dedupe(ls []string) []string {
	seen := map[string]bool{}
	var out []string
	for _, l := range ls {
		l = strings.TrimSpace(l)
		if l == "" || seen[l] {
			continue
		}
		seen[l] = true
		out = append(out, l)
	}
	return out
}

// batchOutcome: a lease presented n times with c conflicts reported succeeded iff c < n.
func batchOutcome(leases []string, conflicts []queue.LeaseBatchConflict) map[string]bool {
	occ := map[string]int{}
	for _, l := range leases {
		occ[strings.TrimSpace(l)]++
	}
	conf := map[string]int{}
	for _, c := range conflicts {
		conf[strings.TrimSpace(c.LeaseID)]++
	}
	out := map[string]bool{}
	for l, n := range occ {
		out[l] = conf[l] < n
	}
	return out
}

// ---------------------------------------------------------------------------

var ttls = []time.Duration{50 * time.Millisecond, 200 * time.Millisecond, time.Second, 2 * time.Second}

func (w *World) clientPhase(id int, r *vlib.Rand, held *[]string) {
	nops := r.Range(1, 3)
	for k := 0; k < nops; k++ {
		tr := vlib.Pick(r, w.cfg.Transports)
		now := w.clock.NowNS()
		switch x := r.Intn(100); {
		case x < w.cfg.DequeuePct && !w.noDequeue: // dequeue
			batch := r.Range(1, 5)
			ttl := vlib.Pick(r, ttls)
			call := w.now()
			items, err := w.dequeue(tr, batch, ttl)
			ret := w.now()
			if err != nil {
				w.anomaly("dequeue: " + err.Error())
				continue
			}
			w.learn(items)
			for _, it := range items {
				w.record(Rec{Client: id, In: In{Kind: EvLease, Msg: it.Msg, Lease: it.Lease, Now: now, Transport: tr}, Out: Out{OK: true, Until: it.Until, Attempt: it.Attempt}, Call: call, Ret: ret})
				*held = append(*held, it.Lease)
				if want := now + int64(ttl); it.Until != want {
					w.anomaly(fmt.Sprintf("lease_until of %s is now+%s, requested ttl %s", it.Msg, time.Duration(it.Until-now), ttl))
				}
			}
		case x < 100-w.cfg.OperatorPct: // settle
			kind := vlib.Pick(r, w.cfg.Settle)
			n := 1
			batchForm := r.Intn(100) < w.cfg.BatchPct
			if batchForm {
				n = r.Range(1, 4)
			}
			var ls []string
			for i := 0; i < n; i++ {
				ls = append(ls, w.pickLease(r, held))
			}
			if batchForm && r.Chance(0.25) {
				ls = append(ls, ls[0])
			}
			dur := vlib.Pick(r, []time.Duration{0, time.Millisecond, 100 * time.Millisecond, time.Second})
			if kind == EvExtend {
				dur = vlib.Pick(r, []time.Duration{time.Millisecond, 300 * time.Millisecond, 2 * time.Second})
				batchForm = false
				ls = ls[:1]
			}
			var blanks []string
			var send []string
			for _, l := range ls {
				if strings.TrimSpace(l) == "" {
					blanks = append(blanks, l)
				}
				send = append(send, l)
			}
			if len(blanks) > 0 && !batchForm {
				// a blank single lease id is a 400 / ErrLeaseNotFound: checked directly
				call := w.now()
				out, an := w.settleBlank(tr, kind, send[0], dur)
				_ = call
				if out || an != "" {
					w.anomaly(fmt.Sprintf("blank lease id accepted by %s %s: %s", tr, kind, an))
				}
				continue
			}
			if batchForm {
				// blank entries are dropped by the API normalisation; keep only non-blank for the model
				var nb []string
				for _, l := range send {
					if strings.TrimSpace(l) != "" {
						nb = append(nb, l)
					}
				}
				if len(nb) == 0 {
					continue
				}
				send = nb
			}
			call := w.now()
			res, an := w.settle(tr, kind, send, dur, batchForm)
			ret := w.now()
			if an != "" {
				w.anomaly(an)
				continue
			}
			seen := map[string]bool{}
			for _, l := range send {
				l = strings.TrimSpace(l)
				if seen[l] {
					continue
				}
				seen[l] = true
				w.mu.Lock()
				msg := w.leaseMsg[l]
				w.mu.Unlock()
				if msg == "" {
					if res[l] {
						w.anomaly(fmt.Sprintf("%s of unknown lease %q succeeded via %s (batch=%v send=%q res=%v)", kind, l, tr, batchForm, send, res))
					}
					continue
				}
				w.record(Rec{Client: id, In: In{Kind: kind, Msg: msg, Lease: l, Now: now, Dur: int64(dur), Transport: tr}, Out: Out{OK: res[l]}, Call: call, Ret: ret})
			}
		default: // operator
			if !w.cfg.Operator {
				continue
			}
			msg := vlib.Pick(r, w.msgs)
			if w.cfg.OperatorAimsAtLeased && r.Chance(0.8) {
				w.mu.Lock()
				if n := len(w.leases); n > 0 {
					msg = w.leaseMsg[w.leases[n-1-r.Intn(minI(6, n))]]
				}
				w.mu.Unlock()
			}
			kind := EvCancel
			if r.Bool() {
				kind = EvRequeue
			}
			call := w.now()
			var n int
			var err error
			if kind == EvCancel {
				var resp queue.MessageCancelResponse
				resp, err = w.opStore.CancelMessages(queue.MessageCancelRequest{IDs: []string{msg}})
				n = resp.Canceled
			} else {
				var resp queue.MessageRequeueResponse
				resp, err = w.opStore.RequeueMessages(queue.MessageRequeueRequest{IDs: []string{msg}})
				n = resp.Requeued
			}
			ret := w.now()
			if err != nil {
				w.anomaly(string(kind) + ": " + err.Error())
				continue
			}
			w.record(Rec{Client: id, In: In{Kind: kind, Msg: msg, Now: now, Transport: "direct"}, Out: Out{OK: n == 1}, Call: call, Ret: ret})
		}
		if r.Chance(0.5) {
			runtime.Gosched()
		} else if r.Chance(0.2) {
			time.Sleep(time.Duration(r.Intn(200)) * time.Microsecond)
		}
	}
}

func (w *World) settleBlank(tr string, kind Kind, l string, dur time.Duration) (bool, string) {
	switch tr {
	case "direct":
		res, an := w.settle(tr, kind, []string{l}, dur, false)
		return res[l], an
	case "http":
		m := map[string]any{"lease_id": l}
		if kind == EvExtend {
			m["extend_by"] = dur.String()
		}
		body, _ := json.Marshal(m)
		op := map[Kind]string{EvAck: "ack", EvNack: "nack", EvDead: "nack", EvExtend: "extend"}[kind]
		st, _ := w.httpDo(op, body)
		if st == 400 || st == 409 {
			return false, ""
		}
		return st == 204, fmt.Sprintf("status %d", st)
	default:
		var err error
		ctx := context.Background()
		switch kind {
		case EvAck:
			_, err = w.grpcC.Ack(ctx, &workerapipb.AckRequest{Endpoint: endpoint, LeaseId: l})
		case EvExtend:
			_, err = w.grpcC.Extend(ctx, &workerapipb.ExtendRequest{Endpoint: endpoint, LeaseId: l, ExtendBy: durationpb.New(dur)})
		default:
			_, err = w.grpcC.Nack(ctx, &workerapipb.NackRequest{Endpoint: endpoint, LeaseId: l, Dead: kind == EvDead})
		}
		if err == nil {
			return true, ""
		}
		switch status.Code(err) {
		case codes.InvalidArgument, codes.FailedPrecondition:
			return false, ""
		}
		return false, err.Error()
	}
}

func (w *World) pickLease(r *vlib.Rand, held *[]string) string {
	w.mu.Lock()
	all := w.leases
	w.mu.Unlock()
	stale := r.Chance(w.cfg.StaleBias)
	switch {
	case !stale && len(*held) > 0:
		// freshest own lease
		return (*held)[len(*held)-1-r.Intn(minI(3, len(*held)))]
	case len(all) > 0 && r.Chance(0.85):
		return all[r.Intn(len(all))]
	case r.Chance(0.3):
		return vlib.Pick(r, []string{"", "  "})
	}
	return fmt.Sprintf("lease_%016x", r.U64())
}

func minI(a, b int) int {
	if a < b {
		return a
	}
	return b
}

// Run executes one history and checks it.
func Run(c *vlib.Ctx, r *vlib.Rand, cfg Cfg) {
	w, err := NewWorld(c, cfg)
	if err != nil {
		c.Inconclusive("leasecheck world: " + err.Error())
		return
	}
	defer w.Close()

	// populate
	for i := 0; i < cfg.Messages; i++ {
		id := fmt.Sprintf("k%02d", i)
		nr := w.clock.Now()
		if r.Chance(0.2) {
			nr = nr.Add(time.Duration(r.Range(1, 1500)) * time.Millisecond)
		}
		call := w.now()
		err := w.h.Store.Enqueue(queue.Envelope{ID: id, Route: route, Target: "pull", Payload: []byte(id), NextRunAt: nr})
		ret := w.now()
		if err != nil {
			c.Inconclusive("populate: " + err.Error())
			return
		}
		w.msgs = append(w.msgs, id)
		w.record(Rec{In: In{Kind: EvEnq, Msg: id, Now: w.clock.NowNS(), NextRun: nr.UnixNano()}, Out: Out{OK: true}, Call: call, Ret: ret})
	}
	held := make([][]string, cfg.Clients)
	rands := make([]*vlib.Rand, cfg.Clients)
	for i := range rands {
		rands[i] = vlib.NewRand(r.U64())
	}
	for ph := 0; ph < cfg.Phases; ph++ {
		// A phase without dequeues: leases that expired with the last clock step are
		// presented before any dequeue has swept them.
		w.noDequeue = ph > 0 && r.Chance(0.3)
		var wg sync.WaitGroup
		start := make(chan struct{})
		for i := 0; i < cfg.Clients; i++ {
			wg.Add(1)
			go func(i int) {
				defer wg.Done()
				<-start
				w.clientPhase(i+1, rands[i], &held[i])
			}(i)
		}
		close(start)
		wg.Wait()
		w.readAll()
		w.advance(r)
	}
	w.check(r)
}

// readAll lists every message at a quiescent point.
func (w *World) readAll() {
	now := w.clock.NowNS()
	call := w.now()
	items, err := vlib.ListAll(w.h.Store)
	ret := w.now()
	if err != nil {
		w.anomaly("listing: " + err.Error())
		return
	}
	by := map[string]queue.Envelope{}
	for _, it := range items {
		by[it.ID] = it
	}
	for _, m := range w.msgs {
		it, ok := by[m]
		o := Out{Present: ok}
		if ok {
			o.State, o.Attempt, o.NextRun = string(it.State), it.Attempt, it.NextRunAt.UnixNano()
		}
		w.record(Rec{In: In{Kind: EvRead, Msg: m, Now: now, Transport: "listing"}, Out: o, Call: call, Ret: ret})
	}
}

// advance moves the frozen clock to the next interesting boundary.
func (w *World) advance(r *vlib.Rand) {
	now := w.clock.NowNS()
	var bounds []int64
	if snap, err := w.h.Snap(); err == nil {
		for _, row := range snap {
			if row.State == queue.StateLeased && row.LeaseUntil > now {
				bounds = append(bounds, row.LeaseUntil)
			}
			if row.State == queue.StateQueued && row.NextRunAt > now {
				bounds = append(bounds, row.NextRunAt)
			}
		}
	}
	if len(bounds) > 0 && r.Chance(0.6) {
		sort.Slice(bounds, func(i, j int) bool { return bounds[i] < bounds[j] })
		b := bounds[r.Intn(minI(3, len(bounds)))] + vlib.Pick(r, []int64{-1, 0, 1, int64(10 * time.Millisecond)})
		if b > now {
			w.clock.Advance(time.Duration(b - now))
			return
		}
	}
	w.clock.Advance(vlib.Pick(r, []time.Duration{0, time.Nanosecond, time.Millisecond, 10 * time.Millisecond, 60 * time.Millisecond, 250 * time.Millisecond, time.Second, 3 * time.Second, 3 * time.Minute}))
}

func (w *World) check(r *vlib.Rand) {
	c := w.c
	cfg := w.cfg
	w.mu.Lock()
	recs := append([]Rec(nil), w.recs...)
	anomalies := append([]string(nil), w.anomalies...)
	leaseSet := w.leaseSet
	w.mu.Unlock()

	for _, a := range anomalies {
		cls := "transport_anomaly"
		if strings.Contains(a, "succeeded") || strings.Contains(a, "accepted") {
			cls = "unknown_or_blank_lease_accepted"
		}
		c.Violation(vlib.Signature{"class": cls, "backend": cfg.Backend}, a, map[string]any{"label": cfg.Label})
	}
	for l, n := range leaseSet {
		if n > 1 {
			c.Violation(vlib.Signature{"class": "lease_id_reused", "backend": cfg.Backend}, fmt.Sprintf("lease id %s was issued %d times", l, n), map[string]any{"label": cfg.Label})
		}
	}
	// idempotent duplicate answers (documented): only through the Pull/Worker API
	type key struct{ lease, class string }
	cls := func(k Kind) string {
		if k == EvAck {
			return "ack"
		}
		return "nack"
	}
	succ := map[key][]int{}
	for i, rc := range recs {
		if (rc.In.Kind == EvAck || rc.In.Kind == EvNack || rc.In.Kind == EvDead) && rc.Out.OK && rc.In.Transport != "direct" {
			k := key{rc.In.Lease, cls(rc.In.Kind)}
			succ[k] = append(succ[k], i)
		}
	}
	for i := range recs {
		rc := &recs[i]
		if rc.In.Transport == "direct" || !(rc.In.Kind == EvAck || rc.In.Kind == EvNack || rc.In.Kind == EvDead) {
			continue
		}
		for _, j := range succ[key{rc.In.Lease, cls(rc.In.Kind)}] {
			if j != i && recs[j].Call < rc.Ret {
				rc.In.DupOK = true
				break
			}
		}
	}
	byMsg := map[string][]Rec{}
	for _, rc := range recs {
		byMsg[rc.In.Msg] = append(byMsg[rc.In.Msg], rc)
		c.Count("events_"+string(rc.In.Kind), 1)
		if rc.In.Kind != EvRead && rc.In.Kind != EvEnq {
			c.Distinct("nontrivial", fmt.Sprintf("%s:%s:%s:ok=%v:dup=%v", cfg.Backend, rc.In.Transport, rc.In.Kind, rc.Out.OK, rc.In.DupOK))
		}
	}
	c.Count("evaluations", int64(len(recs)))
	c.Count("histories", 1)
	model := ModelFor(cfg.Mode)
	msgs := make([]string, 0, len(byMsg))
	for m := range byMsg {
		msgs = append(msgs, m)
	}
	sort.Strings(msgs)
	for _, m := range msgs {
		rs := byMsg[m]
		ops := make([]porcupine.Operation, 0, len(rs))
		order := []string{}
		contended := 0
		for _, rc := range rs {
			ops = append(ops, porcupine.Operation{ClientId: rc.Client, Input: rc.In, Output: rc.Out, Call: rc.Call, Return: rc.Ret})
			if rc.In.Kind != EvRead {
				order = append(order, string(rc.In.Kind)[:2]+map[bool]string{true: "+", false: "-"}[rc.Out.OK])
			}
		}
		// contention: lease events of this message overlapping with another op of the same message
		for i := range rs {
			for j := i + 1; j < len(rs); j++ {
				if rs[i].In.Kind == EvRead || rs[j].In.Kind == EvRead {
					continue
				}
				if rs[i].Call <= rs[j].Ret && rs[j].Call <= rs[i].Ret {
					contended++
				}
			}
		}
		c.Count("overlapping_op_pairs", int64(contended))
		c.Distinct("op_orders", strings.Join(order, ""))
		res, info := porcupine.CheckOperationsVerbose(model, ops, 150*time.Second)
		c.Count("partitions_checked", 1)
		switch res {
		case porcupine.Ok:
		case porcupine.Unknown:
			c.Count("checker_timeouts", 1)
			c.Inconclusive("porcupine timed out on " + cfg.Label + "/" + m)
		case porcupine.Illegal:
			_ = info
			sort.Slice(rs, func(i, j int) bool { return rs[i].Call < rs[j].Call })
			var hist []string
			for _, rc := range rs {
				hist = append(hist, fmt.Sprintf("[%d,%d] c%d now=%d %s", rc.Call, rc.Ret, rc.Client, rc.In.Now-vlib.Epoch.UnixNano(), DescribeOp(rc.In, rc.Out)))
			}
			c.Violation(vlib.Signature{"class": "history_not_explained", "backend": cfg.Backend, "mode": fmt.Sprint(cfg.Mode)},
				fmt.Sprintf("the history of message %s is not linearizable against the lease-register model (%s)", m, cfg.Label),
				map[string]any{"label": cfg.Label, "message": m, "history": hist})
		}
	}
	if cfg.Label != "" && c.Counter("histories") <= 3 {
		var sample []string
		for i, rc := range recs {
			if i > 14 {
				break
			}
			sample = append(sample, fmt.Sprintf("[%d,%d] c%d %s", rc.Call, rc.Ret, rc.Client, DescribeOp(rc.In, rc.Out)))
		}
		c.Sample(map[string]any{"label": cfg.Label, "events": len(recs), "first_events": sample})
	}
}
