// Package l3 runs the real hookaido binary (built with -tags verif) as a child
// process on loopback ports: start, health wait, SIGKILL, restart, HTTP helpers.
package l3

import (
	"bufio"
	"bytes"
	"encoding/json"
	"fmt"
	"io"
	"net"
	"net/http"
	"os"
	"os/exec"
	"path/filepath"
	"strings"
	"sync"
	"syscall"
	"time"
)

// Bin returns the instrumented product binary built by ./check.
func Bin() string {
	if v := strings.TrimSpace(os.Getenv("VERIF_BIN")); v != "" {
		return v
	}
	return "/verif/.build/hookaido-verif"
}

type Ports struct{ Ingress, Pull, Admin int }

var portMu sync.Mutex

// below the kernel's ephemeral range (32768+), which client connections draw their source ports from
var nextPort = 10000 + (os.Getpid()%300)*60

// FreePorts hands out three loopback ports that are free right now.
func FreePorts() (Ports, error) {
	portMu.Lock()
	defer portMu.Unlock()
	var got []int
	for tries := 0; len(got) < 3 && tries < 500; tries++ {
		p := nextPort
		nextPort++
		if nextPort > 30000 {
			nextPort = 10000
		}
		ln, err := net.Listen("tcp", fmt.Sprintf("127.0.0.1:%d", p))
		if err != nil {
			continue
		}
		_ = ln.Close()
		got = append(got, p)
	}
	if len(got) < 3 {
		return Ports{}, fmt.Errorf("no free ports")
	}
	return Ports{got[0], got[1], got[2]}, nil
}

type Proc struct {
	Template string
	Dir      string
	Cfg      string
	DB       string
	PIDFile  string
	Ports    Ports
	Cmd      *exec.Cmd
	LogPath  string
	done     chan struct{}
	exitErr  error
	Client   *http.Client
}

type StartOpts struct {
	Env    []string
	Args   []string // extra args after `run`
	Strace []string // when set: strace arguments placed before the binary
}

// Start launches `hookaido run` for the config file already written at p.Cfg.
func (p *Proc) Start(o StartOpts) error {
	args := []string{"run", "--config", p.Cfg, "--db", p.DB, "--log-level", "warn"}
	if p.PIDFile != "" {
		args = append(args, "--pid-file", p.PIDFile)
	}
	args = append(args, o.Args...)
	var cmd *exec.Cmd
	if len(o.Strace) > 0 {
		full := append(append([]string{}, o.Strace...), Bin())
		full = append(full, args...)
		cmd = exec.Command("strace", full...)
	} else {
		cmd = exec.Command(Bin(), args...)
	}
	cmd.Env = append(os.Environ(), o.Env...)
	cmd.Dir = p.Dir
	lf, err := os.OpenFile(p.LogPath, os.O_CREATE|os.O_WRONLY|os.O_APPEND, 0o644)
	if err != nil {
		return err
	}
	cmd.Stdout, cmd.Stderr = lf, lf
	cmd.SysProcAttr = &syscall.SysProcAttr{Setpgid: true}
	if err := cmd.Start(); err != nil {
		_ = lf.Close()
		return err
	}
	_ = lf.Close()
	p.Cmd = cmd
	p.done = make(chan struct{})
	go func(c *exec.Cmd, done chan struct{}) {
		p.exitErr = c.Wait()
		close(done)
	}(cmd, p.done)
	return nil
}

// New prepares a process directory with the given config text; %INGRESS%,
// %PULL%, %ADMIN% in the text are replaced by listen addresses.
func New(dir string, cfgText string) (*Proc, error) {
	if err := os.MkdirAll(dir, 0o755); err != nil {
		return nil, err
	}
	ports, err := FreePorts()
	if err != nil {
		return nil, err
	}
	p := &Proc{Dir: dir, Cfg: filepath.Join(dir, "Hookaidofile"), DB: filepath.Join(dir, "hookaido.db"), PIDFile: filepath.Join(dir, "hookaido.pid"), Ports: ports, LogPath: filepath.Join(dir, "hookaido.log"),
		Client: &http.Client{Timeout: 10 * time.Second, Transport: &http.Transport{MaxIdleConnsPerHost: 16}}}
	p.Template = cfgText
	if err := p.WriteConfig(cfgText); err != nil {
		return nil, err
	}
	return p, nil
}

// StartHealthy starts the process and waits for health; when a listener cannot
// bind (port taken meanwhile) it picks new ports, rewrites the config from the
// template and tries again. The config file must still be the template's.
func (p *Proc) StartHealthy(o StartOpts, d time.Duration) error {
	var err error
	for try := 0; try < 4; try++ {
		if err = p.Start(o); err != nil {
			return err
		}
		if err = p.WaitHealthy(d); err == nil {
			return nil
		}
		if !strings.Contains(err.Error(), "address already in use") {
			return err
		}
		p.Kill()
		ports, perr := FreePorts()
		if perr != nil {
			return perr
		}
		cur, _ := os.ReadFile(p.Cfg)
		if string(cur) != p.Expand(p.Template) {
			return err // the file was rewritten by the system under test: do not touch it
		}
		p.Ports = ports
		if werr := p.WriteConfig(p.Template); werr != nil {
			return werr
		}
	}
	return err
}

func (p *Proc) Expand(cfgText string) string {
	r := strings.NewReplacer("%INGRESS%", fmt.Sprintf("127.0.0.1:%d", p.Ports.Ingress), "%PULL%", fmt.Sprintf("127.0.0.1:%d", p.Ports.Pull), "%ADMIN%", fmt.Sprintf("127.0.0.1:%d", p.Ports.Admin))
	return r.Replace(cfgText)
}

func (p *Proc) WriteConfig(cfgText string) error {
	return os.WriteFile(p.Cfg, []byte(p.Expand(cfgText)), 0o644)
}

// Exited reports whether the process has ended.
func (p *Proc) Exited() bool {
	select {
	case <-p.done:
		return true
	default:
		return false
	}
}

// WaitHealthy polls GET /healthz on the admin listener.
func (p *Proc) WaitHealthy(d time.Duration) error {
	deadline := time.Now().Add(d)
	for time.Now().Before(deadline) {
		if p.Exited() {
			return fmt.Errorf("process exited during start: %v\n%s", p.exitErr, p.LogTail(30))
		}
		resp, err := p.Client.Get(fmt.Sprintf("http://127.0.0.1:%d/healthz", p.Ports.Admin))
		if err == nil {
			_, _ = io.Copy(io.Discard, resp.Body)
			resp.Body.Close()
			if resp.StatusCode == 200 {
				return nil
			}
		}
		time.Sleep(10 * time.Millisecond)
	}
	return fmt.Errorf("not healthy within %s\n%s", d, p.LogTail(30))
}

func (p *Proc) LogTail(n int) string {
	b, _ := os.ReadFile(p.LogPath)
	lines := strings.Split(strings.TrimSpace(string(b)), "\n")
	if len(lines) > n {
		lines = lines[len(lines)-n:]
	}
	return strings.Join(lines, "\n")
}

// Kill sends SIGKILL to the whole process group and waits for the exit.
func (p *Proc) Kill() {
	if p.Cmd == nil || p.Cmd.Process == nil {
		return
	}
	_ = syscall.Kill(-p.Cmd.Process.Pid, syscall.SIGKILL)
	select {
	case <-p.done:
	case <-time.After(10 * time.Second):
	}
}

func (p *Proc) Signal(sig syscall.Signal) error {
	if p.Cmd == nil || p.Cmd.Process == nil {
		return fmt.Errorf("not running")
	}
	return syscall.Kill(p.Cmd.Process.Pid, sig)
}

// WaitExit waits up to d for the process to end.
func (p *Proc) WaitExit(d time.Duration) bool {
	select {
	case <-p.done:
		return true
	case <-time.After(d):
		return false
	}
}

func (p *Proc) Stop() {
	if p.Cmd == nil || p.Exited() {
		return
	}
	_ = p.Signal(syscall.SIGTERM)
	if !p.WaitExit(8 * time.Second) {
		p.Kill()
	}
}

// ---- HTTP helpers -----------------------------------------------------------

type Resp struct {
	Status  int
	Body    []byte
	Err     error // no status line was received
	BodyErr error // status line received, body incomplete
}

func (p *Proc) do(port int, method, path string, body []byte, hdr map[string]string) Resp {
	req, err := http.NewRequest(method, fmt.Sprintf("http://127.0.0.1:%d%s", port, path), bytes.NewReader(body))
	if err != nil {
		return Resp{Err: err}
	}
	for k, v := range hdr {
		req.Header.Set(k, v)
	}
	resp, err := p.Client.Do(req)
	if err != nil {
		return Resp{Err: err}
	}
	defer resp.Body.Close()
	// The status line is the server's answer: a client that saw "202" has been
	// acknowledged even if the connection dies while the body is read.
	b, berr := io.ReadAll(resp.Body)
	return Resp{Status: resp.StatusCode, Body: b, BodyErr: berr}
}

func (p *Proc) Ingress(path string, body []byte, hdr map[string]string) Resp {
	return p.do(p.Ports.Ingress, "POST", path, body, hdr)
}

// IngressCutOff announces len(body) bytes and sends only the first sendN of
// them over a raw connection, then ends its sending side (half-close, waiting
// for an answer) or drops the connection outright. The upload the sender meant
// to make never completed; Status is whatever the server answered, if anything.
func (p *Proc) IngressCutOff(path string, body []byte, sendN int, hdr map[string]string, halfClose bool) Resp {
	conn, err := net.DialTimeout("tcp", fmt.Sprintf("127.0.0.1:%d", p.Ports.Ingress), 2*time.Second)
	if err != nil {
		return Resp{Err: err}
	}
	defer conn.Close()
	var b bytes.Buffer
	fmt.Fprintf(&b, "POST %s HTTP/1.1\r\nHost: 127.0.0.1\r\nContent-Type: application/octet-stream\r\nContent-Length: %d\r\n", path, len(body))
	for k, v := range hdr {
		fmt.Fprintf(&b, "%s: %s\r\n", k, v)
	}
	b.WriteString("\r\n")
	if sendN > len(body) {
		sendN = len(body)
	}
	b.Write(body[:sendN])
	if _, err := conn.Write(b.Bytes()); err != nil {
		return Resp{Err: err}
	}
	if !halfClose {
		return Resp{Err: fmt.Errorf("connection dropped by the sender after %d of %d body bytes", sendN, len(body))}
	}
	if tc, ok := conn.(*net.TCPConn); ok {
		_ = tc.CloseWrite()
	}
	_ = conn.SetReadDeadline(time.Now().Add(3 * time.Second))
	resp, err := http.ReadResponse(bufio.NewReader(conn), nil)
	if err != nil {
		return Resp{Err: err}
	}
	defer resp.Body.Close()
	rb, berr := io.ReadAll(resp.Body)
	return Resp{Status: resp.StatusCode, Body: rb, BodyErr: berr}
}

func (p *Proc) Pull(path string, v any, token string) Resp {
	b, _ := json.Marshal(v)
	return p.do(p.Ports.Pull, "POST", path, b, map[string]string{"Authorization": "Bearer " + token, "Content-Type": "application/json"})
}

func (p *Proc) Admin(method, path string, v any) Resp {
	var b []byte
	if v != nil {
		b, _ = json.Marshal(v)
	}
	return p.do(p.Ports.Admin, method, path, b, map[string]string{"Content-Type": "application/json", "X-Hookaido-Audit-Reason": "verif"})
}

type Message struct {
	ID         string            `json:"id"`
	Route      string            `json:"route"`
	Target     string            `json:"target"`
	State      string            `json:"state"`
	Attempt    int               `json:"attempt"`
	PayloadB64 string            `json:"payload_b64"`
	Headers    map[string]string `json:"headers"`
	DeadReason string            `json:"dead_reason"`
	NextRunAt  time.Time         `json:"next_run_at"`
}

// ListAll reads every message of every state through the Admin API.
func (p *Proc) ListAll() ([]Message, error) {
	var out []Message
	// one query per page over all states: a per-state scan would miss a message
	// that changes state between two queries (the dispatcher is running)
	before := ""
	for page := 0; page < 200; page++ {
		path := "/messages?limit=1000&include_payload=true&include_headers=true"
		if before != "" {
			path += "&before=" + before
		}
		r := p.Admin("GET", path, nil)
		if r.Err != nil || r.Status != 200 {
			return nil, fmt.Errorf("admin listing: status %d err %v %s", r.Status, r.Err, string(r.Body))
		}
		var resp struct {
			Items []struct {
				Message
				ReceivedAt time.Time `json:"received_at"`
			} `json:"items"`
		}
		if err := json.Unmarshal(r.Body, &resp); err != nil {
			return nil, err
		}
		for _, it := range resp.Items {
			out = append(out, it.Message)
		}
		if len(resp.Items) < 1000 {
			break
		}
		before = resp.Items[len(resp.Items)-1].ReceivedAt.Add(time.Nanosecond).Format(time.RFC3339Nano)
	}
	// de-duplicate by id (cursor overlap)
	seen := map[string]bool{}
	var uniq []Message
	for _, m := range out {
		if seen[m.ID] {
			continue
		}
		seen[m.ID] = true
		uniq = append(uniq, m)
	}
	return uniq, nil
}
