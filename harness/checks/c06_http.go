package checks

import (
	"bufio"
	"fmt"
	"io"
	"log"
	"net"
	"net/http"
	"net/http/httptest"
	"strconv"
	"strings"
	"sync"
	"time"

	"github.com/nuetzliches/hookaido/internal/dispatcher"
	"github.com/nuetzliches/hookaido/verifharness/pushcheck"
	"github.com/nuetzliches/hookaido/verifharness/vlib"
)

// rawServer answers every connection with a fixed status line (used for 101,
// which net/http servers cannot send as a final answer).
func rawServer(status int) (string, func()) {
	ln, err := net.Listen("tcp", "127.0.0.1:0")
	if err != nil {
		panic(err)
	}
	go func() {
		for {
			conn, err := ln.Accept()
			if err != nil {
				return
			}
			go func() {
				defer conn.Close()
				br := bufio.NewReader(conn)
				req, err := http.ReadRequest(br)
				if err != nil {
					return
				}
				_, _ = bufio.NewReader(req.Body).Discard(1 << 20)
				fmt.Fprintf(conn, "HTTP/1.1 %d X\r\nContent-Length: 0\r\nConnection: close\r\n\r\n", status)
			}()
		}
	}()
	return "http://" + ln.Addr().String() + "/raw", func() { _ = ln.Close() }
}

// c06HTTP: the real HTTPDeliverer against local servers, through the dispatcher.
func c06HTTP(c *vlib.Ctx) {
	// the path of the delivery URL encodes what the server answers: /s/<code>, /slow
	srv := httptest.NewServer(http.HandlerFunc(func(w http.ResponseWriter, r *http.Request) {
		switch {
		case strings.HasPrefix(r.URL.Path, "/s/"):
			n, _ := strconv.Atoi(strings.TrimPrefix(r.URL.Path, "/s/"))
			if n >= 300 && n < 400 {
				w.Header().Set("Location", "/s/200")
			}
			w.WriteHeader(n)
		case strings.HasPrefix(r.URL.Path, "/trunc/"):
			// complete status line and headers, then a body that ends before the announced length
			n, _ := strconv.Atoi(strings.TrimPrefix(r.URL.Path, "/trunc/"))
			if hj, ok := w.(http.Hijacker); ok {
				conn, buf, err := hj.Hijack()
				if err == nil {
					fmt.Fprintf(buf, "HTTP/1.1 %d X\r\nContent-Length: 64\r\nContent-Type: text/plain\r\n\r\nshort", n)
					_ = buf.Flush()
					_ = conn.Close()
				}
			}
		case strings.HasPrefix(r.URL.Path, "/badchunk/"):
			n, _ := strconv.Atoi(strings.TrimPrefix(r.URL.Path, "/badchunk/"))
			if hj, ok := w.(http.Hijacker); ok {
				conn, buf, err := hj.Hijack()
				if err == nil {
					fmt.Fprintf(buf, "HTTP/1.1 %d X\r\nTransfer-Encoding: chunked\r\n\r\n5\r\nhello\r\nZZ\r\n", n)
					_ = buf.Flush()
					_ = conn.Close()
				}
			}
		case r.URL.Path == "/slow":
			select {
			case <-r.Context().Done():
			case <-time.After(2 * time.Second):
			}
			w.WriteHeader(200)
		default:
			w.WriteHeader(200)
		}
	}))
	defer srv.Close()
	raw101, close101 := rawServer(101)
	defer close101()
	deadLn, _ := net.Listen("tcp", "127.0.0.1:0")
	refused := "http://" + deadLn.Addr().String() + "/x"
	_ = deadLn.Close()

	type tgt struct {
		url  string
		want pushcheck.Behaviour
	}
	var tgts []tgt
	for _, code := range []int{200, 201, 204, 301, 302, 307, 308, 304, 400, 404, 408, 410, 429, 500, 502, 503} {
		tgts = append(tgts, tgt{fmt.Sprintf("%s/s/%d", srv.URL, code), pushcheck.Behaviour{Status: code}})
	}
	// the status decides the outcome even when the response body cannot be read to its end
	for _, code := range []int{200, 202, 404, 500} {
		tgts = append(tgts, tgt{fmt.Sprintf("%s/trunc/%d", srv.URL, code), pushcheck.Behaviour{Status: code}}, tgt{fmt.Sprintf("%s/badchunk/%d", srv.URL, code), pushcheck.Behaviour{Status: code}})
	}
	tgts = append(tgts, tgt{srv.URL + "/slow", pushcheck.Behaviour{Err: "timeout"}}, tgt{raw101, pushcheck.Behaviour{Status: 101}}, tgt{refused, pushcheck.Behaviour{Err: "net"}},
		tgt{"ftp://127.0.0.1/x", pushcheck.Behaviour{Err: "policy"}})
	for _, be := range []string{"memory", "sqlite"} {
		var routes []dispatcher.RouteConfig
		var msgs []pushcheck.Message
		want := map[string]pushcheck.Behaviour{}
		for i, t := range tgts {
			route := fmt.Sprintf("/h%d", i)
			routes = append(routes, dispatcher.RouteConfig{Route: route, Concurrency: 1, Targets: []dispatcher.TargetConfig{{URL: t.url, Timeout: 150 * time.Millisecond,
				Retry: dispatcher.RetryConfig{Type: "exponential", Max: 2, Base: time.Second, Cap: 2 * time.Second, Jitter: 0.5}}}})
			msgs = append(msgs, pushcheck.Message{ID: fmt.Sprintf("h%02d", i), Route: route, Target: t.url})
			want[t.url] = t.want
		}
		real := dispatcher.NewHTTPDeliverer(&http.Client{}, dispatcher.EgressPolicy{})
		pushcheck.Run(c, pushcheck.Scenario{Label: "C06/http/" + be, Backend: be, Routes: routes, Messages: msgs, Real: real,
			Script: func(_, target string, _ int) pushcheck.Behaviour { return want[target] }})
	}
}

// c06Wire: what the target sees on the wire versus what the dispatcher did.
// Every request the target receives must belong to one delivery attempt of the
// dispatcher: the target is contacted at most retry.max+1 times and every
// contact has an attempt record. Target: answers 200 to "warm" messages (which
// leaves a pooled keep-alive connection) and, for "drop" messages, reads the
// request and closes the connection without a response byte. Messages carry no
// special header, Idempotency-Key, or X-Idempotency-Key (sender-supplied
// headers are stored at ingress and sent on delivery).
func c06Wire(c *vlib.Ctx) {
	type variant struct{ name, header string }
	variants := []variant{{"no_header", ""}, {"idempotency_key", "Idempotency-Key"}, {"x_idempotency_key", "X-Idempotency-Key"}}
	for _, be := range []string{"memory", "sqlite"} {
		for _, v := range variants {
			var mu sync.Mutex
			hits := map[string]int{}
			srv := httptest.NewServer(http.HandlerFunc(func(w http.ResponseWriter, r *http.Request) {
				b, _ := io.ReadAll(r.Body)
				id := string(b)
				mu.Lock()
				hits[id]++
				mu.Unlock()
				if strings.HasPrefix(id, "drop") {
					panic(http.ErrAbortHandler) // connection closed, no response
				}
				w.WriteHeader(200)
			}))
			srv.Config.ErrorLog = log.New(io.Discard, "", 0)
			url := srv.URL + "/wire"
			routes := []dispatcher.RouteConfig{{Route: "/wire", Concurrency: 1, Targets: []dispatcher.TargetConfig{{URL: url, Timeout: 2 * time.Second,
				Retry: dispatcher.RetryConfig{Type: "exponential", Max: 2, Base: time.Second, Cap: 2 * time.Second}}}}}
			var hdr map[string]string
			if v.header != "" {
				hdr = map[string]string{v.header: "key-1"}
			}
			// warm and drop messages alternate, so that a drop message finds an idle pooled connection
			var msgs []pushcheck.Message
			for i := 0; i < 4; i++ {
				msgs = append(msgs, pushcheck.Message{ID: fmt.Sprintf("warm%d", i), Route: "/wire", Target: url, Headers: hdr},
					pushcheck.Message{ID: fmt.Sprintf("drop%d", i), Route: "/wire", Target: url, Headers: hdr})
			}
			real := dispatcher.NewHTTPDeliverer(&http.Client{}, dispatcher.EgressPolicy{})
			pushcheck.Run(c, pushcheck.Scenario{Label: "C06/wire/" + be + "/" + v.name, Backend: be, Routes: routes, Messages: msgs, Real: real,
				Script: func(msg, _ string, _ int) pushcheck.Behaviour {
					if strings.HasPrefix(msg, "drop") {
						return pushcheck.Behaviour{Err: "net"}
					}
					return pushcheck.Behaviour{Status: 200}
				},
				AfterRun: func(evs []pushcheck.Event) {
					delivers := map[string]int{}
					for _, e := range evs {
						if e.Kind == "deliver" {
							delivers[e.Msg]++
						}
					}
					mu.Lock()
					defer mu.Unlock()
					for _, m := range msgs {
						c.Count("evaluations", 1)
						c.Count("wire_messages_compared", 1)
						c.Distinct("nontrivial", fmt.Sprintf("wire:%s:%s:%s:hits_vs_attempts=%s", be, v.name, m.ID[:4], cmpClass(hits[m.ID], delivers[m.ID])))
						if hits[m.ID] != delivers[m.ID] {
							c.Violation(vlib.Signature{"class": "hidden_resend", "message_header": v.name},
								fmt.Sprintf("the target received message %s %d times, the dispatcher made %d delivery attempts (retry.max+1 = 3): %d request(s) were re-sent below the dispatcher (no attempt record, no backoff)", m.ID, hits[m.ID], delivers[m.ID], hits[m.ID]-delivers[m.ID]),
								map[string]any{"backend": be, "message_headers": hdr, "target_hits": hits[m.ID], "delivery_attempts": delivers[m.ID]})
						}
					}
				}})
			srv.Close()
		}
	}
}
