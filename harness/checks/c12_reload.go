package checks

import (
	"fmt"
	"strings"

	"github.com/nuetzliches/hookaido/verifharness/l2"
	"github.com/nuetzliches/hookaido/verifharness/vlib"
)

// c12LimitsReload: the queue store gets max_depth and drop_policy once, at
// start-up. The file's queue_limits change (policy flipped, depth raised,
// lowered, introduced, removed, both) and the process reloads. Whatever it
// reports as the configuration in force, admission must follow THAT
// configuration: ten requests into the empty queue must be answered and leave
// the queue exactly as after a fresh start of the file reported as running.
func c12LimitsReload(c *vlib.Ctx) {
	dir := c.Scratch()
	limits := func(depth int, policy string) string {
		if depth < 0 {
			return ""
		}
		return fmt.Sprintf("queue_limits { max_depth %d\n drop_policy %s }\n", depth, policy)
	}
	mk := func(backend, lim, extra string) string {
		return "ingress { listen 127.0.0.1:0 }\npull_api { listen 127.0.0.2:0\n auth token raw:tok }\nadmin_api { listen 127.0.0.3:0 }\n" + lim +
			"/in { queue { backend " + backend + " }\n pull { path /pull/in } }\n" + extra
	}
	edits := []struct {
		name     string
		from, to string
	}{
		{"policy_drop_oldest_to_reject", limits(3, "drop_oldest"), limits(3, "reject")},
		{"policy_reject_to_drop_oldest", limits(3, "reject"), limits(3, "drop_oldest")},
		{"depth_raised", limits(3, "reject"), limits(6, "reject")},
		{"depth_lowered", limits(6, "drop_oldest"), limits(2, "drop_oldest")},
		{"depth_and_policy", limits(3, "reject"), limits(5, "drop_oldest")},
		{"limit_introduced", limits(-1, ""), limits(3, "reject")},
		{"limit_removed", limits(3, "reject"), limits(-1, "")},
		{"policy_only_at_depth_1", limits(1, "reject"), limits(1, "drop_oldest")},
		{"unrelated_route_added", limits(3, "reject"), limits(3, "reject")},
	}
	fingerprint := func(a *l2.App) string {
		var st []string
		for i := 0; i < 10; i++ {
			req, _ := l2.NewRequest("POST", "/in", []byte(fmt.Sprintf("probe-%d", i)), "")
			st = append(st, fmt.Sprint(l2.Do(a.Ingress, req).Status))
		}
		items, _ := vlib.ListAll(a.Store)
		var kept []string
		for _, it := range items {
			kept = append(kept, strings.TrimPrefix(string(it.Payload), "probe-"))
		}
		return "statuses " + strings.Join(st, ",") + "; kept " + strings.Join(kept, ",")
	}
	for _, be := range []string{"memory", "sqlite"} {
		for _, e := range edits {
			extra := ""
			if e.name == "unrelated_route_added" {
				extra = "/extra { queue { backend " + be + " }\n pull { path /pull/extra } }\n"
			}
			oldText, newText := mk(be, e.from, ""), mk(be, e.to, extra)
			a, err := l2.Start(dir, oldText, nil, nil)
			if err != nil {
				c.Inconclusive("C12 limits reload (" + e.name + ") did not start: " + err.Error())
				continue
			}
			_ = a.WriteConfig(newText)
			ok := a.Reload()
			after := fingerprint(a)
			a.Close()
			running := oldText
			if ok {
				running = newText
			}
			ref, err := l2.Start(dir, running, nil, nil)
			if err != nil {
				c.Violation(vlib.Signature{"class": "invalid_reload_applied", "edit": "queue_limits:" + e.name}, "the file reported as running does not start: "+err.Error(), map[string]any{"file": running})
				continue
			}
			want := fingerprint(ref)
			ref.Close()
			c.Count("evaluations", 1)
			c.Count("limits_reload_trials", 1)
			c.Distinct("nontrivial", fmt.Sprintf("limits_reload:%s:%s:applied=%v", be, e.name, ok))
			wit := map[string]any{"backend": be, "edit": e.name, "limits_before": e.from, "limits_after": e.to, "reload_reported_ok": ok, "admission_after_reload": after, "admission_after_fresh_start_of_running_file": want}
			if c.Counter("limits_reload_trials") <= 2 {
				c.Sample(wit)
			}
			if after != want {
				c.Violation(vlib.Signature{"class": "admission_not_that_of_the_running_configuration", "backend": be, "edit": e.name, "applied": fmt.Sprint(ok)},
					fmt.Sprintf("%s, queue_limits edit %s, reload reported ok=%v: ten requests into the empty queue give [%s]; a fresh start of the configuration reported as running gives [%s]", be, e.name, ok, after, want), wit)
			}
		}
	}
}
