package storecheck

import (
	"fmt"
	"sort"
	"strings"
	"time"

	"github.com/nuetzliches/hookaido/internal/queue"
	"github.com/nuetzliches/hookaido/verifharness/vlib"
)

// Obs is one refuting observation made by a monitor.
type Obs struct {
	Prop string         // property the observation refutes
	Sig  vlib.Signature // structured signature (dedup / known findings)
	What string
	Wit  map[string]any
}

func obs(prop, class, backend string, op Op, what string, extra map[string]string) Obs {
	sig := vlib.Signature{"class": class, "backend": backend, "op": string(op.Kind)}
	for k, v := range extra {
		sig[k] = v
	}
	return Obs{Prop: prop, Sig: sig, What: what}
}

// ---------------------------------------------------------------------------
// Prune eligibility (background transition that is legal at every step).

func deadOrder(s vlib.Snapshot) []vlib.Row {
	var d []vlib.Row
	for _, r := range s {
		if r.State == queue.StateDead {
			d = append(d, r)
		}
	}
	sort.Slice(d, func(i, j int) bool { return d[i].ReceivedAt < d[j].ReceivedAt })
	return d
}

// pruneEligible reports whether r (as it would be stored) may be removed by a
// retention prune at instant now, given the other dead messages in base.
func pruneEligible(cfg vlib.StoreCfg, r vlib.Row, now int64, base vlib.Snapshot) bool {
	if cfg.PruneInterval <= 0 {
		return false
	}
	switch r.State {
	case queue.StateQueued:
		return cfg.RetentionMaxAge > 0 && r.ReceivedAt <= now-int64(cfg.RetentionMaxAge)
	case queue.StateDelivered:
		return cfg.DeliveredRetention > 0 && r.NextRunAt <= now-int64(cfg.DeliveredRetention)
	case queue.StateDead:
		if cfg.DLQMaxAge > 0 && r.ReceivedAt <= now-int64(cfg.DLQMaxAge) {
			return true
		}
		if cfg.DLQMaxDepth > 0 {
			d := deadOrder(base)
			found := false
			for _, x := range d {
				if x.ID == r.ID {
					found = true
				}
			}
			n := len(d)
			if !found {
				n++
			}
			excess := n - cfg.DLQMaxDepth
			if excess <= 0 {
				return false
			}
			// r is among the oldest `excess` dead messages (ties count as eligible).
			older := 0
			for _, x := range d {
				if x.ID != r.ID && x.ReceivedAt < r.ReceivedAt {
					older++
				}
			}
			return older < excess
		}
	}
	return false
}

func leaseExpired(r vlib.Row, now int64) bool {
	return r.State == queue.StateLeased && r.LeaseUntil != 0 && r.LeaseUntil <= now
}

func released(r vlib.Row, now int64) vlib.Row {
	r.State = queue.StateQueued
	r.LeaseID = ""
	r.LeaseUntil = 0
	r.NextRunAt = now
	r.DeadReason = ""
	return r
}

// ---------------------------------------------------------------------------
// Selection oracle for the by-filter operator mutations (independent
// re-statement: all criteria, newest first, id as tie-break, default 100, max 1000).

func allowedStates(k Kind) []queue.State {
	switch k {
	case KCancel, KCancelF:
		return []queue.State{queue.StateQueued, queue.StateLeased, queue.StateDead}
	case KRequeue, KRequeueF:
		return []queue.State{queue.StateDead, queue.StateCanceled}
	case KResume, KResumeF:
		return []queue.State{queue.StateCanceled}
	case KRequeueDead, KDeleteDead:
		return []queue.State{queue.StateDead}
	}
	return nil
}

// legalEdge: is r0.State -> r1.State an edge of the documented machine that
// operation k may take (lease expiry may precede any operation)?
func legalEdge(k Kind, r0, r1 vlib.Row, now int64) bool {
	from, to := r0.State, r1.State
	if from == queue.StateLeased && leaseExpired(r0, now) {
		if to == queue.StateQueued {
			return true
		}
		from = queue.StateQueued
	}
	switch k {
	case KDequeue:
		return from == queue.StateQueued && to == queue.StateLeased
	case KAck, KAckBatch:
		return from == queue.StateLeased && to == queue.StateDelivered
	case KNack, KNackBatch:
		return from == queue.StateLeased && to == queue.StateQueued
	case KDead, KDeadBatch:
		return from == queue.StateLeased && to == queue.StateDead
	case KCancel, KCancelF:
		return to == queue.StateCanceled && stateIn(from, allowedStates(k))
	case KRequeue, KRequeueF, KResume, KResumeF, KRequeueDead:
		return to == queue.StateQueued && stateIn(from, allowedStates(k))
	}
	return false
}

func stateIn(s queue.State, set []queue.State) bool {
	for _, x := range set {
		if x == s {
			return true
		}
	}
	return false
}

func SelectByFilter(s vlib.Snapshot, f queue.MessageManageFilterRequest, k Kind) []string {
	allowed := allowedStates(k)
	if f.State != "" && !stateIn(f.State, allowed) {
		return nil
	}
	var rows []vlib.Row
	for _, r := range s {
		if !stateIn(r.State, allowed) {
			continue
		}
		if f.State != "" && r.State != f.State {
			continue
		}
		if f.Route != "" && r.Route != f.Route {
			continue
		}
		if f.Target != "" && r.Target != f.Target {
			continue
		}
		if !f.Before.IsZero() && !time.Unix(0, r.ReceivedAt).Before(f.Before) { // time comparison: Before may lie outside the int64-nanosecond range
			continue
		}
		rows = append(rows, r)
	}
	sort.Slice(rows, func(i, j int) bool {
		if rows[i].ReceivedAt != rows[j].ReceivedAt {
			return rows[i].ReceivedAt > rows[j].ReceivedAt
		}
		return rows[i].ID > rows[j].ID
	})
	limit := f.Limit
	if limit <= 0 {
		limit = 100
	}
	if limit > 1000 {
		limit = 1000
	}
	if len(rows) > limit {
		rows = rows[:limit]
	}
	out := make([]string, len(rows))
	for i, r := range rows {
		out[i] = r.ID
	}
	return out
}

// ---------------------------------------------------------------------------
// Transition monitor (C02) with the admission (C12), fencing (C04) and
// selection (C14) oracles evaluated on the same step.

type Step struct {
	Backend string
	Cfg     vlib.StoreCfg
	S0, S1  vlib.Snapshot
	Op      Op
	Res     Res
	Now     int64 // store clock during the operation
	// PredictAdmission enables the exact admission model (needs retention off and
	// strictly increasing received_at).
	PredictAdmission bool
	// EffBatch overrides the effective batch (pull API layer: min(request, max_batch)); 0 = store cap.
	EffBatch int
}

func effTTL(d time.Duration) time.Duration {
	if d <= 0 {
		return 30 * time.Second
	}
	return d
}

func effBatch(b int) int {
	if b <= 0 {
		return 1
	}
	if b > 100 {
		return 100
	}
	return b
}

func expectedFromEnvelope(e queue.Envelope, now int64) vlib.Row {
	r := vlib.RowFromEnvelope(e, true)
	if r.State == "" {
		r.State = queue.StateQueued
	}
	if r.State != queue.StateDead {
		r.DeadReason = ""
	}
	if e.ReceivedAt.IsZero() {
		r.ReceivedAt = now
	}
	if e.NextRunAt.IsZero() {
		r.NextRunAt = r.ReceivedAt
	}
	if r.Schema == 0 {
		r.Schema = 1
	}
	r.LeaseID, r.LeaseUntil = "", 0
	return r
}

func rowBrief(r vlib.Row) string {
	return fmt.Sprintf("{%s %s/%s %s att=%d next=%d lease=%q until=%d dead=%q}", r.ID, r.Route, r.Target, r.State, r.Attempt, r.NextRunAt, r.LeaseID, r.LeaseUntil, r.DeadReason)
}

func findLease(s vlib.Snapshot, leaseID string) (vlib.Row, bool) {
	if leaseID == "" {
		return vlib.Row{}, false
	}
	for _, r := range s {
		if r.State == queue.StateLeased && r.LeaseID == leaseID {
			return r, true
		}
	}
	return vlib.Row{}, false
}

// CheckStep evaluates all step monitors and returns the observations.
func CheckStep(st Step) []Obs {
	var out []Obs
	op, res, now, s0, s1 := st.Op, st.Res, st.Now, st.S0, st.S1
	be := st.Backend
	add := func(prop, class, what string, extra map[string]string, ids ...string) {
		o := obs(prop, class, be, op, what, extra)
		o.Wit = map[string]any{"ids": ids}
		out = append(out, o)
	}

	// expected rows for the ids the operation is entitled to touch
	exp := map[string]*vlib.Row{} // nil value = expected removed
	expAdded := map[string]vlib.Row{}
	generatedAdds := 0
	evictOK := 0 // number of queued messages a successful drop_oldest enqueue may evict
	failed := res.Err != "ok"

	leaseOutcome := func(lease string) (row vlib.Row, ok bool, class string) {
		lease = strings.TrimSpace(lease)
		r, found := findLease(s0, lease)
		if !found {
			return vlib.Row{}, false, "lease_not_found"
		}
		if leaseExpired(r, now) {
			return r, false, "lease_expired"
		}
		return r, true, "ok"
	}
	applyLease := func(kind Kind, r vlib.Row) *vlib.Row {
		n := r
		switch kind {
		case KAck, KAckBatch:
			if st.Cfg.DeliveredRetention > 0 {
				n.State = queue.StateDelivered
				n.LeaseID, n.LeaseUntil, n.DeadReason = "", 0, ""
				n.NextRunAt = now
				return &n
			}
			return nil
		case KNack, KNackBatch:
			d := op.Dur
			if d < 0 {
				d = 0
			}
			n.State = queue.StateQueued
			n.LeaseID, n.LeaseUntil, n.DeadReason = "", 0, ""
			n.NextRunAt = now + int64(d)
			return &n
		case KDead, KDeadBatch:
			n.State = queue.StateDead
			n.LeaseID, n.LeaseUntil = "", 0
			n.NextRunAt = now
			n.DeadReason = op.Reason
			return &n
		case KExtend:
			n.LeaseUntil = r.LeaseUntil + int64(op.Dur)
			n.NextRunAt = n.LeaseUntil
			return &n
		}
		return &n
	}

	switch op.Kind {
	case KEnqueue, KEnqueueBatch:
		if !failed {
			if op.Kind == KEnqueueBatch && res.N != len(op.Envs) {
				add("C02", "batch_count", fmt.Sprintf("EnqueueBatch of %d items reported %d stored", len(op.Envs), res.N), nil)
			}
			for _, e := range op.Envs {
				if e.ID == "" {
					generatedAdds++
					continue
				}
				expAdded[e.ID] = expectedFromEnvelope(e, now)
			}
			if st.Cfg.MaxDepth > 0 && st.Cfg.DropPolicy == "drop_oldest" {
				evictOK = len(op.Envs)
			}
		} else if res.N != 0 {
			add("C02", "error_with_count", fmt.Sprintf("failed enqueue reported %d stored", res.N), map[string]string{"error": res.Err})
		}
	case KDequeue:
		if !failed {
			out = append(out, checkVisibility(st)...)
			seen := map[string]bool{}
			ttl := effTTL(op.Deq.LeaseTTL)
			if len(res.Items) > effBatch(op.Deq.Batch) {
				add("C05", "over_batch", fmt.Sprintf("dequeue batch=%d returned %d items", op.Deq.Batch, len(res.Items)), nil)
			}
			leaseSeen := map[string]bool{}
			for _, it := range res.Items {
				if seen[it.ID] {
					add("C03", "dup_in_dequeue", "dequeue returned message "+it.ID+" twice", nil, it.ID)
					continue
				}
				seen[it.ID] = true
				if it.LeaseID == "" || leaseSeen[it.LeaseID] {
					add("C03", "lease_id_reuse", "dequeue issued an empty or repeated lease id", nil, it.ID)
				}
				leaseSeen[it.LeaseID] = true
				for _, old := range s0 {
					if old.LeaseID != "" && old.LeaseID == it.LeaseID {
						add("C03", "lease_id_reuse", "dequeue re-issued a lease id that is already on a message", nil, it.ID)
					}
				}
				r0, ok := s0[it.ID]
				if !ok {
					add("C02", "dequeue_unknown", "dequeue returned a message that was not in the queue: "+it.ID, nil, it.ID)
					continue
				}
				eligibleNow := (r0.State == queue.StateQueued && r0.NextRunAt <= now) || leaseExpired(r0, now)
				if !eligibleNow {
					cls := "dequeue_not_ready"
					prop := "C05"
					if r0.State != queue.StateQueued {
						cls, prop = "dequeue_wrong_state", "C03"
					}
					add(prop, cls, "dequeue returned a message that was not eligible: "+rowBrief(r0)+fmt.Sprintf(" now=%d", now), map[string]string{"state": string(r0.State)}, it.ID)
				}
				if (op.Deq.Route != "" && r0.Route != op.Deq.Route) || (op.Deq.Target != "" && r0.Target != op.Deq.Target) {
					add("C05", "dequeue_filter", "dequeue returned a message outside its route/target filter: "+rowBrief(r0), nil, it.ID)
				}
				n := r0
				n.State = queue.StateLeased
				n.Attempt = r0.Attempt + 1
				n.LeaseID = it.LeaseID
				n.LeaseUntil = now + int64(ttl)
				n.NextRunAt = n.LeaseUntil
				n.DeadReason = ""
				exp[it.ID] = &n
				if it.Attempt != n.Attempt {
					add("C03", "attempt_increment", fmt.Sprintf("dequeue of %s reported attempt %d, stored attempt was %d", it.ID, it.Attempt, r0.Attempt), nil, it.ID)
				}
				got := vlib.RowFromEnvelope(it, true)
				if !vlib.SameIdentity(got, r0) {
					add("C02", "dequeue_identity", "dequeued item differs from the stored message: "+rowBrief(got)+" vs "+rowBrief(r0), nil, it.ID)
				}
			}
		}
	case KAck, KNack, KDead, KExtend:
		lease := res.Presented[0]
		if op.Kind == KExtend && op.Dur <= 0 {
			// documented no-op (only a positive extend is fenced)
			break
		}
		row, valid, cls := leaseOutcome(lease)
		if !failed {
			if !valid {
				add("C04", "stale_lease_success", fmt.Sprintf("%s with lease %q (%s) succeeded", op.Kind, lease, cls), map[string]string{"lease_class": cls})
				if op.Kind == KExtend && strings.Contains(cls, "expired") {
					// an abandoned message must be offered again once its lease has run out: an
					// extend accepted after the deadline hides it for another period
					add("C05", "expired_lease_revived", fmt.Sprintf("extend with lease %q (%s) succeeded: the message is due since its lease ran out and is hidden again", lease, cls), nil)
				}
				// whatever it did is judged below as unexpected change
			} else {
				exp[row.ID] = applyLease(op.Kind, row)
			}
		} else if valid && lease == strings.TrimSpace(lease) && (res.Err == "lease_not_found" || res.Err == "lease_expired") {
			// (ids with surrounding whitespace are not "the current lease id"; how a
			// backend treats them is compared in C13 only)
			add("C04", "valid_lease_conflict", fmt.Sprintf("%s with the current unexpired lease of %s was refused (%s)", op.Kind, row.ID, res.Err), map[string]string{"error": res.Err}, row.ID)
		}
	case KAckBatch, KNackBatch, KDeadBatch:
		if !failed && res.Batch != nil {
			// A lease id listed n times in the request may be reported as a conflict at
			// most n times; n-1 conflicts mean its first occurrence succeeded.
			conflicts := map[string]int{}
			for _, c := range res.Batch.Conflicts {
				conflicts[strings.TrimSpace(c.LeaseID)]++
			}
			occ := map[string]int{}
			blanks := 0
			for _, raw := range res.Presented {
				if l := strings.TrimSpace(raw); l != "" {
					occ[l]++
				} else {
					blanks++
				}
			}
			seen := map[string]bool{}
			succ := 0
			for _, raw := range res.Presented {
				l := strings.TrimSpace(raw)
				if l == "" || seen[l] {
					continue
				}
				seen[l] = true
				row, valid, cls := leaseOutcome(l)
				okCount := occ[l] - conflicts[l]
				if okCount < 0 {
					add("C04", "batch_count", fmt.Sprintf("%s: lease %q presented %d times but %d conflicts reported", op.Kind, l, occ[l], conflicts[l]), nil)
					continue
				}
				if okCount == 0 {
					if valid {
						add("C04", "valid_lease_conflict", fmt.Sprintf("%s reported a conflict for the current unexpired lease of %s", op.Kind, row.ID), map[string]string{"error": "batch_conflict"}, row.ID)
					}
					continue
				}
				succ += okCount
				if okCount > 1 {
					add("C04", "duplicate_lease_success", fmt.Sprintf("%s: lease %q succeeded %d times in one batch", op.Kind, l, okCount), nil)
				}
				if !valid {
					add("C04", "stale_lease_success", fmt.Sprintf("%s accepted lease %q (%s)", op.Kind, l, cls), map[string]string{"lease_class": cls})
					continue
				}
				exp[row.ID] = applyLease(op.Kind, row)
			}
			if res.Batch.Succeeded != succ {
				add("C04", "batch_count", fmt.Sprintf("%s: succeeded=%d but %d lease ids were not reported as conflicts", op.Kind, res.Batch.Succeeded, succ), nil)
			}
		}
	case KCancel, KRequeue, KResume, KRequeueDead, KDeleteDead, KCancelF, KRequeueF, KResumeF:
		if failed {
			break
		}
		var sel []string
		byFilter := op.Kind == KCancelF || op.Kind == KRequeueF || op.Kind == KResumeF
		if byFilter {
			sel = SelectByFilter(s0, *op.Filter, op.Kind)
		} else {
			for _, id := range normIDs(op.IDs) {
				if r, ok := s0[id]; ok && stateIn(r.State, allowedStates(op.Kind)) {
					sel = append(sel, id)
				}
			}
		}
		preview := byFilter && op.Filter.PreviewOnly
		if byFilter {
			if res.Matched != len(sel) {
				add("C14", "matched_count", fmt.Sprintf("%s matched=%d, independent selection has %d (preview=%v)", op.Kind, res.Matched, len(sel), preview), map[string]string{"preview": fmt.Sprint(preview)}, sel...)
			}
			if res.Preview != preview {
				add("C14", "preview_flag", fmt.Sprintf("%s preview_only=%v but response says %v", op.Kind, preview, res.Preview), nil)
			}
		}
		if preview {
			if res.N != 0 {
				add("C14", "preview_changed_count", fmt.Sprintf("preview reported %d changed", res.N), nil)
			}
			break
		}
		if res.N != len(sel) {
			add("C14", "changed_count", fmt.Sprintf("%s reported %d changed, independent selection has %d", op.Kind, res.N, len(sel)), nil, sel...)
		}
		for _, id := range sel {
			r := s0[id]
			if op.Kind == KDeleteDead {
				exp[id] = nil
				continue
			}
			n := r
			n.LeaseID, n.LeaseUntil, n.DeadReason = "", 0, ""
			n.NextRunAt = now
			if op.Kind == KCancel || op.Kind == KCancelF {
				n.State = queue.StateCanceled
			} else {
				n.State = queue.StateQueued
			}
			exp[id] = &n
		}
	}

	// --- compare S0/S1 against the expectation -----------------------------
	propFor := func(def string) string {
		switch op.Kind {
		case KCancel, KRequeue, KResume, KRequeueDead, KDeleteDead, KCancelF, KRequeueF, KResumeF:
			return "C14"
		}
		return def
	}
	var evicted []vlib.Row
	for id, r0 := range s0 {
		r1, present := s1[id]
		// The documented machine, judged edge by edge whatever the operation's own
		// expectation says (an operator mutation taking a wrong edge is both a C14
		// and a C02 matter).
		if _, isNew := expAdded[id]; present && !isNew && r0.State != r1.State && !legalEdge(op.Kind, r0, r1, now) {
			add("C02", "illegal_edge", fmt.Sprintf("%s moved %s %s -> %s, which is not an edge of the documented state machine for that operation", op.Kind, id, r0.State, r1.State),
				map[string]string{"from": string(r0.State), "to": string(r1.State), "op": string(op.Kind)}, id)
		}
		if e, touched := exp[id]; touched {
			switch {
			case e == nil && present:
				add(propFor("C02"), "not_removed", fmt.Sprintf("%s should have removed %s but it is still there: %s", op.Kind, id, rowBrief(r1)), nil, id)
			case e == nil:
			case !present:
				if !pruneEligible(st.Cfg, *e, now, s0) {
					add(propFor("C02"), "lost_after_op", fmt.Sprintf("%s: %s vanished, expected %s", op.Kind, id, rowBrief(*e)), nil, id)
				}
			case !vlib.RowEqual(*e, r1):
				add(propFor("C02"), "wrong_result_state", fmt.Sprintf("%s: %s is %s, expected %s", op.Kind, id, rowBrief(r1), rowBrief(*e)), map[string]string{"from": string(r0.State), "to": string(r1.State)}, id)
			}
			continue
		}
		if e, isNew := expAdded[id]; isNew {
			// A successful enqueue of an id that existed before the call is legal only
			// if the old message was pruned or evicted by that very call.
			switch {
			case present && vlib.RowEqual(e, r1) && (pruneEligible(st.Cfg, r0, now, s0) || (leaseExpired(r0, now) && pruneEligible(st.Cfg, released(r0, now), now, s0))):
			case present && vlib.RowEqual(e, r1) && r0.State == queue.StateQueued && evictOK > 0:
				evicted = append(evicted, r0)
			default:
				add("C02", "duplicate_accept", fmt.Sprintf("enqueue of existing id %s succeeded; before %s", id, rowBrief(r0)), nil, id)
			}
			continue
		}
		if present && vlib.RowEqual(r0, r1) {
			continue
		}
		// background transitions
		if present {
			if leaseExpired(r0, now) && vlib.RowEqual(released(r0, now), r1) {
				continue
			}
			cls := "illegal_change"
			if failed {
				cls = "change_after_error"
			}
			if !vlib.SameIdentity(r0, r1) {
				cls = "identity_changed"
			}
			add(propFor("C02"), cls, fmt.Sprintf("%s (result %s) changed untargeted message: %s -> %s", op.Kind, res.Err, rowBrief(r0), rowBrief(r1)),
				map[string]string{"from": string(r0.State), "to": string(r1.State), "error": res.Err}, id)
			if op.Kind == KReopen && r0.State == queue.StateLeased && !leaseExpired(r0, now) && (r1.State != queue.StateLeased || r1.LeaseID != r0.LeaseID) {
				// a lease held by a consumer outlives the process that issued it: opening the
				// database again (restart, second handle) must not end it
				add("C03", "live_lease_dropped_on_open", fmt.Sprintf("opening the database again ended the unexpired lease of %s: %s -> %s", id, rowBrief(r0), rowBrief(r1)), nil, id)
			}
			switch op.Kind {
			case KAck, KNack, KExtend, KDead, KAckBatch, KNackBatch, KDeadBatch:
				// the only messages a settlement may change are those whose current,
				// unexpired lease was presented and accepted (they are in exp)
				add("C04", "stale_lease_effect", fmt.Sprintf("%s (result %s) changed %s although no current unexpired lease of it was accepted: %s -> %s", op.Kind, res.Err, id, rowBrief(r0), rowBrief(r1)),
					map[string]string{"from": string(r0.State), "to": string(r1.State), "op": string(op.Kind)}, id)
			}
			continue
		}
		// removed
		if pruneEligible(st.Cfg, r0, now, s0) || (leaseExpired(r0, now) && pruneEligible(st.Cfg, released(r0, now), now, s0)) {
			continue
		}
		if r0.State == queue.StateQueued && evictOK > 0 {
			evicted = append(evicted, r0)
			continue
		}
		cls := "illegal_removal"
		extra := map[string]string{"state": string(r0.State), "error": res.Err}
		if failed && (op.Kind == KEnqueue || op.Kind == KEnqueueBatch) && r0.State == queue.StateQueued && st.Cfg.DropPolicy == "drop_oldest" {
			cls = "evicted_on_refused_enqueue"
		}
		add(propFor("C02"), cls, fmt.Sprintf("%s (result %s): message %s disappeared", op.Kind, res.Err, rowBrief(r0)), extra, id)
	}
	newGenerated := 0
	for id, r1 := range s1 {
		if _, ok := s0[id]; ok {
			continue
		}
		if e, ok := expAdded[id]; ok {
			if e.NextRunAt != r1.NextRunAt {
				add("C05", "schedule_not_stored", fmt.Sprintf("%s: message %s was enqueued with next_run_at %d, the store holds %d (it would be offered at another instant than scheduled)", op.Kind, id, e.NextRunAt, r1.NextRunAt),
					map[string]string{"op": string(op.Kind)}, id)
			}
			if !vlib.RowEqual(e, r1) {
				add("C02", "stored_differs", fmt.Sprintf("stored message differs from the enqueued one: %s vs expected %s (identity equal: %v)", rowBrief(r1), rowBrief(e), vlib.SameIdentity(e, r1)), nil, id)
			}
			continue
		}
		if generatedAdds > newGenerated && strings.HasPrefix(id, "evt_") {
			newGenerated++
			continue
		}
		add("C02", "appeared", fmt.Sprintf("%s (result %s): message %s appeared without a successful enqueue of that id", op.Kind, res.Err, rowBrief(r1)), nil, id)
	}
	for id, e := range expAdded {
		if _, ok := s1[id]; !ok {
			if _, existed := s0[id]; existed {
				continue // reported above
			}
			if !pruneEligible(st.Cfg, e, now, s1) {
				add("C02", "accepted_not_stored", fmt.Sprintf("enqueue of %s succeeded but the message is not in the queue", id), nil, id)
			}
		}
	}
	if generatedAdds != newGenerated && !failed {
		add("C02", "accepted_not_stored", fmt.Sprintf("%d id-less envelopes accepted, %d new evt_ messages found", generatedAdds, newGenerated), nil)
	}

	// --- admission model (C12) ------------------------------------------------
	if (op.Kind == KEnqueue || op.Kind == KEnqueueBatch) && st.Cfg.MaxDepth > 0 {
		out = append(out, checkAdmission(st, evicted)...)
	}
	return out
}

// SweepGranularity is the documented lease-sweep granularity of the SQLite store.
const SweepGranularity = 10 * time.Millisecond

// checkVisibility is the independent ready-set model of C05: with a single
// client the set of messages a dequeue must offer is known exactly.
//
//	must = queued and due, or leased with lease_until <= now - 10ms
//	may  = leased with now-10ms < lease_until <= now (SQLite sweep throttle; empty on memory),
//	       plus due messages that a retention prune may remove inside this very call
//	min(b,|must|) <= returned <= min(b,|must|+|may|)
func checkVisibility(st Step) []Obs {
	op, res, now := st.Op, st.Res, st.Now
	b := st.EffBatch
	if b == 0 {
		b = effBatch(op.Deq.Batch)
	}
	must, may := 0, 0
	var mustIDs []string
	for id, r := range st.S0 {
		if op.Deq.Route != "" && r.Route != op.Deq.Route {
			continue
		}
		if op.Deq.Target != "" && r.Target != op.Deq.Target {
			continue
		}
		due := false
		soft := false
		switch {
		case r.State == queue.StateQueued && r.NextRunAt <= now:
			due = true
		case leaseExpired(r, now):
			due = true
			if st.Backend == "sqlite" && r.LeaseUntil > now-int64(SweepGranularity) {
				soft = true
			}
		}
		if !due {
			continue
		}
		asQueued := r
		if r.State == queue.StateLeased {
			asQueued = released(r, now)
		}
		if pruneEligible(st.Cfg, asQueued, now, st.S0) {
			soft = true
		}
		if soft {
			may++
		} else {
			must++
			mustIDs = append(mustIDs, id)
		}
	}
	n := len(res.Items)
	lo, hi := minI(b, must), minI(b, must+may)
	var out []Obs
	if n < lo {
		sort.Strings(mustIDs)
		o := obs("C05", "dequeue_incomplete", st.Backend, op, fmt.Sprintf("dequeue(route=%q target=%q batch=%d, effective %d) returned %d items, %d ready messages must be offered", op.Deq.Route, op.Deq.Target, op.Deq.Batch, b, n, must),
			map[string]string{"over_100": fmt.Sprint(b > 100)})
		o.Wit = map[string]any{"must": mustIDs, "returned": res.ItemIDs, "now": now}
		out = append(out, o)
	}
	if n > hi {
		out = append(out, obs("C05", "dequeue_overfull", st.Backend, op, fmt.Sprintf("dequeue returned %d items, at most %d are ready (batch %d)", n, must+may, b), nil))
	}
	return out
}

func minI(a, b int) int {
	if a < b {
		return a
	}
	return b
}

// checkAdmission is the independent admission reference model.
func checkAdmission(st Step, evicted []vlib.Row) []Obs {
	var out []Obs
	op, res, s0 := st.Op, st.Res, st.S0
	add := func(class, what string, extra map[string]string) {
		out = append(out, obs("C12", class, st.Backend, op, what, extra))
	}
	active := s0.Active()
	n := len(op.Envs)
	max := st.Cfg.MaxDepth
	if active > max {
		return nil // lifted above max_depth by operator requeue/resume: excluded by the quantifier
	}
	ok := res.Err == "ok"
	if ok && len(evicted) > n {
		add("evicted_more_than_stored", fmt.Sprintf("%d queued messages evicted for %d stored", len(evicted), n), nil)
	}
	// duplicate ids (an existing id counts unless the old message is evicted by this call)
	dup := false
	seen := map[string]bool{}
	for _, e := range op.Envs {
		if e.ID == "" {
			continue
		}
		if _, exists := s0[e.ID]; exists || seen[e.ID] {
			dup = true
		}
		if seen[e.ID] && ok {
			add("admit_duplicate", "a batch containing the same id twice was admitted", nil)
		}
		seen[e.ID] = true
	}
	switch st.Cfg.DropPolicy {
	case "drop_oldest":
		need := active + n - max
		if need < 0 {
			need = 0
		}
		queued := s0.CountState(queue.StateQueued)
		if !st.PredictAdmission {
			break
		}
		if ok && need > queued {
			add("admit_over_depth", fmt.Sprintf("active=%d max_depth=%d need=%d but only %d queued messages can be evicted, yet the enqueue was admitted", active, max, need, queued), nil)
		}
		if !ok && !dup && need <= queued && res.Err == "queue_full" {
			add("refused_with_room", fmt.Sprintf("drop_oldest refused (queue_full) although %d queued messages could make room for %d", queued, need), nil)
		}
		if ok {
			if len(evicted) != need {
				add("eviction_count", fmt.Sprintf("drop_oldest evicted %d messages, %d were needed (active=%d n=%d max=%d)", len(evicted), need, active, n, max), nil)
			}
			// must be the `need` oldest queued by received_at
			var q []vlib.Row
			for _, r := range s0 {
				if r.State == queue.StateQueued {
					q = append(q, r)
				}
			}
			sort.Slice(q, func(i, j int) bool { return q[i].ReceivedAt < q[j].ReceivedAt })
			if len(evicted) > 0 && len(evicted) <= len(q) {
				cut := q[len(evicted)-1].ReceivedAt
				for _, e := range evicted {
					if e.ReceivedAt > cut {
						add("evicted_not_oldest", fmt.Sprintf("drop_oldest evicted %s (received_at=%d) while older queued messages (<= %d) remain", e.ID, e.ReceivedAt, cut), nil)
						break
					}
				}
			}
		}
	default: // reject
		if ok && active+n > max {
			add("admit_over_depth", fmt.Sprintf("reject policy admitted %d message(s) at active=%d max_depth=%d", n, active, max), nil)
		}
		if st.PredictAdmission && !ok && res.Err == "queue_full" && active+n <= max {
			add("refused_with_room", fmt.Sprintf("reject policy refused %d message(s) at active=%d max_depth=%d", n, active, max), nil)
		}
		if len(evicted) > 0 {
			add("evicted_under_reject", "messages evicted under the reject policy", nil)
		}
	}
	return out
}

// CountersInvariant checks queue_counters against the grouped row counts.
func CountersInvariant(h *vlib.Handle, op Op) []Obs {
	if h.Backend != "sqlite" {
		return nil
	}
	cq, cl, rq, rl, err := h.SQLiteCounters()
	if err != nil {
		return []Obs{obs("C02", "counters_unreadable", "sqlite", op, err.Error(), nil)}
	}
	if cq != rq || cl != rl {
		return []Obs{obs("C02", "counter_drift", "sqlite", op, fmt.Sprintf("queue_counters queued=%d leased=%d but rows say queued=%d leased=%d", cq, cl, rq, rl), nil)}
	}
	return nil
}

var _ = time.Second
