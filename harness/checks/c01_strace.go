package checks

import (
	"bufio"
	"encoding/base64"
	"fmt"
	"os"
	"os/exec"
	"path/filepath"
	"regexp"
	"strings"
	"time"

	"github.com/nuetzliches/hookaido/verifharness/l3"
	"github.com/nuetzliches/hookaido/verifharness/vlib"
)

var (
	reSyscall = regexp.MustCompile(`^(\d+)\s+(pwrite64|fsync|fdatasync|write)\((\d+)<([^>]*)>`)
	reResumed = regexp.MustCompile(`^(\d+)\s+<\.\.\. (pwrite64|fsync|fdatasync|write) resumed>`)
)

type straceEv struct {
	line  int
	pid   string
	call  string
	fd    string
	path  string
	data  string
	start bool // the call was entered on this line
	done  bool // the call completed on this line
}

// c01Strace: fsync-before-ack trace specification. A sequential client sends
// marked requests to the real binary under strace; for every marker the last
// pwrite64 to the WAL that carries it must be followed by a completed
// fsync/fdatasync of the WAL before the 202/200 for that request is written.
func c01Strace(c *vlib.Ctx, root string) {
	if _, err := exec.LookPath("strace"); err != nil {
		c.Assume("strace not available: the fsync-before-ack trace specification was not evaluated")
		return
	}
	runs := c.N(1, 6)
	for run := 0; run < runs; run++ {
		dir := filepath.Join(root, fmt.Sprintf("strace%d", run))
		p, err := l3.New(dir, c01Config)
		if err != nil {
			c.Inconclusive("C01 strace: " + err.Error())
			return
		}
		trace := filepath.Join(dir, "trace.log")
		if err := p.Start(l3.StartOpts{Strace: []string{"-f", "-y", "-s", "9000", "-o", trace, "-e", "trace=pwrite64,fsync,fdatasync,write"}}); err != nil {
			c.Inconclusive("C01 strace start: " + err.Error())
			return
		}
		if err := p.WaitHealthy(90 * time.Second); err != nil {
			c.Inconclusive("C01 strace: not healthy: " + err.Error())
			p.Kill()
			return
		}
		r := vlib.Derive(c.Seed, "C01strace", run)
		var markers []string
		for i := 0; i < 40; i++ {
			mk := fmt.Sprintf("tr%dx%dq", run, i)
			markers = append(markers, mk)
			body := c01Body(mk, r)
			switch i % 3 {
			case 0:
				p.Ingress("/p1", body, map[string]string{"X-Verif-Marker": mk})
			case 1:
				p.Ingress("/fan", body, map[string]string{"X-Verif-Marker": mk})
			default:
				p.Admin("POST", "/messages/publish", map[string]any{"items": []map[string]any{{"id": mk, "route": "/p2", "payload_b64": base64.StdEncoding.EncodeToString(body)}}})
			}
			time.Sleep(15 * time.Millisecond) // keep requests apart so that attribution by order is unambiguous
		}
		p.Stop()
		if !p.Exited() {
			p.Kill()
		}
		evs, err := parseStrace(trace)
		if err != nil {
			c.Inconclusive("C01 strace parse: " + err.Error())
			return
		}
		c.Set("strace_events_parsed", len(evs))
		checked := 0
		for _, mk := range markers {
			needle := "mk:" + mk + ":"
			lastWal := -1
			for i, e := range evs {
				if e.call == "pwrite64" && e.start && strings.HasSuffix(e.path, "-wal") && strings.Contains(e.data, needle) {
					lastWal = i
				}
			}
			if lastWal < 0 {
				continue // marker not visible in a WAL write (page split across the -s limit)
			}
			ack := -1
			for i := lastWal + 1; i < len(evs); i++ {
				e := evs[i]
				if e.call == "write" && e.start && (strings.HasPrefix(e.path, "TCP") || strings.HasPrefix(e.path, "socket")) && (strings.HasPrefix(e.data, "HTTP/1.1 202") || strings.HasPrefix(e.data, "HTTP/1.1 200")) {
					ack = i
					break
				}
			}
			if ack < 0 {
				continue
			}
			synced := false
			for i := lastWal + 1; i < ack; i++ {
				e := evs[i]
				if (e.call == "fsync" || e.call == "fdatasync") && e.done && strings.HasSuffix(e.path, "-wal") {
					synced = true
				}
			}
			checked++
			c.Count("evaluations", 1)
			c.Count("trace_spec_markers_checked", 1)
			if !synced {
				c.Violation(vlib.Signature{"class": "ack_before_wal_fsync"},
					fmt.Sprintf("marker %s: the response (trace line %d) was written after the WAL write carrying the message (line %d) with no completed fsync of the WAL in between", mk, evs[ack].line, evs[lastWal].line),
					map[string]any{"trace_excerpt": excerpt(trace, evs[lastWal].line, evs[ack].line)})
			}
		}
		c.Distinct("nontrivial", fmt.Sprintf("strace_run:%d:checked=%d", run, checked/10*10))
		if checked < 10 {
			c.Inconclusive(fmt.Sprintf("C01 strace run %d: only %d of %d markers could be attributed in the trace", run, checked, len(markers)))
		}
		_ = os.RemoveAll(dir)
	}
}

func parseStrace(path string) ([]straceEv, error) {
	f, err := os.Open(path)
	if err != nil {
		return nil, err
	}
	defer f.Close()
	sc := bufio.NewScanner(f)
	sc.Buffer(make([]byte, 1<<20), 64<<20)
	var evs []straceEv
	pending := map[string]int{} // pid -> index of the unfinished event
	n := 0
	for sc.Scan() {
		n++
		line := sc.Text()
		if m := reSyscall.FindStringSubmatch(line); m != nil {
			e := straceEv{line: n, pid: m[1], call: m[2], fd: m[3], path: m[4], start: true}
			if i := strings.Index(line, `, "`); i >= 0 {
				e.data = unescapeStrace(line[i+3:])
			}
			if strings.Contains(line, "<unfinished ...>") {
				pending[m[1]] = len(evs)
			} else {
				e.done = true
			}
			evs = append(evs, e)
			continue
		}
		if m := reResumed.FindStringSubmatch(line); m != nil {
			if idx, ok := pending[m[1]]; ok {
				prev := evs[idx]
				delete(pending, m[1])
				evs = append(evs, straceEv{line: n, pid: m[1], call: prev.call, fd: prev.fd, path: prev.path, done: true})
			}
		}
	}
	return evs, sc.Err()
}

// unescapeStrace undoes the C-style escaping of strace well enough to find ASCII markers.
func unescapeStrace(s string) string {
	if i := strings.LastIndex(s, `"`); i >= 0 {
		s = s[:i]
	}
	r := strings.NewReplacer(`\r`, "\r", `\n`, "\n", `\t`, "\t", `\"`, `"`, `\\`, `\`)
	return r.Replace(s)
}

func excerpt(path string, from, to int) []string {
	f, err := os.Open(path)
	if err != nil {
		return nil
	}
	defer f.Close()
	sc := bufio.NewScanner(f)
	sc.Buffer(make([]byte, 1<<20), 64<<20)
	var out []string
	n := 0
	for sc.Scan() {
		n++
		if n >= from && n <= to {
			l := sc.Text()
			if len(l) > 160 {
				l = l[:160] + "…"
			}
			out = append(out, fmt.Sprintf("%d: %s", n, l))
			if len(out) > 60 {
				break
			}
		}
	}
	return out
}
