module github.com/nuetzliches/hookaido/verifharness

go 1.25.7

require (
	github.com/anishathalye/porcupine v1.3.0
	github.com/nuetzliches/hookaido v0.0.0
	google.golang.org/grpc v1.79.1
	google.golang.org/protobuf v1.36.11
	modernc.org/sqlite v1.45.0
)

require (
	github.com/cenkalti/backoff/v5 v5.0.3 // indirect
	github.com/cespare/xxhash/v2 v2.3.0 // indirect
	github.com/dustin/go-humanize v1.0.1 // indirect
	github.com/felixge/httpsnoop v1.0.4 // indirect
	github.com/fsnotify/fsnotify v1.9.0 // indirect
	github.com/go-logr/logr v1.4.3 // indirect
	github.com/go-logr/stdr v1.2.2 // indirect
	github.com/google/uuid v1.6.0 // indirect
	github.com/grpc-ecosystem/grpc-gateway/v2 v2.27.7 // indirect
	github.com/jackc/pgpassfile v1.0.0 // indirect
	github.com/jackc/pgservicefile v0.0.0-20240606120523-5a60cdf6a761 // indirect
	github.com/jackc/pgx/v5 v5.8.0 // indirect
	github.com/jackc/puddle/v2 v2.2.2 // indirect
	github.com/remyoudompheng/bigfft v0.0.0-20230129092748-24d4a6f8daec // indirect
	go.opentelemetry.io/auto/sdk v1.2.1 // indirect
	go.opentelemetry.io/contrib/instrumentation/net/http/otelhttp v0.65.0 // indirect
	go.opentelemetry.io/otel v1.40.0 // indirect
	go.opentelemetry.io/otel/exporters/otlp/otlptrace v1.40.0 // indirect
	go.opentelemetry.io/otel/exporters/otlp/otlptrace/otlptracehttp v1.40.0 // indirect
	go.opentelemetry.io/otel/metric v1.40.0 // indirect
	go.opentelemetry.io/otel/sdk v1.40.0 // indirect
	go.opentelemetry.io/otel/trace v1.40.0 // indirect
	go.opentelemetry.io/proto/otlp v1.9.0 // indirect
	golang.org/x/exp v0.0.0-20251023183803-a4bb9ffd2546 // indirect
	golang.org/x/net v0.49.0 // indirect
	golang.org/x/sync v0.19.0 // indirect
	golang.org/x/sys v0.41.0 // indirect
	golang.org/x/text v0.33.0 // indirect
	google.golang.org/genproto/googleapis/api v0.0.0-20260128011058-8636f8732409 // indirect
	google.golang.org/genproto/googleapis/rpc v0.0.0-20260128011058-8636f8732409 // indirect
	modernc.org/libc v1.67.6 // indirect
	modernc.org/mathutil v1.7.1 // indirect
	modernc.org/memory v1.11.0 // indirect
)

replace github.com/nuetzliches/hookaido => /repo
