package checks

import "github.com/nuetzliches/hookaido/verifharness/vlib"

// c09L3: real binary + SIGHUP (added with the L3 machinery).
func c09L3(c *vlib.Ctx) {}
