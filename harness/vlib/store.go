package vlib

import (
	"bytes"
	"context"
	"crypto/sha256"
	"database/sql"
	"encoding/hex"
	"encoding/json"
	"errors"
	"fmt"
	"path/filepath"
	"sort"
	"sync/atomic"
	"time"

	"github.com/nuetzliches/hookaido/internal/queue"
)

type StoreCfg struct {
	MaxDepth           int           `json:"max_depth"`
	DropPolicy         string        `json:"drop_policy"`
	RetentionMaxAge    time.Duration `json:"retention_max_age"`
	PruneInterval      time.Duration `json:"prune_interval"`
	DeliveredRetention time.Duration `json:"delivered_retention"`
	DLQMaxAge          time.Duration `json:"dlq_max_age"`
	DLQMaxDepth        int           `json:"dlq_max_depth"`
	PressureItems      int           `json:"pressure_items,omitempty"`
	PressureBytes      int64         `json:"pressure_bytes,omitempty"`
}

func (c StoreCfg) String() string {
	return fmt.Sprintf("depth=%d/%s ret=%s/%s deliv=%s dlq=%s/%d", c.MaxDepth, c.DropPolicy, c.RetentionMaxAge, c.PruneInterval, c.DeliveredRetention, c.DLQMaxAge, c.DLQMaxDepth)
}

// Handle wraps an opened store with what the harness needs around it.
type Handle struct {
	Backend string
	Store   queue.Store
	Path    string // sqlite file
	Cfg     StoreCfg
	Clock   *VClock
	sqlite  *queue.SQLiteStore
	ro      *sql.DB
	// handles abandoned by Reopen(true), closed with the Handle
	abandoned []*queue.SQLiteStore
}

var storeSeq atomic.Int64

func OpenStore(backend string, cfg StoreCfg, clock *VClock, dir string) (*Handle, error) {
	h := &Handle{Backend: backend, Cfg: cfg, Clock: clock}
	switch backend {
	case "memory":
		opts := []queue.MemoryOption{
			queue.WithNowFunc(clock.Now),
			queue.WithQueueLimits(cfg.MaxDepth, cfg.DropPolicy),
			queue.WithQueueRetention(cfg.RetentionMaxAge, cfg.PruneInterval),
			queue.WithDeliveredRetention(cfg.DeliveredRetention),
			queue.WithDLQRetention(cfg.DLQMaxAge, cfg.DLQMaxDepth),
		}
		if cfg.PressureItems > 0 || cfg.PressureBytes > 0 {
			opts = append(opts, queue.WithMemoryPressureLimits(cfg.PressureItems, cfg.PressureBytes))
		}
		h.Store = queue.NewMemoryStore(opts...)
	case "sqlite":
		h.Path = filepath.Join(dir, fmt.Sprintf("q%d.db", storeSeq.Add(1)))
		if err := h.openSQLite(); err != nil {
			return nil, err
		}
	default:
		return nil, fmt.Errorf("unknown backend %q", backend)
	}
	return h, nil
}

func (h *Handle) openSQLite() error {
	cfg := h.Cfg
	st, err := queue.NewSQLiteStore(h.Path,
		queue.WithSQLiteNowFunc(h.Clock.Now),
		queue.WithSQLiteQueueLimits(cfg.MaxDepth, cfg.DropPolicy),
		queue.WithSQLiteRetention(cfg.RetentionMaxAge, cfg.PruneInterval),
		queue.WithSQLiteDeliveredRetention(cfg.DeliveredRetention),
		queue.WithSQLiteDLQRetention(cfg.DLQMaxAge, cfg.DLQMaxDepth),
		queue.WithSQLiteCheckpointInterval(0),
	)
	if err != nil {
		return err
	}
	h.sqlite = st
	h.Store = st
	return nil
}

// SecondHandle opens another SQLiteStore on the same file (as `hookaido mcp`
// does next to a running server). The caller closes it.
func (h *Handle) SecondHandle() (*queue.SQLiteStore, error) {
	if h.Backend != "sqlite" {
		return nil, errors.New("second handle: not sqlite")
	}
	cfg := h.Cfg
	return queue.NewSQLiteStore(h.Path,
		queue.WithSQLiteNowFunc(h.Clock.Now),
		queue.WithSQLiteQueueLimits(cfg.MaxDepth, cfg.DropPolicy),
		queue.WithSQLiteRetention(cfg.RetentionMaxAge, cfg.PruneInterval),
		queue.WithSQLiteDeliveredRetention(cfg.DeliveredRetention),
		queue.WithSQLiteDLQRetention(cfg.DLQMaxAge, cfg.DLQMaxDepth),
		queue.WithSQLiteCheckpointInterval(0),
	)
}

// Reopen closes (or abandons, when abandon is true) the SQLite handle and opens
// a fresh one on the same file.
func (h *Handle) Reopen(abandon bool) error {
	if h.Backend != "sqlite" {
		return errors.New("reopen: not sqlite")
	}
	if h.ro != nil {
		_ = h.ro.Close()
		h.ro = nil
	}
	if h.sqlite != nil {
		if abandon {
			// the dead process's handle stays open (no graceful close) until the
			// harness is done with this database; then its descriptors are released
			h.abandoned = append(h.abandoned, h.sqlite)
		} else {
			_ = h.sqlite.Close()
		}
	}
	return h.openSQLite()
}

func (h *Handle) Close() {
	if h.ro != nil {
		_ = h.ro.Close()
		h.ro = nil
	}
	if h.sqlite != nil {
		_ = h.sqlite.Close()
		h.sqlite = nil
	}
	for _, st := range h.abandoned {
		_ = st.Close()
	}
	h.abandoned = nil
}

// Row is one message as seen in a snapshot.
type Row struct {
	ID         string            `json:"id"`
	Route      string            `json:"route"`
	Target     string            `json:"target"`
	State      queue.State       `json:"state"`
	ReceivedAt int64             `json:"received_at"`
	Attempt    int               `json:"attempt"`
	NextRunAt  int64             `json:"next_run_at"`
	PayloadSHA string            `json:"payload_sha"`
	PayloadLen int               `json:"payload_len"`
	Headers    map[string]string `json:"headers,omitempty"`
	Trace      map[string]string `json:"trace,omitempty"`
	DeadReason string            `json:"dead_reason,omitempty"`
	Schema     int               `json:"schema"`
	LeaseID    string            `json:"lease_id,omitempty"`
	LeaseUntil int64             `json:"lease_until,omitempty"`
	HasLease   bool              `json:"-"` // lease columns are known (memory listing / sqlite dump)
}

type Snapshot map[string]Row

func sha(b []byte) string {
	s := sha256.Sum256(b)
	return hex.EncodeToString(s[:8])
}

func RowFromEnvelope(e queue.Envelope, hasLease bool) Row {
	r := Row{
		ID: e.ID, Route: e.Route, Target: e.Target, State: e.State,
		ReceivedAt: e.ReceivedAt.UnixNano(), Attempt: e.Attempt, NextRunAt: e.NextRunAt.UnixNano(),
		PayloadSHA: sha(e.Payload), PayloadLen: len(e.Payload), DeadReason: e.DeadReason, Schema: e.SchemaVersion,
		HasLease: hasLease,
	}
	if len(e.Headers) > 0 {
		r.Headers = e.Headers
	}
	if len(e.Trace) > 0 {
		r.Trace = e.Trace
	}
	if hasLease {
		r.LeaseID = e.LeaseID
		if !e.LeaseUntil.IsZero() {
			r.LeaseUntil = e.LeaseUntil.UnixNano()
		}
	}
	return r
}

var AllStates = []queue.State{queue.StateQueued, queue.StateLeased, queue.StateDelivered, queue.StateDead, queue.StateCanceled}

// ListAll pages through ListMessages for every state. It is the API-level
// listing (and may trigger a retention prune, as any list call may).
func ListAll(st queue.Store) ([]queue.Envelope, error) {
	var out []queue.Envelope
	for _, state := range AllStates {
		before := time.Time{}
		seen := map[string]struct{}{}
		for {
			resp, err := st.ListMessages(queue.MessageListRequest{
				State: state, Limit: 1000, Before: before, Order: queue.MessageOrderDesc,
				IncludePayload: true, IncludeHeaders: true, IncludeTrace: true,
			})
			if err != nil {
				return nil, err
			}
			for _, it := range resp.Items {
				if _, dup := seen[it.ID]; dup {
					continue
				}
				seen[it.ID] = struct{}{}
				out = append(out, it)
			}
			if len(resp.Items) < 1000 {
				break
			}
			// Page by cursor; ties on the cursor timestamp beyond one page would be
			// skipped, so step to last+1ns and de-duplicate.
			last := resp.Items[len(resp.Items)-1].ReceivedAt
			nb := last.Add(time.Nanosecond)
			if !before.IsZero() && !nb.Before(before) {
				return nil, fmt.Errorf("listing cannot page past %d messages with equal received_at", len(resp.Items))
			}
			before = nb
		}
	}
	return out, nil
}

// Snap takes a full snapshot. SQLite: a side-effect free SQL dump through a
// second read-only connection (includes lease columns). Memory: ListAll.
func (h *Handle) Snap() (Snapshot, error) {
	if h.Backend == "sqlite" {
		return h.snapSQL()
	}
	items, err := ListAll(h.Store)
	if err != nil {
		return nil, err
	}
	out := make(Snapshot, len(items))
	for _, it := range items {
		if _, dup := out[it.ID]; dup {
			return nil, fmt.Errorf("listing returned id %q twice", it.ID)
		}
		out[it.ID] = RowFromEnvelope(it, true)
	}
	return out, nil
}

func (h *Handle) roDB() (*sql.DB, error) {
	if h.ro != nil {
		return h.ro, nil
	}
	db, err := sql.Open("sqlite", "file:"+h.Path+"?mode=ro&_pragma=busy_timeout(5000)")
	if err != nil {
		return nil, err
	}
	db.SetMaxOpenConns(1)
	h.ro = db
	return db, nil
}

func (h *Handle) snapSQL() (Snapshot, error) {
	db, err := h.roDB()
	if err != nil {
		return nil, err
	}
	rows, err := db.QueryContext(context.Background(), `
SELECT id, route, target, state, received_at, attempt, next_run_at, payload, headers_json, trace_json,
       schema_version, dead_reason, lease_id, lease_until FROM queue_items`)
	if err != nil {
		return nil, err
	}
	defer rows.Close()
	out := Snapshot{}
	for rows.Next() {
		var r Row
		var state string
		var payload []byte
		var hj, tj, dr, lid sql.NullString
		var lu sql.NullInt64
		if err := rows.Scan(&r.ID, &r.Route, &r.Target, &state, &r.ReceivedAt, &r.Attempt, &r.NextRunAt, &payload, &hj, &tj, &r.Schema, &dr, &lid, &lu); err != nil {
			return nil, err
		}
		r.State = queue.State(state)
		r.PayloadSHA = sha(payload)
		r.PayloadLen = len(payload)
		r.Headers = unmarshalMap(hj)
		r.Trace = unmarshalMap(tj)
		if dr.Valid {
			r.DeadReason = dr.String
		}
		r.HasLease = true
		if lid.Valid {
			r.LeaseID = lid.String
		}
		if lu.Valid {
			r.LeaseUntil = lu.Int64
		}
		if _, dup := out[r.ID]; dup {
			return nil, fmt.Errorf("sqlite dump returned id %q twice", r.ID)
		}
		out[r.ID] = r
	}
	return out, rows.Err()
}

func unmarshalMap(s sql.NullString) map[string]string {
	if !s.Valid || s.String == "" {
		return nil
	}
	var m map[string]string
	if err := json.Unmarshal([]byte(s.String), &m); err != nil || len(m) == 0 {
		return nil
	}
	return m
}

// SQLiteCounters returns queue_counters and the grouped row counts.
func (h *Handle) SQLiteCounters() (cq, cl, rq, rl int, err error) {
	db, e := h.roDB()
	if e != nil {
		return 0, 0, 0, 0, e
	}
	if err = db.QueryRow(`SELECT queued, leased FROM queue_counters WHERE id=1`).Scan(&cq, &cl); err != nil {
		return
	}
	err = db.QueryRow(`SELECT COALESCE(SUM(state='queued'),0), COALESCE(SUM(state='leased'),0) FROM queue_items`).Scan(&rq, &rl)
	return
}

// IntegrityCheck runs PRAGMA integrity_check on the SQLite file.
func (h *Handle) IntegrityCheck() (string, error) {
	db, err := h.roDB()
	if err != nil {
		return "", err
	}
	var s string
	err = db.QueryRow(`PRAGMA integrity_check`).Scan(&s)
	return s, err
}

func (s Snapshot) IDs() []string {
	ids := make([]string, 0, len(s))
	for id := range s {
		ids = append(ids, id)
	}
	sort.Strings(ids)
	return ids
}

func (s Snapshot) CountState(st queue.State) int {
	n := 0
	for _, r := range s {
		if r.State == st {
			n++
		}
	}
	return n
}

func (s Snapshot) Active() int {
	return s.CountState(queue.StateQueued) + s.CountState(queue.StateLeased)
}

func mapsEqual(a, b map[string]string) bool {
	if len(a) != len(b) {
		return false
	}
	for k, v := range a {
		if bv, ok := b[k]; !ok || bv != v {
			return false
		}
	}
	return true
}

// SameIdentity reports whether the immutable parts of a message agree.
func SameIdentity(a, b Row) bool {
	return a.ID == b.ID && a.Route == b.Route && a.Target == b.Target && a.ReceivedAt == b.ReceivedAt &&
		a.PayloadSHA == b.PayloadSHA && a.PayloadLen == b.PayloadLen && mapsEqual(a.Headers, b.Headers) &&
		mapsEqual(a.Trace, b.Trace) && a.Schema == b.Schema
}

// RowEqual compares every field (lease columns only when both sides know them).
func RowEqual(a, b Row) bool {
	if !SameIdentity(a, b) || a.State != b.State || a.Attempt != b.Attempt || a.NextRunAt != b.NextRunAt || a.DeadReason != b.DeadReason {
		return false
	}
	if a.HasLease && b.HasLease {
		if a.LeaseID != b.LeaseID || a.LeaseUntil != b.LeaseUntil {
			return false
		}
	}
	return true
}

// Diff lists the ids whose rows differ between two snapshots.
func Diff(a, b Snapshot) (added, removed, changed []string) {
	for id, rb := range b {
		ra, ok := a[id]
		if !ok {
			added = append(added, id)
			continue
		}
		if !RowEqual(ra, rb) {
			changed = append(changed, id)
		}
	}
	for id := range a {
		if _, ok := b[id]; !ok {
			removed = append(removed, id)
		}
	}
	sort.Strings(added)
	sort.Strings(removed)
	sort.Strings(changed)
	return
}

func PayloadEqual(a, b []byte) bool { return bytes.Equal(a, b) }

// ErrClass maps a store error to a stable class name.
func ErrClass(err error) string {
	switch {
	case err == nil:
		return "ok"
	case errors.Is(err, queue.ErrLeaseNotFound):
		return "lease_not_found"
	case errors.Is(err, queue.ErrLeaseExpired):
		return "lease_expired"
	case errors.Is(err, queue.ErrQueueFull):
		return "queue_full"
	case errors.Is(err, queue.ErrMemoryPressure):
		return "memory_pressure"
	case errors.Is(err, queue.ErrEnvelopeExists):
		return "exists"
	default:
		return "other"
	}
}
