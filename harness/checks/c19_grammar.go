package checks

import (
	"fmt"
	"strings"

	"github.com/nuetzliches/hookaido/verifharness/vlib"
)

// Grammar-directed generator: a directive table transcribed from
// internal/config/parser.go (DESIGN.md Appendix A). Every value can be spelled
// bare or quoted; optional directives are included with probability 1/2.

type gram struct {
	r *vlib.Rand
	b strings.Builder
}

func (g *gram) val(v string) string {
	if strings.Contains(v, "://") && g.r.Chance(0.3) {
		// URLs with escaped octets and other percent sequences
		v += vlib.Pick(g.r, []string{"?next=%2Fhome", "/a%20b", "/%E2%9C%93", "?q=100%", "?t=%s&n=%d", "/%25"})
	}
	needs := strings.ContainsAny(v, " \t{}\"#") || v == ""
	if needs || g.r.Chance(0.3) {
		return `"` + strings.NewReplacer(`\`, `\\`, `"`, `\"`).Replace(v) + `"`
	}
	return v
}

func (g *gram) line(ind int, parts ...string) {
	g.b.WriteString(strings.Repeat("  ", ind))
	g.b.WriteString(strings.Join(parts, " "))
	if g.r.Chance(0.05) {
		g.b.WriteString(" # c")
	}
	g.b.WriteString("\n")
}

func (g *gram) opt() bool { return g.r.Bool() }

func (g *gram) dur() string {
	return vlib.Pick(g.r, []string{"5s", "30s", "1m", "2h", "7d", "250ms", "1h30m", "0", "off", "15m"})
}
func (g *gram) onoff() string {
	return vlib.Pick(g.r, []string{"on", "off", "true", "false", "1", "0"})
}
func (g *gram) size() string {
	return vlib.Pick(g.r, []string{"1kb", "64kb", "2mb", "512", "1MB", "10kib"})
}
func (g *gram) num(lo, hi int) string { return fmt.Sprint(g.r.Range(lo, hi)) }

func (g *gram) tls(ind int) {
	g.line(ind, "tls {")
	g.line(ind+1, "cert_file", g.val("/etc/hookaido/cert.pem"))
	g.line(ind+1, "key_file", g.val("/etc/hookaido/key.pem"))
	if g.opt() {
		g.line(ind+1, "client_ca", g.val("/etc/hookaido/ca.pem"))
		g.line(ind+1, "client_auth", vlib.Pick(g.r, []string{"require", "request", "none", "verify_if_given", "require_and_verify"}))
	}
	g.line(ind, "}")
}

func (g *gram) rateLimit(ind int) {
	if g.r.Chance(0.3) {
		g.line(ind, "rate_limit {", "rps", g.num(1, 500), "}")
		return
	}
	g.line(ind, "rate_limit {")
	g.line(ind+1, "rps", vlib.Pick(g.r, []string{"50", "0.5", "1000", "2.5"}))
	if g.opt() {
		g.line(ind+1, "burst", g.num(1, 200))
	}
	g.line(ind, "}")
}

func (g *gram) tokens(ind int) {
	for i := 0; i < g.r.Range(1, 3); i++ {
		g.line(ind, "auth token", g.val(vlib.Pick(g.r, []string{"env:PULL_TOKEN", "raw:tok-" + g.num(1, 99), "file:/run/secrets/tok", "{$VERIF_C19_A}", "raw:{env.VERIF_C19_B}"})))
	}
}

func (g *gram) topLevel() {
	r := g.r
	if g.opt() {
		g.line(0, "ingress {")
		g.line(1, "listen", g.val(vlib.Pick(r, []string{":8080", "127.0.0.1:8081", "0.0.0.0:80", "[::1]:8080"})))
		if r.Chance(0.2) {
			g.tls(1)
		}
		if g.opt() {
			g.rateLimit(1)
		}
		g.line(0, "}")
	}
	if r.Chance(0.8) {
		g.line(0, "pull_api {")
		if g.opt() {
			g.line(1, "listen", g.val(vlib.Pick(r, []string{":9443", "127.0.0.1:9444"})))
		}
		if g.opt() {
			g.line(1, "prefix", g.val(vlib.Pick(r, []string{"/pull", "/api/pull", "/p"})))
		}
		if r.Chance(0.15) {
			g.tls(1)
		}
		g.tokens(1)
		if g.opt() {
			g.line(1, "max_batch", g.num(1, 300))
		}
		if g.opt() {
			g.line(1, "grpc_listen", g.val(":9555"))
		}
		if g.opt() {
			g.line(1, "default_lease_ttl", g.dur())
		}
		if g.opt() {
			g.line(1, "max_lease_ttl", g.dur())
		}
		if g.opt() {
			g.line(1, "default_max_wait", g.dur())
		}
		if g.opt() {
			g.line(1, "max_wait", g.dur())
		}
		g.line(0, "}")
	}
	if g.opt() {
		g.line(0, "admin_api {")
		if g.opt() {
			g.line(1, "listen", g.val(vlib.Pick(r, []string{"127.0.0.1:2019", ":2020"})))
		}
		if g.opt() {
			g.line(1, "prefix", g.val(vlib.Pick(r, []string{"/admin", "/_a"})))
		}
		if g.opt() {
			g.tokens(1)
		}
		g.line(0, "}")
	}
	if g.opt() {
		g.observability()
	}
	if g.opt() {
		g.line(0, "queue_retention {")
		if g.opt() {
			g.line(1, "max_age", g.dur())
		}
		if g.opt() {
			g.line(1, "prune_interval", g.dur())
		}
		g.line(0, "}")
	}
	if g.opt() {
		g.line(0, "delivered_retention {", "max_age", g.dur(), "}")
	}
	if g.opt() {
		g.line(0, "dlq_retention {")
		if g.opt() {
			g.line(1, "max_age", g.dur())
		}
		if g.opt() {
			g.line(1, "max_depth", g.num(0, 5000))
		}
		g.line(0, "}")
	}
	if g.opt() {
		g.line(0, "queue_limits {")
		if g.opt() {
			g.line(1, "max_depth", g.num(1, 100000))
		}
		if g.opt() {
			g.line(1, "drop_policy", vlib.Pick(r, []string{"reject", "drop_oldest", "DROP_OLDEST"}))
		}
		g.line(0, "}")
	}
	if g.opt() {
		g.defaults()
	}
	if g.opt() {
		g.line(0, "vars {")
		g.line(1, "VERIF", g.val("vars-value"))
		if g.opt() {
			g.line(1, "PULL_PATH", g.val("/pull/from-vars"))
		}
		if g.opt() {
			g.line(1, "NESTED", `"{vars.VERIF}-nested"`)
		}
		g.line(0, "}")
	}
	if g.opt() {
		g.line(0, "secrets {")
		for i := 0; i < r.Range(1, 3); i++ {
			g.line(1, "secret", g.val(fmt.Sprintf("S%d", i+1)), "{")
			g.line(2, "value", g.val(vlib.Pick(r, []string{"env:SECRET_V1", "raw:s3cr3t", "file:/run/secrets/s"})))
			g.line(2, "valid_from", g.val(fmt.Sprintf("2026-0%d-01T00:00:00Z", i+1)))
			if g.opt() {
				g.line(2, "valid_until", g.val(fmt.Sprintf("2027-0%d-01T00:00:00Z", i+1)))
			}
			g.line(1, "}")
		}
		g.line(0, "}")
	}
}

func (g *gram) observability() {
	r := g.r
	g.line(0, "observability {")
	switch r.Intn(3) {
	case 0:
		g.line(1, "access_log", vlib.Pick(r, []string{"on", "off"}))
	case 1:
		g.line(1, "access_log {")
		if g.opt() {
			g.line(2, "enabled", g.onoff())
		}
		if g.opt() {
			g.line(2, "output", vlib.Pick(r, []string{"stderr", "stdout", "file"}))
		}
		if g.opt() {
			g.line(2, "path", g.val("/var/log/hookaido/access.log"))
		}
		if g.opt() {
			g.line(2, "format", "json")
		}
		g.line(1, "}")
	}
	switch r.Intn(3) {
	case 0:
		g.line(1, "runtime_log", vlib.Pick(r, []string{"info", "debug", "warn", "error", "off"}))
	case 1:
		g.line(1, "runtime_log {")
		if g.opt() {
			g.line(2, "level", vlib.Pick(r, []string{"info", "debug", "warn"}))
		}
		if g.opt() {
			g.line(2, "output", vlib.Pick(r, []string{"stderr", "stdout", "file"}))
		}
		if g.opt() {
			g.line(2, "path", g.val("/var/log/hookaido/runtime.log"))
		}
		if g.opt() {
			g.line(2, "format", "json")
		}
		g.line(1, "}")
	}
	switch r.Intn(3) {
	case 0:
		g.line(1, "metrics", vlib.Pick(r, []string{"on", "off"}))
	case 1:
		g.line(1, "metrics {")
		if g.opt() {
			g.line(2, "enabled", g.onoff())
		}
		if g.opt() {
			g.line(2, "listen", g.val(":9900"))
		}
		if g.opt() {
			g.line(2, "prefix", g.val("/metrics"))
		}
		g.line(1, "}")
	}
	switch r.Intn(4) {
	case 0:
		g.line(1, "tracing", vlib.Pick(r, []string{"on", "off"}))
	case 1:
		g.line(1, "tracing {")
		if g.opt() {
			g.line(2, "enabled", g.onoff())
		}
		if g.opt() {
			g.line(2, "collector", g.val("https://otel.example.com/v1/traces"))
		}
		if g.opt() {
			g.line(2, "url_path", g.val("/v1/traces"))
		}
		if g.opt() {
			g.line(2, "timeout", g.val("10s"))
		}
		if g.opt() {
			g.line(2, "compression", vlib.Pick(r, []string{"gzip", "none"}))
		}
		if g.opt() {
			g.line(2, "insecure", g.onoff())
		}
		if g.opt() {
			g.line(2, "proxy_url", g.val("http://proxy.internal:3128"))
		}
		if g.opt() {
			g.line(2, "tls {")
			if g.opt() {
				g.line(3, "ca_file", g.val("/etc/ca.pem"))
			}
			if g.opt() {
				g.line(3, "cert_file", g.val("/etc/c.pem"))
				g.line(3, "key_file", g.val("/etc/k.pem"))
			}
			if g.opt() {
				g.line(3, "server_name", g.val("otel.example.com"))
			}
			if g.opt() {
				g.line(3, "insecure_skip_verify", g.onoff())
			}
			g.line(2, "}")
		}
		if g.opt() {
			g.line(2, "retry {")
			if g.opt() {
				g.line(3, "enabled", g.onoff())
			}
			if g.opt() {
				g.line(3, "initial_interval", g.val("5s"))
			}
			if g.opt() {
				g.line(3, "max_interval", g.val("30s"))
			}
			if g.opt() {
				g.line(3, "max_elapsed_time", g.val("1m"))
			}
			g.line(2, "}")
		}
		for i := 0; i < r.Intn(3); i++ {
			g.line(2, "header", g.val(vlib.Pick(r, []string{"Authorization", "X-Scope", "X-Api-Key"})), g.val(vlib.Pick(r, []string{"Bearer token", "team-a", "k=v; x", "{vars.VERIF}", "{env.VERIF_C19_A}.{env.VERIF_C19_B}", "Bearer {env.VERIF_C19_B}"})))
		}
		g.line(1, "}")
	}
	g.line(0, "}")
}

func (g *gram) defaults() {
	r := g.r
	g.line(0, "defaults {")
	if g.opt() {
		g.line(1, "max_body", g.size())
	}
	if g.opt() {
		g.line(1, "max_headers", g.size())
	}
	if g.opt() {
		g.line(1, "egress {")
		if g.opt() {
			g.line(2, "allow", g.val("a.example"), g.val("*.b.example"))
		}
		if g.opt() {
			g.line(2, "allow", g.val("10.0.0.0/8"))
		}
		if g.opt() {
			g.line(2, "deny", g.val("evil.test"), g.val("169.254.169.254"))
		}
		if g.opt() {
			g.line(2, "https_only", g.onoff())
		}
		if g.opt() {
			g.line(2, "redirects", g.onoff())
		}
		if g.opt() {
			g.line(2, "dns_rebind_protection", g.onoff())
		}
		g.line(1, "}")
	}
	if g.opt() {
		g.line(1, "publish_policy {")
		for _, k := range []string{"direct", "managed", "allow_pull_routes", "allow_deliver_routes", "require_actor", "require_request_id", "fail_closed"} {
			if g.opt() {
				g.line(2, k, g.onoff())
			}
		}
		if g.opt() {
			g.line(2, "actor_allow", g.val("ci-bot"), g.val("release bot"))
		}
		if g.opt() {
			g.line(2, "actor_prefix", g.val("deploy-"))
		}
		g.line(1, "}")
	}
	if g.opt() {
		g.line(1, "deliver {")
		if g.opt() {
			g.line(2, g.retry())
		}
		if g.opt() {
			g.line(2, "timeout", g.dur())
		}
		if g.opt() {
			g.line(2, "concurrency", g.num(1, 50))
		}
		g.line(1, "}")
	}
	if g.opt() {
		g.line(1, "trend_signals {")
		for _, k := range []string{"window", "expected_capture_interval"} {
			if g.opt() {
				g.line(2, k, vlib.Pick(r, []string{"15m", "1m", "30s", "1h"}))
			}
		}
		for _, k := range []string{"stale_grace_factor", "sustained_growth_consecutive", "sustained_growth_min_samples", "sustained_growth_min_delta", "recent_surge_min_total", "recent_surge_min_delta", "recent_surge_percent",
			"dead_share_high_min_total", "dead_share_high_percent", "queued_pressure_min_total", "queued_pressure_percent", "queued_pressure_leased_multiplier"} {
			if r.Chance(0.3) {
				g.line(2, k, g.num(1, 90))
			}
		}
		g.line(1, "}")
	}
	if g.opt() {
		g.line(1, "adaptive_backpressure {")
		if g.opt() {
			g.line(2, "enabled", g.onoff())
		}
		if g.opt() {
			g.line(2, "min_total", g.num(1, 1000))
		}
		if g.opt() {
			g.line(2, "queued_percent", g.num(1, 100))
		}
		if g.opt() {
			g.line(2, "ready_lag", g.dur())
		}
		if g.opt() {
			g.line(2, "oldest_queued_age", g.dur())
		}
		if g.opt() {
			g.line(2, "sustained_growth", g.onoff())
		}
		g.line(1, "}")
	}
	g.line(0, "}")
}

func (g *gram) retry() string {
	r := g.r
	s := "retry exponential"
	if g.opt() {
		s += " max " + g.num(1, 12)
	}
	if g.opt() {
		s += " base " + vlib.Pick(r, []string{"1s", "500ms", "2s"})
	}
	if g.opt() {
		s += " cap " + vlib.Pick(r, []string{"30s", "2m", "5m"})
	}
	if g.opt() {
		s += " jitter " + vlib.Pick(r, []string{"0", "0.2", "1", "0.55"})
	}
	return s
}

func (g *gram) matchBody(ind int) {
	r := g.r
	if g.opt() {
		g.line(ind, "method", vlib.Pick(r, []string{"POST", "post", "PUT GET", "DELETE"}))
	}
	if g.opt() {
		g.line(ind, "host", g.val(vlib.Pick(r, []string{"hooks.example.com", "*.example.com", "*"})))
	}
	if g.opt() {
		// values with placeholders keep their quotes whatever the spelling of the name;
		// a directive may carry several name/value pairs
		hv := []string{"push", "pull request", "a,b", "{vars.VERIF}", "{env.VERIF_C19_B}", "{env.VERIF_C19_A}.{env.VERIF_C19_B}", "{$VERIF_C19_A}", "pre-{vars.VERIF}", "{vars.VERIF}-post"}
		parts := []string{"header", g.val("X-Event"), g.val(vlib.Pick(r, hv))}
		if r.Chance(0.3) {
			parts = append(parts, g.val("X-Second"), g.val(vlib.Pick(r, hv)))
		}
		g.line(ind, parts...)
	}
	if g.opt() {
		g.line(ind, "header_exists", g.val("X-Delivery"))
	}
	if g.opt() {
		g.line(ind, "query", g.val("env"), g.val(vlib.Pick(r, []string{"prod", "two words"})))
	}
	if g.opt() {
		g.line(ind, "query_exists", g.val("token"))
	}
	if g.opt() {
		g.line(ind, "remote_ip", g.val(vlib.Pick(r, []string{"203.0.113.0/24", "2001:db8::/32", "10.1.2.3"})))
	}
}

func (g *gram) route(ind int, idx int, channel string, matchers []string) {
	r := g.r
	path := vlib.Pick(r, []string{"/hooks", "/webhooks/github", "/a/b", "/jobs"}) + fmt.Sprint(idx)
	name := path
	if r.Chance(0.3) {
		name = `"` + path + `"`
	}
	head := name + " {"
	g.line(ind, head)
	in := ind + 1
	if g.opt() {
		g.line(in, "application", g.val("billing"))
		g.line(in, "endpoint_name", g.val(fmt.Sprintf("invoice.created%d", idx)))
	}
	inbound := channel == "" || channel == "inbound"
	if inbound {
		if g.opt() {
			if len(matchers) > 0 && g.opt() {
				g.line(in, "match", strings.Join(pickSome(r, matchers, 1, len(matchers)), " "))
			} else {
				g.line(in, "match {")
				g.matchBody(in + 1)
				g.line(in, "}")
			}
		}
		if r.Chance(0.3) {
			g.rateLimit(in)
		}
		switch r.Intn(8) {
		case 0:
			g.line(in, "auth basic", g.val("user"), g.val("pass word"))
			if g.opt() {
				g.line(in, "auth basic", g.val("user2"), g.val("{$VERIF_C19_A}"))
			}
		case 1:
			g.line(in, "auth hmac", g.val("env:INGRESS_SECRET"))
		case 2:
			g.line(in, "auth hmac secret_ref", g.val("S1"))
		case 3:
			g.line(in, "auth hmac {")
			if g.opt() {
				g.line(in+1, "secret", g.val("raw:inline-secret"))
			}
			if g.opt() {
				g.line(in+1, "secret_ref", g.val("S1"))
			}
			if g.opt() {
				g.line(in+1, "signature_header", g.val("X-Hub-Signature-256"))
			}
			if g.opt() {
				g.line(in+1, "timestamp_header", g.val("X-Ts"))
			}
			if g.opt() {
				g.line(in+1, "nonce_header", g.val("X-Nonce-Id"))
			}
			if g.opt() {
				g.line(in+1, "tolerance", g.dur())
			}
			g.line(in, "}")
		case 4:
			if g.opt() {
				g.line(in, "auth forward", g.val("https://auth.example.com/check"))
			} else {
				g.line(in, "auth forward", g.val("https://auth.example.com/check"), "{")
				if g.opt() {
					g.line(in+1, "timeout", g.dur())
				}
				if g.opt() {
					g.line(in+1, "copy_headers", g.val("X-User-ID"), g.val("X-Org"))
				}
				if g.opt() {
					g.line(in+1, "copy_headers", g.val("X-Third"))
				}
				if g.opt() {
					g.line(in+1, "body_limit", g.size())
				}
				g.line(in, "}")
			}
		case 5:
			g.line(in, "auth hmac", g.val("env:S_A"), "{")
			g.line(in+1, "tolerance", "10m")
			g.line(in, "}")
		}
	}
	if g.opt() {
		if g.opt() {
			g.line(in, "queue", vlib.Pick(r, []string{"sqlite", "memory"}))
		} else {
			g.line(in, "queue {", "backend", vlib.Pick(r, []string{"sqlite", "memory"}), "}")
		}
	}
	if g.opt() {
		g.line(in, "max_body", g.size())
	}
	if g.opt() {
		g.line(in, "max_headers", g.size())
	}
	publishForm := func(k int) {
		switch k {
		case 0:
			g.line(in, "publish", vlib.Pick(r, []string{"on", "off"}))
		case 1:
			g.line(in, "publish {")
			for _, k := range []string{"enabled", "direct", "managed"} {
				if g.opt() {
					g.line(in+1, k, g.onoff())
				}
			}
			g.line(in, "}")
		case 2:
			g.line(in, "publish.direct", g.onoff())
			if g.opt() {
				g.line(in, "publish.managed", g.onoff())
			}
		case 3:
			g.line(in, "publish.managed", g.onoff())
		}
	}
	if k := r.Intn(7); k < 4 {
		publishForm(k)
		if r.Chance(0.25) {
			// two forms of the same directive in one route, in either order: the parser
			// refuses most combinations; whatever it accepts must round-trip
			k2 := r.Intn(4)
			if k2 != k {
				publishForm(k2)
			}
		}
	}
	deliver := channel == "outbound" || (inbound && g.opt())
	if deliver {
		if g.opt() {
			g.line(in, "deliver_concurrency", g.num(1, 30))
		}
		for i := 0; i < r.Range(1, 2); i++ {
			url := fmt.Sprintf("https://target%d.example.com/hook", i)
			if r.Chance(0.3) {
				g.line(in, "deliver", g.val(url), "{}")
				continue
			}
			g.line(in, "deliver", g.val(url), "{")
			if g.opt() {
				g.line(in+1, g.retry())
			}
			if g.opt() {
				g.line(in+1, "timeout", g.dur())
			}
			switch r.Intn(4) {
			case 0:
				g.line(in+1, "sign hmac", g.val("env:DELIVER_SECRET"))
			case 1:
				g.line(in+1, "sign hmac secret_ref", g.val("S1"))
				if g.opt() {
					g.line(in+1, "sign hmac secret_ref", g.val("S2"))
				}
				if g.opt() {
					g.line(in+1, "sign secret_selection", vlib.Pick(r, []string{"newest_valid", "oldest_valid"}))
				}
			}
			if g.opt() {
				g.line(in+1, "sign signature_header", g.val("X-Webhook-Signature"))
				g.line(in+1, "sign timestamp_header", g.val("X-Webhook-Timestamp"))
			}
			g.line(in, "}")
		}
	} else {
		switch r.Intn(3) {
		case 0:
			g.line(in, "pull {", "path", g.val(fmt.Sprintf("/pull/e%d", idx)), "}")
		default:
			g.line(in, "pull {")
			g.line(in+1, "path", g.val(vlib.Pick(r, []string{fmt.Sprintf("/pull/e%d", idx), fmt.Sprintf("/q/%d", idx)})))
			if g.opt() {
				g.tokens(in + 1)
			}
			g.line(in, "}")
		}
	}
	g.line(ind, "}")
}

func c19Grammar(r *vlib.Rand) string {
	g := &gram{r: r}
	g.topLevel()
	var matchers []string
	for i := 0; i < r.Intn(3); i++ {
		name := fmt.Sprintf("@m%d", i)
		matchers = append(matchers, name)
		g.line(0, name, "{")
		g.matchBody(1)
		g.line(0, "}")
	}
	n := r.Range(1, 5)
	for i := 0; i < n; i++ {
		switch r.Intn(7) {
		case 0: // shorthand channel prefix
			ch := vlib.Pick(r, []string{"inbound", "outbound", "internal"})
			g.b.WriteString(ch + " ")
			g.route(0, i, ch, matchers)
		case 1: // wrapper with several routes
			ch := vlib.Pick(r, []string{"inbound", "outbound", "internal"})
			g.line(0, ch, "{")
			for k := 0; k < r.Range(1, 3); k++ {
				g.route(1, i*10+k, ch, matchers)
			}
			g.line(0, "}")
		default:
			g.route(0, i, "", matchers)
		}
	}
	return g.b.String()
}
