package checks

import (
	"bufio"
	"fmt"
	"net"
	"net/http"
	"net/http/httptest"
	"strconv"
	"strings"
	"time"

	"github.com/nuetzliches/hookaido/internal/dispatcher"
	"github.com/nuetzliches/hookaido/verifharness/pushcheck"
	"github.com/nuetzliches/hookaido/verifharness/vlib"
)

// rawServer answers every connection with a fixed status line (used for 101,
// which net/http servers cannot send as a final answer).
func rawServer(status int) (string, func()) {
	ln, err := net.Listen("tcp", "127.0.0.1:0")
	if err != nil {
		panic(err)
	}
	go func() {
		for {
			conn, err := ln.Accept()
			if err != nil {
				return
			}
			go func() {
				defer conn.Close()
				br := bufio.NewReader(conn)
				req, err := http.ReadRequest(br)
				if err != nil {
					return
				}
				_, _ = bufio.NewReader(req.Body).Discard(1 << 20)
				fmt.Fprintf(conn, "HTTP/1.1 %d X\r\nContent-Length: 0\r\nConnection: close\r\n\r\n", status)
			}()
		}
	}()
	return "http://" + ln.Addr().String() + "/raw", func() { _ = ln.Close() }
}

// c06HTTP: the real HTTPDeliverer against local servers, through the dispatcher.
func c06HTTP(c *vlib.Ctx) {
	// the path of the delivery URL encodes what the server answers: /s/<code>, /slow
	srv := httptest.NewServer(http.HandlerFunc(func(w http.ResponseWriter, r *http.Request) {
		switch {
		case strings.HasPrefix(r.URL.Path, "/s/"):
			n, _ := strconv.Atoi(strings.TrimPrefix(r.URL.Path, "/s/"))
			if n >= 300 && n < 400 {
				w.Header().Set("Location", "/s/200")
			}
			w.WriteHeader(n)
		case r.URL.Path == "/slow":
			select {
			case <-r.Context().Done():
			case <-time.After(2 * time.Second):
			}
			w.WriteHeader(200)
		default:
			w.WriteHeader(200)
		}
	}))
	defer srv.Close()
	raw101, close101 := rawServer(101)
	defer close101()
	deadLn, _ := net.Listen("tcp", "127.0.0.1:0")
	refused := "http://" + deadLn.Addr().String() + "/x"
	_ = deadLn.Close()

	type tgt struct {
		url  string
		want pushcheck.Behaviour
	}
	var tgts []tgt
	for _, code := range []int{200, 201, 204, 301, 302, 307, 308, 304, 400, 404, 408, 410, 429, 500, 502, 503} {
		tgts = append(tgts, tgt{fmt.Sprintf("%s/s/%d", srv.URL, code), pushcheck.Behaviour{Status: code}})
	}
	tgts = append(tgts, tgt{srv.URL + "/slow", pushcheck.Behaviour{Err: "timeout"}}, tgt{raw101, pushcheck.Behaviour{Status: 101}}, tgt{refused, pushcheck.Behaviour{Err: "net"}},
		tgt{"ftp://127.0.0.1/x", pushcheck.Behaviour{Err: "policy"}})
	for _, be := range []string{"memory", "sqlite"} {
		var routes []dispatcher.RouteConfig
		var msgs []pushcheck.Message
		want := map[string]pushcheck.Behaviour{}
		for i, t := range tgts {
			route := fmt.Sprintf("/h%d", i)
			routes = append(routes, dispatcher.RouteConfig{Route: route, Concurrency: 1, Targets: []dispatcher.TargetConfig{{URL: t.url, Timeout: 150 * time.Millisecond,
				Retry: dispatcher.RetryConfig{Type: "exponential", Max: 2, Base: time.Second, Cap: 2 * time.Second, Jitter: 0.5}}}})
			msgs = append(msgs, pushcheck.Message{ID: fmt.Sprintf("h%02d", i), Route: route, Target: t.url})
			want[t.url] = t.want
		}
		real := dispatcher.NewHTTPDeliverer(&http.Client{}, dispatcher.EgressPolicy{})
		pushcheck.Run(c, pushcheck.Scenario{Label: "C06/http/" + be, Backend: be, Routes: routes, Messages: msgs, Real: real,
			Script: func(_, target string, _ int) pushcheck.Behaviour { return want[target] }})
	}
}
