package checks

import (
	"bufio"
	"encoding/json"
	"fmt"
	"io"
	"os"
	"os/exec"
	"path/filepath"
	"strings"
	"sync"
	"syscall"
	"time"

	"github.com/nuetzliches/hookaido/verifharness/l3"
	"github.com/nuetzliches/hookaido/verifharness/vlib"
)

// c20AuditLive: the real `hookaido mcp serve` (the CLI wiring, not a server built
// by the harness) on pipes. After the reply to a mutating call - allowed,
// denied or failed - its audit record must already be on stderr while the
// process keeps running, and it must be there when the process is killed right
// after the reply (SIGTERM, SIGKILL). A record that only appears on a clean
// shutdown is not an audit trail.
func c20AuditLive(c *vlib.Ctx, root string) {
	if _, err := os.Stat(l3.Bin()); err != nil {
		c.Inconclusive("product binary missing: " + l3.Bin())
		return
	}
	type call struct {
		name   string
		flags  []string
		tool   string
		args   map[string]any
		ending string // live | sigterm | sigkill
	}
	valid := c20Config + "/viacli { pull { path /pull/viacli } }\n"
	calls := []call{
		{"allowed_config_apply", []string{"--role", "admin", "--enable-mutations", "--principal", "alice"}, "config_apply", map[string]any{"content": valid, "mode": "write_only"}, "live"},
		{"allowed_config_apply", []string{"--role", "admin", "--enable-mutations", "--principal", "alice"}, "config_apply", map[string]any{"content": valid, "mode": "write_only"}, "sigterm"},
		{"denied_messages_cancel", []string{"--role", "operate", "--principal", "alice"}, "messages_cancel", map[string]any{"ids": []string{"q1"}, "reason": "verif"}, "sigkill"},
		{"denied_messages_cancel", []string{"--role", "operate", "--principal", "alice"}, "messages_cancel", map[string]any{"ids": []string{"q1"}, "reason": "verif"}, "live"},
		{"failed_dlq_delete", []string{"--role", "admin", "--enable-mutations", "--principal", "alice"}, "dlq_delete", map[string]any{"ids": []string{}, "reason": "verif"}, "live"},
		{"failed_dlq_delete", []string{"--role", "admin", "--enable-mutations", "--principal", "alice"}, "dlq_delete", map[string]any{"ids": []string{}, "reason": "verif"}, "sigkill"},
	}
	for i, k := range calls {
		f, err := c20NewFixture(root, 700000+i)
		if err != nil {
			c.Inconclusive(err.Error())
			return
		}
		args := append([]string{"mcp", "serve", "--config", f.Cfg, "--db", f.DB}, k.flags...)
		cmd := exec.Command(l3.Bin(), args...)
		cmd.Dir = f.Dir
		stdin, _ := cmd.StdinPipe()
		stdout, _ := cmd.StdoutPipe()
		stderr, _ := cmd.StderrPipe()
		if err := cmd.Start(); err != nil {
			c.Inconclusive("C20 live: start: " + err.Error())
			return
		}
		var mu sync.Mutex
		var errLines []string
		go func() {
			sc := bufio.NewScanner(stderr)
			sc.Buffer(make([]byte, 1<<20), 1<<20)
			for sc.Scan() {
				mu.Lock()
				errLines = append(errLines, sc.Text())
				mu.Unlock()
			}
		}()
		params, _ := json.Marshal(map[string]any{"name": k.tool, "arguments": k.args})
		req, _ := json.Marshal(map[string]any{"jsonrpc": "2.0", "id": 1, "method": "tools/call", "params": json.RawMessage(params)})
		fmt.Fprintf(stdin, "Content-Length: %d\r\n\r\n%s", len(req), req)
		// read exactly one response frame
		replied := make(chan bool, 1)
		go func() {
			br := bufio.NewReader(stdout)
			n := -1
			for {
				line, err := br.ReadString('\n')
				if err != nil {
					replied <- false
					return
				}
				line = strings.TrimSpace(line)
				if line == "" {
					break
				}
				if strings.HasPrefix(strings.ToLower(line), "content-length:") {
					fmt.Sscanf(strings.TrimSpace(line[15:]), "%d", &n)
				}
			}
			if n > 0 {
				_, _ = io.ReadFull(br, make([]byte, n))
			}
			replied <- n > 0
		}()
		got := false
		select {
		case got = <-replied:
		case <-time.After(20 * time.Second):
		}
		if !got {
			_ = cmd.Process.Kill()
			_, _ = cmd.Process.Wait()
			c.Inconclusive(fmt.Sprintf("C20 live %s: no reply from `hookaido mcp serve`", k.name))
			_ = os.RemoveAll(f.Dir)
			continue
		}
		switch k.ending {
		case "sigterm":
			_ = cmd.Process.Signal(syscall.SIGTERM)
			_, _ = cmd.Process.Wait()
		case "sigkill":
			_ = cmd.Process.Kill()
			_, _ = cmd.Process.Wait()
		default:
			time.Sleep(1500 * time.Millisecond) // the process keeps running with stdin open
		}
		time.Sleep(100 * time.Millisecond) // let the stderr reader drain the pipe
		mu.Lock()
		records := 0
		for _, l := range errLines {
			var m map[string]any
			if json.Unmarshal([]byte(l), &m) == nil && m["tool"] == k.tool {
				records++
			}
		}
		lines := append([]string(nil), errLines...)
		mu.Unlock()
		c.Count("evaluations", 1)
		c.Count("cli_audit_liveness_trials", 1)
		c.Distinct("nontrivial", fmt.Sprintf("cli_audit:%s:%s:records=%d", k.name, k.ending, records))
		if records != 1 {
			c.Violation(vlib.Signature{"class": "audit_record_not_written_with_the_reply", "case": k.name, "ending": k.ending},
				fmt.Sprintf("`hookaido mcp serve`: %s was answered, but %d audit records for it are on stderr (%s)", k.name, records, map[string]string{"live": "1.5s later, process still running", "sigterm": "process then ended by SIGTERM", "sigkill": "process then ended by SIGKILL"}[k.ending]),
				map[string]any{"stderr": lines, "args": args})
		}
		if k.ending == "live" {
			_ = stdin.Close()
			done := make(chan struct{})
			go func() { _, _ = cmd.Process.Wait(); close(done) }()
			select {
			case <-done:
			case <-time.After(5 * time.Second):
				_ = cmd.Process.Kill()
			}
		}
		_ = os.RemoveAll(f.Dir)
	}
	_ = filepath.Join
}
