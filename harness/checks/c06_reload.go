package checks

import (
	"fmt"
	"io"
	"net/http"
	"net/http/httptest"
	"strings"
	"sync"
	"time"

	"github.com/nuetzliches/hookaido/internal/queue"
	"github.com/nuetzliches/hookaido/verifharness/l2"
	"github.com/nuetzliches/hookaido/verifharness/vlib"
)

// c06RetryReload: the dispatcher gets its retry configuration once, at
// start-up. A retry setting of the file changes (max raised / lowered, in the
// deliver block or in defaults.deliver, base, cap, jitter) and the process
// reloads. Whatever configuration it then reports as running, a message whose
// target keeps answering 503 must be sent retry.max+1 times and dead-lettered
// max_retries by THAT configuration: the number of requests the target sees and
// the DLQ entry must be those of a fresh start of the file reported as running.
func c06RetryReload(c *vlib.Ctx) {
	dir := c.Scratch()
	var mu sync.Mutex
	hits := map[string]int{}
	sink := httptest.NewServer(http.HandlerFunc(func(w http.ResponseWriter, r *http.Request) {
		_, _ = io.Copy(io.Discard, r.Body)
		mu.Lock()
		hits[r.Header.Get("X-Probe")]++
		mu.Unlock()
		w.WriteHeader(503)
	}))
	defer sink.Close()
	mk := func(defaults, block string) string {
		d := ""
		if defaults != "" {
			d = " deliver {\n  " + defaults + "\n }\n"
		}
		return fmt.Sprintf("ingress { listen 127.0.0.1:0 }\npull_api { listen 127.0.0.2:0\n auth token raw:tok }\nadmin_api { listen 127.0.0.3:0 }\ndefaults { egress { https_only off\n dns_rebind_protection off }\n%s}\n"+
			"/out { queue { backend memory }\n deliver %q {\n  timeout 2s\n  %s\n } }\n", d, sink.URL+"/t", block)
	}
	edits := []struct{ name, fromD, fromB, toD, toB string }{
		{"block_max_lowered", "", "retry exponential max 4 base 10ms cap 10ms jitter 0", "", "retry exponential max 1 base 10ms cap 10ms jitter 0"},
		{"block_max_raised", "", "retry exponential max 1 base 10ms cap 10ms jitter 0", "", "retry exponential max 4 base 10ms cap 10ms jitter 0"},
		{"defaults_max_lowered", "retry exponential max 3 base 10ms cap 10ms jitter 0", "", "retry exponential max 1 base 10ms cap 10ms jitter 0", ""},
		{"defaults_max_raised", "retry exponential max 1 base 10ms cap 10ms jitter 0", "", "retry exponential max 3 base 10ms cap 10ms jitter 0", ""},
		{"block_directive_removed", "retry exponential max 1 base 10ms cap 10ms jitter 0", "retry exponential max 3", "retry exponential max 1 base 10ms cap 10ms jitter 0", ""},
		{"block_directive_added", "retry exponential max 1 base 10ms cap 10ms jitter 0", "", "retry exponential max 1 base 10ms cap 10ms jitter 0", "retry exponential max 3"},
		{"base_and_cap_changed", "", "retry exponential max 2 base 10ms cap 10ms jitter 0", "", "retry exponential max 2 base 20ms cap 40ms jitter 0"},
		{"unrelated_route_added", "", "retry exponential max 2 base 10ms cap 10ms jitter 0", "", "retry exponential max 2 base 10ms cap 10ms jitter 0"},
	}
	seq := 0
	probe := func(a *l2.App) string {
		seq++
		id := fmt.Sprintf("rr-%d", seq)
		req := l2.JSONReq("POST", a.Compiled.AdminAPI.Prefix+"/messages/publish", map[string]any{"items": []map[string]any{{"id": id, "route": "/out", "payload_b64": "eA==", "headers": map[string]string{"X-Probe": id}}}}, "")
		req.Header.Set("X-Hookaido-Audit-Reason", "verif")
		if resp := l2.Do(a.Admin, req); resp.Status != 200 {
			return fmt.Sprintf("publish %d", resp.Status)
		}
		for w := 0; w < 4000; w++ {
			lk, _ := a.Store.LookupMessages(queue.MessageLookupRequest{IDs: []string{id}})
			if len(lk.Items) == 1 && lk.Items[0].State == queue.StateDead {
				reason := ""
				if dl, err := a.Store.ListDead(queue.DeadListRequest{Limit: 1000}); err == nil {
					for _, e := range dl.Items {
						if e.ID == id {
							reason = e.DeadReason
						}
					}
				}
				time.Sleep(30 * time.Millisecond) // nothing may follow the dead-letter
				mu.Lock()
				n := hits[id]
				mu.Unlock()
				return fmt.Sprintf("%d request(s), dead-lettered %s", n, reason)
			}
			time.Sleep(5 * time.Millisecond)
		}
		mu.Lock()
		n := hits[id]
		mu.Unlock()
		return fmt.Sprintf("unsettled within 20s after %d request(s)", n)
	}
	for _, e := range edits {
		oldText, newText := mk(e.fromD, e.fromB), mk(e.toD, e.toB)
		if e.name == "unrelated_route_added" {
			newText = oldText + "/extra { queue { backend memory }\n pull { path /pull/extra } }\n"
		}
		a, err := l2.Start(dir, oldText, nil, nil)
		if err != nil {
			c.Inconclusive("C06 retry reload base (" + e.name + ") did not start: " + err.Error())
			continue
		}
		d := a.StartDispatcher(&http.Client{})
		before := probe(a)
		_ = a.WriteConfig(newText)
		ok := a.Reload()
		after := probe(a)
		d.Drain(2 * time.Second)
		a.Close()
		running := oldText
		if ok {
			running = newText
		}
		ref, err := l2.Start(dir, running, nil, nil)
		if err != nil {
			c.Violation(vlib.Signature{"class": "invalid_reload_applied", "edit": "retry:" + e.name}, "the file reported as running does not start: "+err.Error(), map[string]any{"file": running})
			continue
		}
		rd := ref.StartDispatcher(&http.Client{})
		want := probe(ref)
		rd.Drain(2 * time.Second)
		ref.Close()
		c.Count("evaluations", 1)
		c.Count("retry_reload_trials", 1)
		c.Distinct("nontrivial", fmt.Sprintf("retry_reload:%s:applied=%v", e.name, ok))
		wit := map[string]any{"edit": e.name, "reload_reported_ok": ok, "delivery_before_reload": before, "delivery_after_reload": after, "delivery_after_fresh_start_of_running_file": want, "file_after": newText}
		if c.Counter("retry_reload_trials") <= 2 {
			c.Sample(wit)
		}
		if strings.Contains(before+after+want, "unsettled") || strings.Contains(before+after+want, "publish ") {
			c.Inconclusive(fmt.Sprintf("C06 retry reload %s: a probe delivery did not settle (%s | %s | %s)", e.name, before, after, want))
			continue
		}
		if after != want {
			c.Violation(vlib.Signature{"class": "retry_configuration_not_the_running_one", "edit": e.name, "applied": fmt.Sprint(ok)},
				fmt.Sprintf("retry edit %s, reload reported ok=%v: a message to a target answering 503 ends as [%s]; after a fresh start of the configuration reported as running it ends as [%s]", e.name, ok, after, want), wit)
		}
	}
}
