#!/usr/bin/env python3
"""Regenerates MANIFEST.json from the table below (run after adding a check)."""
import json, subprocess, os
HOOK_COMMITS = ["706dcd3", "e496d9f"]
CHECKS = {
 "C02": dict(level="exploration", ref="DESIGN.md §3 C02",
   text="Held on every generated operation sequence explored: a transition monitor diffs a full queue snapshot before/after each of ~35k (quick) store operations on memory and SQLite across 13 limits/retention configurations; thorough adds 16x more sequences and a concurrent -race part with conservation and counter invariants.",
   note="Trusted: the snapshot readers (paginated ListMessages; read-only SQL dump for SQLite) and the virtual clock injection. Postgres backend not covered (no server in the sandbox).",
   technique="runtime monitoring: snapshot-diff transition monitor over generated operation histories (virtual clock), SQLite counter invariant hook, race detector on the concurrent part"),
 "C03": dict(level="exploration", ref="DESIGN.md §3 C03",
   text="Held on the sampled schedules: 48 (quick) / 2400 (thorough) concurrent histories of 8-32 clients over direct Store calls, Pull HTTP and Worker gRPC on memory and SQLite, recorded at the client boundary and checked per message with porcupine against a lease-register model (exclusivity mode), built and run under the Go race detector.",
   note="Schedules are sampled, not enumerated; evidence reports overlapping operation pairs and distinct per-message operation orders. Virtual clock frozen inside a phase. Postgres not covered.",
   technique="runtime monitoring: client-boundary history recording + porcupine linearizability check against a per-message lease register; Go race detector"),
 "C04": dict(level="exploration", ref="DESIGN.md §3 C04",
   text="Held on the sampled histories: same recorder as C03 with a stale-lease-heavy workload (every lease id ever seen is presented again after expiry, re-lease, cancel, requeue, settle; batch forms, duplicates, blank/unknown ids) checked in fencing mode, with a listing of every message at each quiescent point inside the history.",
   note="The documented idempotent duplicate answer of the Pull/Worker API is derived from the history (another successful call of the same class on that lease issued before this one returned). Postgres not covered.",
   technique="runtime monitoring: client-boundary history recording + porcupine check against a per-message lease register (fencing mode) + quiescent-point listings; Go race detector"),
 "C05": dict(level="exploration", ref="DESIGN.md §3 C05",
   text="Held on every single-client history explored: an independent ready-set model (must/may sets, 10 ms sweep granularity) bounds the size and content of every dequeue on memory and SQLite, through the store and through pullapi (max_batch 1/5/100/250); SQLite handles abandoned with leases held are reopened past expiry and must offer everything exactly once.",
   note="Unbounded liveness restated as bounded progress on the store clock. One known finding (KF2: max_batch > 100). Postgres not covered.",
   technique="runtime monitoring: reference-model monitor (ready set) over generated single-client histories under a virtual clock; abandon-and-reopen crash simulation"),
 "C12": dict(level="exploration", ref="DESIGN.md §3 C12",
   text="Held on every generated sequence: an independent admission model predicts admit/refuse and the exact evicted set for each enqueue (max_depth 1-8 x reject/drop_oldest, memory-pressure limits on memory) and every refusal must leave the snapshot unchanged; body/header sizes around the limits and arrival sequences (bursts, steady, idle gaps, 16-goroutine same-instant) go through the production ingress handler and token-bucket limiter under a virtual clock.",
   note="received_at strictly increasing, retention off, so that 'oldest' and the active count are unambiguous; over-depth histories skipped as the quantifier says.",
   technique="runtime monitoring: reference-model monitor (admission, token bucket) + snapshot-unchanged-on-refusal monitor over generated histories"),
 "C13": dict(level="exploration", ref="DESIGN.md §3 C13",
   text="Held (modulo one known finding) on every lock-step differential execution explored: the same generated operation sequence runs on memory and SQLite under one virtual clock and every return value plus a full listing is compared after every step (~19k steps quick), plus directed histories for every defect found so far.",
   note="Forced-choice dequeues only (choice among equally eligible messages is exempt); memory-only documented guards kept out of play; Postgres not covered. Known finding KF1 (single Enqueue while over max_depth).",
   technique="runtime monitoring: lock-step differential execution of generated Store-interface histories with per-step result and listing comparison"),
 "C14": dict(level="exploration", ref="DESIGN.md §3 C14",
   text="Held on every generated population and mutation: an independent selection (criteria, newest-first with id tie-break, limit default 100 / cap 1000) is compared with the snapshot diff and the reported counts for by-id and by-filter cancel/requeue/resume and DLQ requeue/delete on memory and SQLite, previews must change nothing, canceled leases are probed and must be dead.",
   note="Admin HTTP and MCP surfaces are sampled on top of the store-level runs. Postgres not covered.",
   technique="runtime monitoring: reference-model monitor (independent selection) + snapshot diff over generated populations and mutations"),
}
NOT_APPLICABLE = {}
ALL = ["C%02d" % i for i in range(1, 21)]

def main():
    checks = []
    for pid in sorted(CHECKS):
        c = CHECKS[pid]
        checks.append({
            "property_id": pid,
            "quick_cmd": f"./check {pid} quick",
            "thorough_cmd": f"./check {pid} thorough",
            "evidence_file": f"/verif/evidence/{pid}.json",
            "engine": "vcheck",
            "level_claimed": {"category": c["level"], "text": c["text"], "design_ref": c["ref"]},
            "level_note": c["note"],
            "technique": c["technique"],
        })
    na = []
    for pid in ALL:
        if pid not in CHECKS:
            na.append({"property_id": pid, "reason": NOT_APPLICABLE.get(pid, "check not built yet in this session (planned, see DESIGN.md §3)")})
    m = {
        "version": 1,
        "setup_cmd": "./setup.sh",
        "hooks": {
            "guard": "verif",
            "enable": "go build -tags verif (harness module /verif/harness with replace => /repo; product binary /verif/.build/hookaido-verif)",
            "baseline_off_cmd": "cd /repo && . /verif/env.sh && go test -mod=mod -json -vet=off -count=1 -timeout 25m ./...",
            "source_commits": HOOK_COMMITS,
            "add_only": True,
        },
        "engines": [{"name": "vcheck", "path": "/verif/harness", "serves_properties": sorted(CHECKS),
                     "kind_free_text": "Go harness: generators + runtime monitors over the real hookaido packages (build tag verif), virtual clock, race detector, porcupine, child-process crash injection"}],
        "checks": checks,
        "not_applicable": na,
        "notes": "Exit codes: 0 held on everything explored, 1 violated (VIOLATION line + replay file), 2 inconclusive. known_findings.json lists recorded and fixed defects.",
    }
    json.dump(m, open(os.path.join(os.path.dirname(__file__), "MANIFEST.json"), "w"), indent=1)
    print("wrote MANIFEST.json with", len(checks), "checks")
main()
