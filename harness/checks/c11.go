package checks

import (
	"context"
	"encoding/base64"
	"fmt"
	"net"
	"os"
	"path/filepath"
	"strings"
	"time"

	"google.golang.org/grpc"
	"google.golang.org/grpc/codes"
	"google.golang.org/grpc/credentials/insecure"
	"google.golang.org/grpc/metadata"
	"google.golang.org/grpc/status"
	"google.golang.org/grpc/test/bufconn"
	"google.golang.org/protobuf/types/known/durationpb"

	"github.com/nuetzliches/hookaido/internal/queue"
	workerapipb "github.com/nuetzliches/hookaido/internal/workerapi/proto"
	"github.com/nuetzliches/hookaido/verifharness/l2"
	"github.com/nuetzliches/hookaido/verifharness/vlib"
)

type pullRouteRef struct {
	Route    string
	Endpoint string
	Tokens   []string // own tokens (override) or nil
}

type c11Cfg struct {
	Text   string
	Global []string
	Admin  []string
	Routes []pullRouteRef
}

func (c c11Cfg) allowlist(endpoint string) ([]string, bool) {
	for _, r := range c.Routes {
		if r.Endpoint == endpoint {
			if len(r.Tokens) > 0 {
				return r.Tokens, true
			}
			return c.Global, true
		}
	}
	return c.Global, false
}

func tokenRef(r *vlib.Rand, dir, tok string, i int) string {
	switch r.Intn(4) {
	case 0:
		name := fmt.Sprintf("VERIF_C11_TOK_%d_%x", i, r.U64()&0xffff)
		os.Setenv(name, tok)
		return "env:" + name
	case 1:
		p := filepath.Join(dir, fmt.Sprintf("tok-%d-%x", i, r.U64()&0xffffff))
		_ = os.WriteFile(p, []byte(tok+"\n"), 0o600)
		return "file:" + p
	}
	return "raw:" + tok
}

func c11Config(r *vlib.Rand, dir string, forceEmpty bool) c11Cfg {
	var cfg c11Cfg
	mkTok := func(tag string) string {
		t := fmt.Sprintf("%s-%x", tag, r.U64())
		// tokens of 63/64/65/100/300 bytes: comparison buffers, hash block sizes
		if r.Chance(0.35) {
			n := vlib.Pick(r, []int{63, 64, 65, 100, 300})
			for len(t) < n {
				t += fmt.Sprintf("%x", r.U64())
			}
			t = t[:n]
		}
		return t
	}
	nGlobal := r.Intn(4)
	if forceEmpty {
		nGlobal = 0
	}
	var b strings.Builder
	b.WriteString("ingress { listen 127.0.0.1:0 }\n")
	b.WriteString("pull_api { listen 127.0.0.2:0\n grpc_listen 127.0.0.4:0\n")
	if r.Chance(0.4) {
		b.WriteString(" prefix /pull\n")
	}
	for i := 0; i < nGlobal; i++ {
		t := mkTok("Gtok")
		cfg.Global = append(cfg.Global, t)
		fmt.Fprintf(&b, " auth token %s\n", l2.Quote(tokenRef(r, dir, t, i)))
	}
	b.WriteString("}\nadmin_api { listen 127.0.0.3:0\n")
	if r.Chance(0.4) {
		b.WriteString(" prefix /admin\n")
	}
	for i := 0; i < r.Intn(3); i++ {
		t := mkTok("Atok")
		cfg.Admin = append(cfg.Admin, t)
		fmt.Fprintf(&b, " auth token %s\n", l2.Quote(tokenRef(r, dir, t, 10+i)))
	}
	b.WriteString("}\n")
	n := r.Range(2, 4)
	for i := 0; i < n; i++ {
		rt := pullRouteRef{Route: fmt.Sprintf("/in%d", i), Endpoint: fmt.Sprintf("/e%d", i)}
		own := r.Intn(3)
		if nGlobal == 0 && !forceEmpty && own == 0 {
			own = 1
		}
		if forceEmpty && i > 0 {
			own = 1
		} else if forceEmpty {
			own = 0
		}
		// pull routes of the internal channel (job queues without ingress) carry the
		// same kind of pull block, own tokens included
		chanPrefix := ""
		if r.Chance(0.3) {
			chanPrefix = "internal "
		}
		fmt.Fprintf(&b, "%s%s {\n queue { backend memory }\n pull { path %s\n", chanPrefix, rt.Route, rt.Endpoint)
		for k := 0; k < own; k++ {
			t := mkTok(fmt.Sprintf("Rtok%d", i))
			rt.Tokens = append(rt.Tokens, t)
			fmt.Fprintf(&b, "  auth token %s\n", l2.Quote(tokenRef(r, dir, t, 20+i*3+k)))
		}
		b.WriteString(" } }\n")
		cfg.Routes = append(cfg.Routes, rt)
	}
	cfg.Text = b.String()
	return cfg
}

type cred struct {
	Name   string
	Values []string // Authorization header / metadata values (nil = absent)
	Token  string   // the bearer token a correct parser extracts ("" = none)
	// Ambiguous: scheme spelling on which HTTP and gRPC parsers legitimately differ
	Ambiguous bool
}

func c11Creds(r *vlib.Rand, valid []string, foreign []string) []cred {
	cs := []cred{{Name: "none"}, {Name: "empty", Values: []string{""}}, {Name: "bearer_alone", Values: []string{"Bearer"}}, {Name: "bearer_space", Values: []string{"Bearer "}},
		{Name: "garbage", Values: []string{"Token abc"}}}
	if len(valid) > 0 {
		v := vlib.Pick(r, valid)
		cs = append(cs,
			cred{Name: "valid", Values: []string{"Bearer " + v}, Token: v},
			cred{Name: "prefix", Values: []string{"Bearer " + v[:len(v)-1]}, Token: v[:len(v)-1]},
			cred{Name: "suffix", Values: []string{"Bearer " + v[1:]}, Token: v[1:]},
			cred{Name: "plus_one_char", Values: []string{"Bearer " + v + "x"}, Token: v + "x"},
			cred{Name: "case_variant", Values: []string{"Bearer " + strings.ToUpper(v)}, Token: strings.ToUpper(v)},
			cred{Name: "last_char_changed", Values: []string{"Bearer " + v[:len(v)-1] + "~"}, Token: v[:len(v)-1] + "~"},
			cred{Name: "first_char_changed", Values: []string{"Bearer ~" + v[1:]}, Token: "~" + v[1:]},
			cred{Name: "doubled", Values: []string{"Bearer " + v + v}, Token: v + v},
			cred{Name: "basic_scheme", Values: []string{"Basic " + base64.StdEncoding.EncodeToString([]byte(v+":"))}},
			cred{Name: "basic_with_token", Values: []string{"Basic " + v}},
			cred{Name: "lowercase_scheme", Values: []string{"bearer " + v}, Token: v, Ambiguous: true},
			cred{Name: "no_scheme", Values: []string{v}},
			cred{Name: "two_values_invalid_then_valid", Values: []string{"Bearer nope", "Bearer " + v}, Token: v, Ambiguous: true},
			cred{Name: "two_values_both_invalid", Values: []string{"Bearer nope", "Bearer " + v[:3]}},
			cred{Name: "token_with_nul", Values: []string{"Bearer " + v + "\x00"}, Token: v + "\x00"},
			// a valid token followed by more: the credential is the whole remainder
			cred{Name: "valid_then_space_and_more", Values: []string{"Bearer " + v + " x"}, Token: v + " x"},
			cred{Name: "valid_then_second_valid", Values: []string{"Bearer " + v + " " + v}, Token: v + " " + v},
			cred{Name: "valid_then_tab_and_more", Values: []string{"Bearer " + v + "\tsuffix"}, Token: v + "\tsuffix"},
			cred{Name: "valid_then_comma_and_more", Values: []string{"Bearer " + v + ", Bearer nope"}, Token: v + ", Bearer nope"},
		)
	}
	for _, f := range foreign {
		cs = append(cs, cred{Name: "foreign_token", Values: []string{"Bearer " + f}, Token: f})
	}
	return cs
}

func contains(xs []string, s string) bool {
	for _, x := range xs {
		if x == s {
			return true
		}
	}
	return false
}

// C11: Pull, Worker and Admin APIs act only for authorized callers.
// c11BlankSources: token references whose source resolves to nothing but white
// space (file with "\n", " \n", "\r\n", tabs; env var of blanks; empty file / env).
// Such a configuration declares tokens, so it compiles; whatever the process
// then does - refuse to start / refuse the reload, or run - a caller without
// a token must never be let in on the surface whose allowlist went blank.
func c11BlankSources(c *vlib.Ctx, dir string) {
	blanks := []string{"\n", " \n", "\r\n", "\t \n", "   ", ""}
	type variant struct{ surface, via, when string }
	var vs []variant
	for _, surface := range []string{"pull_global", "pull_route", "admin"} {
		for _, via := range []string{"file", "env"} {
			for _, when := range []string{"startup", "reload"} {
				vs = append(vs, variant{surface, via, when})
			}
		}
	}
	for vi, v := range vs {
		for bi, blank := range blanks {
			if !c.Thorough() && (vi+bi)%3 != 0 {
				continue
			}
			r := vlib.Derive(c.Seed, "C11blank", vi, bi)
			mkRef := func(tag, content string) (string, func(string)) {
				if v.via == "file" {
					p := filepath.Join(dir, fmt.Sprintf("blank-%s-%d-%d-%x", tag, vi, bi, r.U64()&0xffff))
					_ = os.WriteFile(p, []byte(content), 0o600)
					return "file:" + p, func(nc string) { _ = os.WriteFile(p, []byte(nc), 0o600) }
				}
				name := fmt.Sprintf("VERIF_C11_BLANK_%s_%d_%d", strings.ToUpper(tag), vi, bi)
				os.Setenv(name, content)
				return "env:" + name, func(nc string) { os.Setenv(name, nc) }
			}
			first := "good-" + fmt.Sprint(vi, bi)
			if v.when == "startup" {
				first = blank
			}
			ref, set := mkRef(v.surface, first)
			other := "raw:othertok"
			gl, rtTok, adm := other, "", other
			switch v.surface {
			case "pull_global":
				gl = ref
			case "pull_route":
				rtTok = ref
			case "admin":
				adm = ref
			}
			var b strings.Builder
			fmt.Fprintf(&b, "ingress { listen 127.0.0.1:0 }\npull_api { listen 127.0.0.2:0\n grpc_listen 127.0.0.4:0\n auth token %s\n}\nadmin_api { listen 127.0.0.3:0\n auth token %s\n}\n", l2.Quote(gl), l2.Quote(adm))
			fmt.Fprintf(&b, "/in0 {\n queue { backend memory }\n pull { path /e0\n")
			if rtTok != "" {
				fmt.Fprintf(&b, "  auth token %s\n", l2.Quote(rtTok))
			}
			b.WriteString(" } }\n")
			a, err := l2.Start(dir, b.String(), nil, vlib.NewVClock(vlib.Epoch))
			c.Count("evaluations", 1)
			c.Count("blank_source_trials", 1)
			outcome := "started"
			if err != nil {
				outcome = "refused_to_start"
			}
			if err == nil && v.when == "reload" {
				set(blank)
				if a.Reload() {
					outcome = "reload_applied"
				} else {
					outcome = "reload_refused"
				}
			}
			c.Distinct("nontrivial", fmt.Sprintf("blank_source:%s:%s:%s:%q:%s", v.surface, v.via, v.when, blank, outcome))
			if err != nil {
				continue // refusing the configuration is fine
			}
			_ = a.Store.Enqueue(queue.Envelope{ID: "b1", Route: "/in0", Target: "pull", Payload: []byte("p")})
			wit := map[string]any{"surface": v.surface, "via": v.via, "when": v.when, "blank_content": blank, "outcome": outcome, "config": b.String()}
			for _, values := range [][]string{nil, {""}, {"Bearer "}, {"Bearer"}, {"Bearer  "}, {"garbage"}} {
				var status int
				switch v.surface {
				case "admin":
					req := l2.JSONReq("GET", a.Compiled.AdminAPI.Prefix+"/messages", nil, "")
					req.Header.Del("Authorization")
					for _, hv := range values {
						req.Header.Add("Authorization", hv)
					}
					status = l2.Do(a.Admin, req).Status
				default:
					req := l2.JSONReq("POST", a.Compiled.PullAPI.Prefix+"/e0/dequeue", map[string]any{"batch": 1}, "")
					req.Header.Del("Authorization")
					for _, hv := range values {
						req.Header.Add("Authorization", hv)
					}
					status = l2.Do(a.Pull, req).Status
				}
				if status != 401 {
					c.Violation(vlib.Signature{"class": "blank_token_source_opens_surface", "surface": v.surface, "via": v.via, "when": v.when},
						fmt.Sprintf("%s allowlist whose only token comes from a %s holding %q (%s, %s): a request with Authorization %q was answered %d, not 401", v.surface, v.via, blank, v.when, outcome, values, status), wit)
					break
				}
			}
			a.Close()
		}
	}
}

func C11(c *vlib.Ctx) {
	c.Rule("generated configurations (0-3 global pull tokens, 2-4 pull routes with 0-2 own tokens, 0-2 admin tokens as raw:/env:/file: refs) run through the production wiring; the queue is pre-loaded with ready and leased messages whose lease ids the caller knows; every endpoint x {dequeue, ack, nack, extend} over HTTP and gRPC and every Admin endpoint/method pair (incl. /healthz, mutations and unknown paths) is called with each credential variant (absent, empty, scheme alone, valid, prefix/suffix/+1 char/case variant, another route's token, the global token on an override route, Basic, no scheme, two values, NUL, a valid token followed by blank/tab/comma and more). Independent allowlist oracle: not authorized => 401/Unauthenticated and snapshot unchanged; authorized => not 401 (vacuity guard). Configurations with a pull route lacking any token must not compile. Concurrency: four callers with the valid token next to twelve with same-length near-miss tokens on the global allowlist, a route allowlist and the Admin API - every near-miss request must be answered 401. Every third configuration is probed again after a reload the process must refuse (ingress listener moved) whose file carries another token layout (all tokens replaced, or another generated layout, possibly without admin tokens): the allowlists of the running configuration stay in force and the refused file's tokens are tried as foreign ones. distinct_nontrivial = distinct (surface, operation, credential variant, authorized, outcome) classes.")
	c.Assume("lower-case scheme spelling and a valid token in a second header value are treated as ambiguous (either answer accepted); whitespace-only variations of a valid header are not generated")
	dir := c.Scratch()
	c11BlankSources(c, dir)
	c11Concurrent(c, dir)
	c11ReloadRemovedRoute(c, dir)
	nCfg := c.N(36, 5000)
	authorizedSeen := 0
	for ci := 0; ci < nCfg; ci++ {
		r := vlib.Derive(c.Seed, "C11", ci)
		forceEmpty := ci%9 == 8
		cfg := c11Config(r, dir, forceEmpty)
		clock := vlib.NewVClock(vlib.Epoch)
		a, err := l2.Start(dir, cfg.Text, nil, clock)
		if forceEmpty {
			c.Count("evaluations", 1)
			c.Distinct("nontrivial", fmt.Sprintf("empty_allowlist_config:compiles=%v", err == nil))
			if err == nil {
				// compiled although /in0 has no effective token: then it must at least not be open
				c.Violation(vlib.Signature{"class": "pull_route_without_tokens_compiles"}, "a configuration whose pull route has neither own nor global tokens was accepted", map[string]any{"config": cfg.Text})
				a.Close()
			}
			continue
		}
		if err != nil {
			c.Inconclusive("C11 config did not start: " + err.Error() + "\n" + cfg.Text)
			return
		}
		// gRPC over bufconn on the production server object
		var gc workerapipb.WorkerServiceClient
		var closeG func()
		if a.GRPC != nil {
			ln := bufconn.Listen(1 << 20)
			go func() { _ = a.GRPC.Serve(ln) }()
			conn, err := grpc.NewClient("passthrough:///buf", grpc.WithContextDialer(func(ctx context.Context, _ string) (net.Conn, error) { return ln.DialContext(ctx) }), grpc.WithTransportCredentials(insecure.NewCredentials()))
			if err == nil {
				gc = workerapipb.NewWorkerServiceClient(conn)
				closeG = func() { _ = conn.Close(); _ = ln.Close() }
			}
		}
		if gc == nil {
			c.Inconclusive("C11: no gRPC server in the production wiring")
			a.Close()
			return
		}
		// pre-load: per route 3 messages, one leased with a lease id the caller knows
		known := map[string]string{}
		for _, rt := range cfg.Routes {
			for k := 0; k < 3; k++ {
				_ = a.Store.Enqueue(queue.Envelope{ID: fmt.Sprintf("%s-m%d", rt.Route[1:], k), Route: rt.Route, Target: "pull", Payload: []byte("p")})
			}
			resp, _ := a.Store.Dequeue(queue.DequeueRequest{Route: rt.Route, Target: "pull", Batch: 1, LeaseTTL: time.Hour})
			if len(resp.Items) == 1 {
				known[rt.Endpoint] = resp.Items[0].LeaseID
			}
		}
		_ = a.Store.Enqueue(queue.Envelope{ID: "deadone", Route: cfg.Routes[0].Route, Target: "pull", State: queue.StateDead, DeadReason: "x"})
		snap := func() vlib.Snapshot {
			items, _ := vlib.ListAll(a.Store)
			s := vlib.Snapshot{}
			for _, it := range items {
				s[it.ID] = vlib.RowFromEnvelope(it, true)
			}
			return s
		}
		check := func(surface, op, credName string, authorized, ambiguous bool, unauth bool, before vlib.Snapshot, wit map[string]any) {
			after := snap()
			add, rem, chg := vlib.Diff(before, after)
			changed := len(add)+len(rem)+len(chg) > 0
			c.Count("evaluations", 1)
			c.Distinct("nontrivial", fmt.Sprintf("%s:%s:%s:auth=%v:unauth=%v:changed=%v", surface, op, credName, authorized, unauth, changed))
			if authorized && !ambiguous {
				authorizedSeen++
			}
			if ambiguous {
				if unauth && changed {
					c.Violation(vlib.Signature{"class": "rejected_but_changed", "surface": surface}, "request answered 401 but the queue changed", wit)
				}
				return
			}
			if !authorized && !unauth {
				c.Violation(vlib.Signature{"class": "unauthorized_not_rejected", "surface": surface, "op": op, "credential": credName},
					fmt.Sprintf("%s %s with credential %q is not authorized but was not answered 401/Unauthenticated (changed=%v)", surface, op, credName, changed), wit)
			}
			if !authorized && changed {
				c.Violation(vlib.Signature{"class": "unauthorized_changed_state", "surface": surface, "op": op, "credential": credName},
					fmt.Sprintf("%s %s with credential %q changed the queue: added=%v removed=%v changed=%v", surface, op, credName, add, rem, chg), wit)
			}
			if authorized && unauth {
				c.Violation(vlib.Signature{"class": "authorized_rejected", "surface": surface, "op": op, "credential": credName},
					fmt.Sprintf("%s %s with a valid token of the addressed endpoint was answered 401", surface, op), wit)
			}
		}
		// Every third configuration is probed a second time after a reload that the
		// process must refuse (the new file moves the ingress listener: restart
		// required) and that carries a different token layout: other tokens, other
		// overrides, possibly no admin tokens. The allowlists in force stay those of
		// the running configuration.
		phases := 1
		if ci%3 == 1 {
			phases = 2
		}
		var rejectedTokens []string
		for phase := 0; phase < phases; phase++ {
			if phase == 1 {
				alt := c11Config(vlib.Derive(c.Seed, "C11alt", ci), dir, false)
				if ci%2 == 1 {
					// same routes and endpoints as the running file, every token replaced
					alt = c11Cfg{Text: cfg.Text}
					for _, lst := range [][]string{cfg.Global, cfg.Admin} {
						for _, t := range lst {
							alt.Text = strings.ReplaceAll(alt.Text, "raw:"+t, "raw:rejected-"+t)
							alt.Global = append(alt.Global, "rejected-"+t)
						}
					}
					for _, rt := range cfg.Routes {
						for _, t := range rt.Tokens {
							alt.Text = strings.ReplaceAll(alt.Text, "raw:"+t, "raw:rejected-"+t)
							alt.Global = append(alt.Global, "rejected-"+t)
						}
					}
				}
				altText := strings.Replace(alt.Text, "ingress { listen 127.0.0.1:0 }", "ingress { listen 127.0.0.9:0 }", 1)
				_ = a.WriteConfig(altText)
				applied := a.Reload()
				c.Count("refused_reload_phases", 1)
				c.Distinct("nontrivial", fmt.Sprintf("refused_reload_phase:applied=%v:alt_admin_tokens=%d:alt_global_tokens=%d", applied, len(alt.Admin), len(alt.Global)))
				if applied {
					c.Violation(vlib.Signature{"class": "restart_required_reload_applied"}, "a reload that moves the ingress listener was reported as applied", map[string]any{"running": cfg.Text, "new_file": altText})
					break
				}
				rejectedTokens = append(append([]string{}, alt.Global...), alt.Admin...)
				for _, rt := range alt.Routes {
					rejectedTokens = append(rejectedTokens, rt.Tokens...)
				}
			}
			// ---- Pull HTTP + gRPC ----
			endpoints := append([]pullRouteRef{}, cfg.Routes...)
			endpoints = append(endpoints, pullRouteRef{Endpoint: "/unknown"})
			for _, ep := range endpoints {
				allow, configured := cfg.allowlist(ep.Endpoint)
				var foreign []string
				for _, other := range cfg.Routes {
					if other.Endpoint != ep.Endpoint {
						foreign = append(foreign, other.Tokens...)
					}
				}
				if len(ep.Tokens) > 0 {
					foreign = append(foreign, cfg.Global...) // the global token on an override route
				}
				for _, t := range rejectedTokens { // tokens that exist only in the refused file
					if !contains(allow, t) {
						foreign = append(foreign, t)
					}
				}
				for _, cr := range c11Creds(r, allow, foreign) {
					authorized := cr.Token != "" && contains(allow, cr.Token)
					if len(allow) == 0 {
						authorized = true // nothing configured for an unknown endpoint without global tokens
					}
					for _, op := range []string{"dequeue", "ack", "nack", "extend"} {
						lease := known[ep.Endpoint]
						if lease == "" {
							lease = "lease_none"
						}
						body := map[string]any{}
						switch op {
						case "dequeue":
							body["batch"] = 2
						case "ack", "nack":
							body["lease_id"] = lease
						case "extend":
							body["lease_id"], body["extend_by"] = lease, "1m"
						}
						pp := a.Compiled.PullAPI.Prefix
						target := pp + ep.Endpoint + "/" + op
						if r.Chance(0.1) && len(cfg.Routes) > 1 {
							target = pp + cfg.Routes[(ci+1)%len(cfg.Routes)].Endpoint + "/.." + ep.Endpoint + "/" + op // dot-segment detour
						}
						if r.Chance(0.25) {
							// non-canonical spellings that clean to the same endpoint/operation: the
							// handler and the authorizer must agree on which endpoint is addressed
							switch r.Intn(5) {
							case 0:
								target += "/"
							case 1:
								target += "/."
							case 2:
								target += "/x/.."
							case 3:
								target = pp + ep.Endpoint + "//" + op
							case 4:
								target = pp + ep.Endpoint + "/./" + op + "/"
							}
						}
						wit := map[string]any{"config": cfg.Text, "target": target, "credential": cr.Name, "values": cr.Values, "endpoint_configured": configured}
						if cr.Name == "token_with_nul" {
							// not representable on the HTTP/2 wire the same way; HTTP only
						}
						// HTTP
						before := snap()
						req := l2.JSONReq("POST", target, body, "")
						req.Header.Del("Authorization")
						for _, v := range cr.Values {
							req.Header.Add("Authorization", v)
						}
						resp := l2.Do(a.Pull, req)
						wit["status"] = resp.Status
						check("pull_http", op, cr.Name, authorized, cr.Ambiguous, resp.Status == 401, before, wit)
						if authorized && !cr.Ambiguous && op != "dequeue" {
							// restore the lease for the next probes (an authorized ack/nack consumed it)
							if resp2, _ := a.Store.Dequeue(queue.DequeueRequest{Route: ep.Route, Target: "pull", Batch: 1, LeaseTTL: time.Hour}); len(resp2.Items) == 1 {
								known[ep.Endpoint] = resp2.Items[0].LeaseID
								lease = resp2.Items[0].LeaseID
							}
						}
						// gRPC
						if cr.Name == "token_with_nul" || cr.Name == "valid_then_tab_and_more" {
							continue
						}
						ctx := context.Background()
						if cr.Values != nil {
							md := metadata.MD{}
							for _, v := range cr.Values {
								md.Append("authorization", v)
							}
							ctx = metadata.NewOutgoingContext(ctx, md)
						}
						before = snap()
						var gerr error
						switch op {
						case "dequeue":
							_, gerr = gc.Dequeue(ctx, &workerapipb.DequeueRequest{Endpoint: ep.Endpoint, Batch: 2})
						case "ack":
							_, gerr = gc.Ack(ctx, &workerapipb.AckRequest{Endpoint: ep.Endpoint, LeaseId: lease})
						case "nack":
							_, gerr = gc.Nack(ctx, &workerapipb.NackRequest{Endpoint: ep.Endpoint, LeaseId: lease})
						case "extend":
							_, gerr = gc.Extend(ctx, &workerapipb.ExtendRequest{Endpoint: ep.Endpoint, LeaseId: lease, ExtendBy: durationpb.New(time.Minute)})
						}
						wit2 := map[string]any{"config": cfg.Text, "endpoint": ep.Endpoint, "credential": cr.Name, "values": cr.Values, "grpc_code": status.Code(gerr).String()}
						check("worker_grpc", op, cr.Name, authorized, cr.Ambiguous, status.Code(gerr) == codes.Unauthenticated, before, wit2)
						if authorized && !cr.Ambiguous && op != "dequeue" {
							if resp2, _ := a.Store.Dequeue(queue.DequeueRequest{Route: ep.Route, Target: "pull", Batch: 1, LeaseTTL: time.Hour}); len(resp2.Items) == 1 {
								known[ep.Endpoint] = resp2.Items[0].LeaseID
							}
						}
					}
				}
			}
			// ---- Admin ----
			type adminCall struct {
				method, target string
				body           any
			}
			calls := []adminCall{
				{"GET", "/admin/healthz", nil}, {"GET", "/admin/messages", nil}, {"GET", "/admin/dlq", nil}, {"GET", "/admin/backlog/top_queued", nil},
				{"GET", "/admin/backlog/trends", nil}, {"GET", "/admin/attempts", nil}, {"GET", "/admin/nope", nil}, {"POST", "/admin/healthz", nil},
				{"POST", "/admin/dlq/requeue", map[string]any{"ids": []string{"deadone"}}},
				{"POST", "/admin/dlq/delete", map[string]any{"ids": []string{"deadone"}}},
				{"POST", "/admin/messages/cancel", map[string]any{"ids": []string{cfg.Routes[0].Route[1:] + "-m1"}}},
				{"POST", "/admin/messages/cancel_by_filter", map[string]any{"route": cfg.Routes[0].Route, "limit": 10}},
				{"POST", "/admin/messages/publish", map[string]any{"items": []map[string]any{{"id": "pub1", "route": cfg.Routes[0].Route, "payload_b64": "eA=="}}}},
				{"GET", "/admin/applications/app/endpoints", nil},
				{"DELETE", "/admin/applications/app/endpoints/ep", nil},
			}
			prefix := a.Compiled.AdminAPI.Prefix
			adminForeign := append(append([]string{}, cfg.Global...), cfg.Routes[0].Tokens...)
			for _, t := range rejectedTokens {
				if !contains(cfg.Admin, t) {
					adminForeign = append(adminForeign, t)
				}
			}
			for _, cr := range c11Creds(r, cfg.Admin, adminForeign) {
				authorized := len(cfg.Admin) == 0 || (cr.Token != "" && contains(cfg.Admin, cr.Token))
				for _, call := range calls {
					target := prefix + strings.TrimPrefix(call.target, "/admin")
					before := snap()
					req := l2.JSONReq(call.method, target, call.body, "")
					for _, v := range cr.Values {
						req.Header.Add("Authorization", v)
					}
					req.Header.Set("X-Hookaido-Audit-Reason", "verif")
					resp := l2.Do(a.Admin, req)
					wit := map[string]any{"config": cfg.Text, "method": call.method, "target": target, "credential": cr.Name, "values": cr.Values, "status": resp.Status}
					amb := cr.Ambiguous
					if len(cfg.Admin) == 0 {
						amb = false
					}
					if authorized || amb {
						// an authorized admin call may legitimately change the queue; only the 401 clause matters
						c.Count("evaluations", 1)
						c.Distinct("nontrivial", fmt.Sprintf("admin:%s %s:%s:auth=true:%d", call.method, call.target, cr.Name, resp.Status))
						if !amb && resp.Status == 401 {
							c.Violation(vlib.Signature{"class": "authorized_rejected", "surface": "admin", "op": call.method + " " + call.target, "credential": cr.Name}, "admin call with a valid admin token answered 401", wit)
						}
						if !amb {
							authorizedSeen++
						}
						continue
					}
					check("admin", call.method+" "+call.target, cr.Name, false, false, resp.Status == 401, before, wit)
				}
			}
		} // phases
		if ci < 2 {
			c.Sample(map[string]any{"config": cfg.Text, "known_leases": known})
		}
		if closeG != nil {
			closeG()
		}
		a.Close()
	}
	if authorizedSeen == 0 {
		c.Inconclusive("C11: no authorized request observed (vacuous run)")
	}
}
