package checks

import (
	"fmt"
	"os"

	"github.com/nuetzliches/hookaido/verifharness/storecheck"
	"github.com/nuetzliches/hookaido/verifharness/vlib"
)

// c12Store is the store-level part of C12: admission reference model plus
// "every refusal leaves the queue exactly as it was".
func c12Store(c *vlib.Ctx) {
	remap := func(o storecheck.Obs) storecheck.Obs {
		if o.Prop == "C02" && (o.Sig["op"] == "enqueue" || o.Sig["op"] == "enqueue_batch") {
			o.Prop = "C12"
		}
		return o
	}
	var cfgs []vlib.StoreCfg
	for _, depth := range []int{1, 2, 3, 5, 8} {
		for _, pol := range []string{"reject", "drop_oldest"} {
			cfgs = append(cfgs, vlib.StoreCfg{MaxDepth: depth, DropPolicy: pol})
		}
	}
	// memory pressure: retained (dead/canceled/delivered) items reach a lowered limit
	pressure := []vlib.StoreCfg{
		{MaxDepth: 3, DropPolicy: "drop_oldest", PressureItems: 2},
		{MaxDepth: 4, DropPolicy: "reject", PressureItems: 1},
		{MaxDepth: 0, PressureItems: 2},
	}
	w := map[storecheck.Kind]int{
		storecheck.KEnqueue: 26, storecheck.KEnqueueBatch: 12, storecheck.KDequeue: 12, storecheck.KAck: 6, storecheck.KNack: 3,
		storecheck.KDead: 3, storecheck.KAckBatch: 2, storecheck.KCancel: 2, storecheck.KRequeue: 2, storecheck.KResume: 1,
		storecheck.KDeleteDead: 1, storecheck.KAdvance: 8, storecheck.KStats: 1,
	}
	for _, d := range storecheck.DirectedScenarios() {
		for _, be := range []string{"memory", "sqlite"} {
			if d.MemoryOnly && be != "memory" {
				continue
			}
			storecheck.RunSequence(c, vlib.Derive(c.Seed, "C12d", d.Name, be), storecheck.RunCfg{
				Backends: []string{be}, Store: d.Cfg, Script: d.Script, Label: "C12/directed/" + be + "/" + d.Name,
				Props: map[string]bool{"C12": true}, Remap: remap, PredictAdmission: d.Cfg.RetentionMaxAge == 0 && d.Cfg.DLQMaxDepth == 0,
			})
		}
	}
	// long histories of accepted enqueues each followed by a refused one
	for _, depth := range []int{1, 3, 7} {
		sc := vlib.StoreCfg{MaxDepth: depth, DropPolicy: "drop_oldest"}
		n := c.N(1300, 4200)
		for _, be := range []string{"memory", "sqlite"} {
			if be == "sqlite" && (depth != 3 || !c.Thorough()) {
				continue
			}
			storecheck.RunSequence(c, vlib.Derive(c.Seed, "C12long", be, depth), storecheck.RunCfg{
				Backends: []string{be}, Store: sc, Script: storecheck.LongRefusalScript(n, depth), Label: fmt.Sprintf("C12/long-refusals/%s/depth%d", be, depth),
				Props: map[string]bool{"C12": true}, Remap: remap, PredictAdmission: true,
			})
		}
	}
	seqs := c.N(14, 300)
	for _, be := range []string{"memory", "sqlite"} {
		all := cfgs
		if be == "memory" {
			all = append(append([]vlib.StoreCfg{}, cfgs...), pressure...)
		}
		for ci, sc := range all {
			for s := 0; s < seqs; s++ {
				r := vlib.Derive(c.Seed, "C12", be, ci, s)
				g := storecheck.GenCfg{NIDs: r.Range(4, 16), Routes: stdRoutes, Targets: stdTargets, GeneratedIDs: true, Weights: w}
				storecheck.RunSequence(c, r, storecheck.RunCfg{
					Backends: []string{be}, Store: sc, Gen: g, Steps: r.Range(40, 90),
					Label: fmt.Sprintf("C12/%s/cfg%d/seq%d", be, ci, s),
					Props: map[string]bool{"C12": true}, Remap: remap, PredictAdmission: true,
				})
			}
		}
	}
}

// C12: admission limits (depth, drop policy, size limits, rate limit).
func C12(c *vlib.Ctx) {
	c.Rule("store part: generated enqueue-heavy sequences on memory and SQLite for max_depth 1..8 x reject/drop_oldest (+ lowered memory-pressure limits on memory); an independent admission model predicts admit/refuse and the exact evicted set from the snapshot before each enqueue, and every refusal must leave the snapshot unchanged; long histories (1300+ accepted enqueues on a full drop_oldest queue, each followed by a duplicate-id or cannot-fit enqueue that is refused after the store has looked for victims); racing producers: rounds of fill / one refusal / k slots freed by ack, dead-letter or cancel / 4-12 producers released together (single and batch enqueues), at every quiescent point active <= max_depth, under reject at most k admitted, refusals are queue_full and store nothing; reload part: queue_limits edited (policy flipped, depth raised / lowered / introduced / removed) and reloaded through the production wiring - ten requests into the empty queue must be answered and kept as after a fresh start of the configuration the process reports as running. ingress part: body/header sizes around max_body/max_headers through the production ingress handler and arrival sequences through the production token-bucket limiter under a virtual clock. distinct_nontrivial = distinct (backend, operation, result class, observed transitions) tuples plus distinct limiter/size classes.")
	c.Assume("received_at strictly increasing in enqueue order (the generator never sets out-of-order values here), retention off, so 'oldest' and the active count are unambiguous")
	c.Assume("states with active > max_depth (after operator requeue/resume) are skipped as the quantifier says")
	if os.Getenv("VERIF_PART") == "concurrent" {
		// thorough tier, second pass under the race detector: same-instant concurrency at the limiter
		c12Ingress(c)
		c.CollectRaces()
		return
	}
	c12Store(c)
	c12DepthConcurrent(c)
	c12LimitsReload(c)
	c12Ingress(c)
}
