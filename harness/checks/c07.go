package checks

import (
	"bufio"
	"bytes"
	"context"
	"crypto/sha256"
	"encoding/base64"
	"encoding/hex"
	"encoding/json"
	"fmt"
	"io"
	"net"
	"net/http"
	"net/http/httptest"
	"sort"
	"strings"
	"sync"
	"time"

	"google.golang.org/grpc"
	"google.golang.org/grpc/credentials/insecure"
	"google.golang.org/grpc/metadata"
	"google.golang.org/grpc/test/bufconn"
	"google.golang.org/protobuf/types/known/durationpb"

	workerapipb "github.com/nuetzliches/hookaido/internal/workerapi/proto"
	"github.com/nuetzliches/hookaido/verifharness/l2"
	"github.com/nuetzliches/hookaido/verifharness/vlib"
)

// canonName: independent header-name canonicaliser (token characters only are generated).
func canonName(s string) string {
	b := []byte(strings.ToLower(s))
	up := true
	for i, ch := range b {
		if up && ch >= 'a' && ch <= 'z' {
			b[i] = ch - 32
		}
		up = ch == '-'
	}
	return string(b)
}

type wireHeader struct{ Name, Value string }

// expectedStored: canonical name -> values joined with "," ; Authorization,
// Proxy-Authorization and Cookie never stored.
func expectedStored(hs []wireHeader, extra map[string]string) map[string]string {
	out := map[string]string{}
	order := map[string][]string{}
	for _, h := range hs {
		n := canonName(h.Name)
		switch strings.ToLower(n) {
		case "authorization", "proxy-authorization", "cookie":
			continue
		}
		order[n] = append(order[n], strings.Trim(h.Value, " \t"))
	}
	for n, vs := range order {
		out[n] = strings.Join(vs, ",")
	}
	for k, v := range extra {
		out[canonName(k)] = v
	}
	return out
}

var goManaged = map[string]bool{"Host": true, "Content-Length": true, "Transfer-Encoding": true, "Connection": true, "User-Agent": true, "Accept-Encoding": true}

func cmpHeaders(want, got map[string]string) string {
	var diffs []string
	for k, v := range want {
		if goManaged[k] {
			continue
		}
		if gv, ok := got[k]; !ok {
			diffs = append(diffs, fmt.Sprintf("missing %s", k))
		} else if gv != v {
			diffs = append(diffs, fmt.Sprintf("%s: %q != %q", k, gv, v))
		}
	}
	for k := range got {
		if goManaged[k] {
			continue
		}
		if _, ok := want[k]; !ok {
			diffs = append(diffs, fmt.Sprintf("unexpected %s=%q", k, got[k]))
		}
	}
	sort.Strings(diffs)
	return strings.Join(diffs, "; ")
}

// c07Marker identifies a consumed message: header-less messages carry their
// marker in the payload ("nohdr:<marker>:..."), all others in X-Verif-Marker.
func c07Marker(h map[string]string, payload []byte) string {
	if bytes.HasPrefix(payload, []byte("nohdr:")) {
		if parts := bytes.SplitN(payload, []byte(":"), 3); len(parts) == 3 {
			return string(parts[1])
		}
	}
	return h["X-Verif-Marker"]
}

func shaHex(b []byte) string {
	s := sha256.Sum256(b)
	return hex.EncodeToString(s[:])
}

// rawPost writes an HTTP/1.1 request byte by byte so that repeated headers, odd
// casing and exact values are under the harness's control.
func rawPost(addr, target string, hs []wireHeader, body []byte, chunks ...int) (int, error) {
	conn, err := net.DialTimeout("tcp", addr, 2*time.Second)
	if err != nil {
		return 0, err
	}
	defer conn.Close()
	_ = conn.SetDeadline(time.Now().Add(10 * time.Second))
	var b bytes.Buffer
	if len(chunks) > 0 {
		// no declared length: chunked transfer coding with the given chunk sizes (cycled)
		fmt.Fprintf(&b, "POST %s HTTP/1.1\r\nHost: hookaido.test\r\nTransfer-Encoding: chunked\r\nConnection: close\r\n", target)
	} else {
		fmt.Fprintf(&b, "POST %s HTTP/1.1\r\nHost: hookaido.test\r\nContent-Length: %d\r\nConnection: close\r\n", target, len(body))
	}
	for _, h := range hs {
		fmt.Fprintf(&b, "%s: %s\r\n", h.Name, h.Value)
	}
	b.WriteString("\r\n")
	if len(chunks) > 0 {
		rest := body
		for i := 0; len(rest) > 0; i++ {
			n := chunks[i%len(chunks)]
			if n < 1 {
				n = 1
			}
			if n > len(rest) {
				n = len(rest)
			}
			fmt.Fprintf(&b, "%x\r\n", n)
			b.Write(rest[:n])
			b.WriteString("\r\n")
			rest = rest[n:]
		}
		b.WriteString("0\r\n\r\n")
	} else {
		b.Write(body)
	}
	if _, err := conn.Write(b.Bytes()); err != nil {
		// the server may already have answered 413 and closed
	}
	resp, err := http.ReadResponse(bufio.NewReader(conn), nil)
	if err != nil {
		return 0, err
	}
	_, _ = io.Copy(io.Discard, resp.Body)
	resp.Body.Close()
	return resp.StatusCode, nil
}

var c07Names = []string{"X-Event", "x-lower-case", "X-MIXED-Case", "Content-Type", "X-Request-Id", "Accept", "X-A", "x-b-c-d", "X_Under", "X.Dot", "Authorization", "Proxy-Authorization", "Cookie", "COOKIE", "authorization", "X-Forwarded-For", "Traceparent"}
var c07Values = []string{"push", "a b c", "a,b", "a, b", "ünïcödé ✓", "  padded  ", "x=1; y=2", "\"quoted\"", "0", "", "Bearer secret-token", "very-long-" + "vvvvvvvvvvvvvvvvvvvvvvvvvvvvvvvvvvvvvvvvvvvvvvvvvvvv",
	// valid UTF-8 that generic encoders treat specially: supplementary-plane tag / private-use /
	// unassigned code points, emoji, CJK Ext. B, zero-width and bidi controls, line separators, backslashes
	"tag-\U000e0001-x", "pua-\U000f0000\U0010fffd", "unassigned-\U0003fffd", "emoji-\U0001F600\u200d\U0001F525", "cjk-\U00020000", "zw-\u200b\ufeff\u00ad", "bidi-\u202e\u2066", "ls-\u2028\u2029\u0085",
	"back\\slash\\u0041", "html-<&>'", "nbsp-\u00a0", "\u00ff\u00fe-latin1"}

func genHeaders(r *vlib.Rand) []wireHeader {
	n := r.Range(0, 20)
	var hs []wireHeader
	if r.Chance(0.2) {
		hs = append(hs, wireHeader{Name: "Content-Type", Value: vlib.Pick(r, []string{"application/x-www-form-urlencoded", "multipart/form-data; boundary=xyz"})})
	}
	for i := 0; i < n; i++ {
		h := wireHeader{Name: vlib.Pick(r, c07Names), Value: vlib.Pick(r, c07Values)}
		if h.Name == "Content-Type" {
			// media types a server-side helper might want to parse: the body stays opaque
			h.Value = vlib.Pick(r, []string{"application/json", "application/json", "application/x-www-form-urlencoded", "application/x-www-form-urlencoded; charset=utf-8", "multipart/form-data; boundary=xyz", "text/plain", "application/xml", "APPLICATION/X-WWW-FORM-URLENCODED"})
		}
		hs = append(hs, h)
		if r.Chance(0.25) { // repeated header, maybe in another casing
			for k := 0; k < r.Range(1, 2); k++ {
				hs = append(hs, wireHeader{Name: vlib.Pick(r, []string{h.Name, strings.ToUpper(h.Name), strings.ToLower(h.Name)}), Value: vlib.Pick(r, c07Values)})
			}
		}
	}
	return hs
}

func genBody(r *vlib.Rand, maxBody int) []byte {
	switch r.Intn(11) {
	case 0:
		return []byte{}
	case 1:
		return []byte{0}
	case 2:
		b := make([]byte, 256)
		for i := range b {
			b[i] = byte(i)
		}
		return b
	case 3:
		return bytes.Repeat([]byte{0}, r.Range(1, 300))
	case 4:
		return []byte{0xff, 0xfe, 0xc3, 0x28, 0xa0, 0xa1, 0xe2, 0x28, 0xa1}
	case 5:
		return r.Bytes(maxBody)
	case 6:
		return r.Bytes(maxBody - 1)
	case 7:
		return []byte(`{"json":"body","n":1,"nested":{"a":[1,2,3]}}`)
	case 8:
		return []byte("line1\r\nline2\n\ttabbed  trailing   \n\n")
	case 9:
		return []byte(vlib.Pick(r, []string{"a=1&b=two+words&c=%zz&a=3", "payload=%7B%22x%22%3A1%7D&sig=abc", "--xyz\r\nContent-Disposition: form-data; name=\"f\"\r\n\r\nv\r\n--xyz--\r\n", "&&&===;;;"}))
	}
	return r.Bytes(r.Range(1, minInt(maxBody, 5000)))
}

type sinkRec struct {
	Body   []byte
	Header http.Header
}

// C07: end-to-end payload and header fidelity.
func C07(c *vlib.Ctx) {
	c.Rule("bodies (empty, 1 byte, all 256 byte values, NUL runs, invalid UTF-8, CR/LF, random; sizes max_body-1, max_body, max_body+1 with max_body 1KiB-256KiB and one case at the 2MiB default) and header sets (0-20 names in mixed case, repeated up to 3x, values with spaces, commas, non-ASCII, padding; Authorization/Proxy-Authorization/Cookie in several casings) are written byte by byte over TCP to the production ingress handler; every accepted message is consumed through Pull HTTP (payload_b64), Worker gRPC (bytes), the Admin listing and push delivery to a local sink, nacked and re-consumed 1-3 times, and (SQLite) consumed again after the store was closed and reopened. Oracle: sha256/byte equality of the payload; stored headers = canonical name -> values joined with ',' (re-implemented), plus forward-auth copy_headers; the three credential headers never stored or passed on. Admin publish items (payload_b64) take the same consumer paths. distinct_nontrivial = distinct (backend, body class, size class, header-shape class, consumer, redelivery count) classes.")
	c.Assume("Host, Content-Length, Transfer-Encoding, Connection, User-Agent and Accept-Encoding are excluded from the header comparison (managed by the HTTP stacks on either side)")
	dir := c.Scratch()
	// sink for push deliveries; answers 500 for the first k deliveries of a marker
	var smu sync.Mutex
	sinkGot := map[string][]sinkRec{}
	failFirst := map[string]int{}
	sink := httptest.NewServer(http.HandlerFunc(func(w http.ResponseWriter, r *http.Request) {
		b, _ := io.ReadAll(r.Body)
		marker := c07Marker(map[string]string{"X-Verif-Marker": r.Header.Get("X-Verif-Marker")}, b)
		smu.Lock()
		sinkGot[marker] = append(sinkGot[marker], sinkRec{b, r.Header.Clone()})
		n := len(sinkGot[marker])
		ff := failFirst[marker]
		smu.Unlock()
		if n <= ff {
			w.WriteHeader(500)
			return
		}
		w.WriteHeader(200)
	}))
	defer sink.Close()
	authMock := httptest.NewServer(http.HandlerFunc(func(w http.ResponseWriter, r *http.Request) {
		_, _ = io.Copy(io.Discard, r.Body)
		w.Header().Add("X-User-Id", "u-42")
		w.Header().Add("X-Org", "o1")
		w.Header().Add("X-Org", "o2")
		w.Header().Set("X-Not-Copied", "nope")
		w.WriteHeader(204)
	}))
	defer authMock.Close()

	nCfg := c.N(10, 400)
	perCfg := c.N(40, 120)
	for ci := 0; ci < nCfg; ci++ {
		r := vlib.Derive(c.Seed, "C07", ci)
		backend := []string{"memory", "sqlite"}[ci%2]
		maxBody := vlib.Pick(r, []int{1024, 4096, 65536, 262144})
		if ci == 0 {
			maxBody = 0 // default 2 MiB
		}
		mb := ""
		eff := 2 << 20
		if maxBody > 0 {
			mb = fmt.Sprintf(" max_body %d\n", maxBody)
			eff = maxBody
		}
		// every third configuration has a depth limit that evicts the oldest message
		// (far above what this run stores, so nothing accepted is ever evicted for good)
		limits, depth := "", 0
		if ci%3 == 1 {
			depth = 600
			limits = fmt.Sprintf("queue_limits { max_depth %d\n drop_policy drop_oldest }\n", depth)
		}
		cfg := fmt.Sprintf(`ingress { listen 127.0.0.1:0 }
pull_api { listen 127.0.0.2:0
 grpc_listen 127.0.0.4:0
 auth token raw:tok }
admin_api { listen 127.0.0.3:0 }
%[5]sdefaults { egress { https_only off
 dns_rebind_protection off } }
/p { queue { backend %[1]s }
%[2]s pull { path /pp } }
/d { queue { backend %[1]s }
%[2]s deliver %[3]q { retry exponential max 5 base 5ms cap 10ms jitter 0
  timeout 2s } }
/f { queue { backend %[1]s }
%[2]s auth forward %[4]q { copy_headers "X-User-Id" "X-Org" }
 pull { path /ff } }
`, backend, mb, sink.URL+"/sink", authMock.URL+"/check", limits)
		a, err := l2.Start(dir, cfg, nil, nil)
		if err != nil {
			c.Inconclusive("C07 config did not start: " + err.Error())
			return
		}
		ing := httptest.NewServer(a.Ingress)
		push := a.StartDispatcher(&http.Client{})
		ln := bufconn.Listen(4 << 20)
		go func() { _ = a.GRPC.Serve(ln) }()
		conn, _ := grpc.NewClient("passthrough:///buf", grpc.WithContextDialer(func(ctx context.Context, _ string) (net.Conn, error) { return ln.DialContext(ctx) }), grpc.WithTransportCredentials(insecure.NewCredentials()),
			grpc.WithDefaultCallOptions(grpc.MaxCallRecvMsgSize(64<<20)))
		gc := workerapipb.NewWorkerServiceClient(conn)
		gctx := metadata.NewOutgoingContext(context.Background(), metadata.Pairs("authorization", "Bearer tok"))

		type sent struct {
			Marker string
			Route  string
			Body   []byte
			Want   map[string]string
		}
		var accepted []sent
		viol := func(class, what string, extra map[string]string, wit any) {
			sig := vlib.Signature{"class": class, "backend": backend}
			for k, v := range extra {
				sig[k] = v
			}
			c.Violation(sig, what, map[string]any{"config": cfg, "detail": wit})
		}
		for k := 0; k < perCfg; k++ {
			route := vlib.Pick(r, []string{"/p", "/p", "/d", "/f"})
			body := genBody(r, eff)
			over := false
			if r.Chance(0.12) {
				body = r.Bytes(eff + vlib.Pick(r, []int{1, 1, 2, 4096}))
				over = true
			}
			if ci == 0 && k > 3 && !over && len(body) > 70000 {
				body = body[:70000] // keep the 2 MiB case to a few messages
			}
			hs := genHeaders(r)
			if route == "/f" && r.Chance(0.5) {
				// sender-supplied headers under the names the auth service answers with
				// (any spelling): the copied forward-auth value is what must be stored
				for n := r.Range(1, 2); n > 0; n-- {
					hs = append(hs, wireHeader{Name: vlib.Pick(r, []string{"X-User-Id", "x-user-id", "X-USER-ID", "X-Org", "x-org", "X-oRG"}), Value: vlib.Pick(r, []string{"attacker", "u-1", "", "o9,o8"})})
				}
				vlib.Shuffle(r, hs)
			}
			marker := fmt.Sprintf("mk-%d-%d", ci, k)
			hs = append(hs, wireHeader{"X-Verif-Marker", marker})
			if route == "/d" {
				smu.Lock()
				failFirst[marker] = r.Intn(3)
				smu.Unlock()
			}
			var chunks []int
			framing := "content_length"
			if r.Chance(0.4) {
				framing = "chunked"
				for n := r.Range(1, 4); n > 0; n-- {
					chunks = append(chunks, vlib.Pick(r, []int{1, 7, 512, 1024, 4096, 65536, 1 << 20}))
				}
			}
			status, err := rawPost(ing.Listener.Addr().String(), route, hs, body, chunks...)
			c.Count("evaluations", 1)
			if err != nil && !over {
				c.Inconclusive("C07 raw post failed: " + err.Error())
				continue
			}
			sizeCls := "small"
			switch {
			case over:
				sizeCls = "max_plus_1"
			case len(body) == eff:
				sizeCls = "at_max"
			case len(body) == eff-1:
				sizeCls = "max_minus_1"
			case len(body) == 0:
				sizeCls = "empty"
			}
			c.Distinct("nontrivial", fmt.Sprintf("%s:ingress:%s:%s:%s:status=%d", backend, route, sizeCls, framing, status))
			if over {
				if status != 413 && err == nil {
					viol("oversized_body_not_refused", fmt.Sprintf("body of %d bytes (max_body %d, %s) answered %d", len(body), eff, framing, status), map[string]string{"framing": framing}, marker)
				}
				continue
			}
			if status != 202 {
				viol("valid_request_refused", fmt.Sprintf("%s with %d byte body and %d headers answered %d", route, len(body), len(hs), status), map[string]string{"status": fmt.Sprint(status)}, map[string]any{"headers": hs})
				continue
			}
			var extra map[string]string
			if route == "/f" {
				extra = map[string]string{"X-User-Id": "u-42", "X-Org": "o1,o2"}
			}
			accepted = append(accepted, sent{marker, route, body, expectedStored(hs, extra)})
		}
		// published items (payload_b64) take the same consumer paths
		for k := 0; k < 8; k++ {
			body := genBody(r, eff)
			if len(body) > 70000 {
				body = body[:70000]
			}
			marker := fmt.Sprintf("pub-%d-%d", ci, k)
			route := vlib.Pick(r, []string{"/p", "/d"})
			hdr := map[string]string{"X-Verif-Marker": marker, "Content-Type": "application/octet-stream", "X-Pub": vlib.Pick(r, append(append([]string{}, c07Values[:9]...), c07Values[12:]...))}
			if route == "/d" {
				smu.Lock()
				failFirst[marker] = r.Intn(2)
				smu.Unlock()
			}
			req := l2.JSONReq("POST", a.Compiled.AdminAPI.Prefix+"/messages/publish", map[string]any{"items": []map[string]any{{"id": marker, "route": route, "payload_b64": base64.StdEncoding.EncodeToString(body), "headers": hdr}}}, "")
			req.Header.Set("X-Hookaido-Audit-Reason", "verif")
			resp := l2.Do(a.Admin, req)
			c.Count("evaluations", 1)
			if resp.Status != 200 {
				viol("valid_publish_refused", fmt.Sprintf("publish of a %d byte payload answered %d: %s", len(body), resp.Status, string(resp.Body[:minInt(200, len(resp.Body))])), nil, nil)
				continue
			}
			want := map[string]string{}
			for k, v := range hdr {
				want[k] = v
			}
			accepted = append(accepted, sent{marker, route, body, want})
			c.Count("published_items", 1)
		}
		// header-less messages (published without a headers object), interleaved in
		// storage order with the messages above: they must come out without headers,
		// whatever was read from the store just before them
		for k := 0; k < 6; k++ {
			id := fmt.Sprintf("nohdr-%d-%d", ci, k)
			route := vlib.Pick(r, []string{"/p", "/p", "/d"})
			body := append([]byte("nohdr:"+id+":"), r.Bytes(r.Intn(40))...)
			items := []map[string]any{{"id": id, "route": route, "payload_b64": base64.StdEncoding.EncodeToString(body)}}
			// a companion with headers right behind it in the same request
			cid := fmt.Sprintf("pub-%d-c%d", ci, k)
			chdr := map[string]string{"X-Verif-Marker": cid, "X-Tenant": fmt.Sprintf("tenant-%d", k)}
			cbody := []byte("companion")
			items = append(items, map[string]any{"id": cid, "route": route, "payload_b64": base64.StdEncoding.EncodeToString(cbody), "headers": chdr})
			req := l2.JSONReq("POST", a.Compiled.AdminAPI.Prefix+"/messages/publish", map[string]any{"items": items}, "")
			req.Header.Set("X-Hookaido-Audit-Reason", "verif")
			if resp := l2.Do(a.Admin, req); resp.Status != 200 {
				viol("valid_publish_refused", fmt.Sprintf("publish of a header-less item answered %d: %s", resp.Status, string(resp.Body[:minInt(200, len(resp.Body))])), nil, nil)
				continue
			}
			accepted = append(accepted, sent{id, route, body, map[string]string{}}, sent{cid, route, cbody, chdr})
			c.Count("published_items_without_headers", 1)
		}
		// ---- disturbances between acceptance and consumption: operations that are
		// refused, or that move messages through operator states, must leave payload
		// and headers of every stored message alone
		{
			pubReq := func(items []map[string]any) l2.Resp {
				req := l2.JSONReq("POST", a.Compiled.AdminAPI.Prefix+"/messages/publish", map[string]any{"items": items}, "")
				req.Header.Set("X-Hookaido-Audit-Reason", "verif")
				return l2.Do(a.Admin, req)
			}
			var pulls []string
			for _, sm := range accepted {
				if sm.Route == "/p" && strings.HasPrefix(sm.Marker, "pub-") { // published items: message id == marker
					pulls = append(pulls, sm.Marker)
				}
			}
			if depth > 0 {
				// a batch that cannot fit even if every queued message were evicted
				var big []map[string]any
				for k := 0; k < depth+50; k++ {
					big = append(big, map[string]any{"id": fmt.Sprintf("big-%d-%d", ci, k), "route": "/p", "payload_b64": "eA=="})
				}
				if resp := pubReq(big); resp.Status == 200 {
					viol("oversized_batch_accepted", fmt.Sprintf("a publish batch of %d items was accepted with max_depth %d", len(big), depth), nil, nil)
				}
				c.Count("disturbance_refused_oversized_batch", 1)
			}
			if len(pulls) > 0 {
				// duplicate id of a stored message (refused), alone and behind fresh items
				dup := pulls[r.Intn(len(pulls))]
				resp := pubReq([]map[string]any{{"id": fmt.Sprintf("fresh-%d", ci), "route": "/p", "payload_b64": "eA=="}, {"id": dup, "route": "/p", "payload_b64": "eA=="}})
				if resp.Status == 200 {
					viol("duplicate_publish_accepted", "a publish batch repeating the id of a stored message was accepted", nil, dup)
				}
				c.Count("disturbance_refused_duplicate", 1)
				// operator round trip: cancel and resume a few stored messages
				var some []string
				for k := 0; k < minInt(3, len(pulls)); k++ {
					some = append(some, pulls[r.Intn(len(pulls))])
				}
				for _, op := range []string{"cancel", "resume"} {
					req := l2.JSONReq("POST", a.Compiled.AdminAPI.Prefix+"/messages/"+op, map[string]any{"ids": some}, "")
					req.Header.Set("X-Hookaido-Audit-Reason", "verif")
					l2.Do(a.Admin, req)
				}
				c.Count("disturbance_cancel_resume", 1)
			}
		}
		byMarker := map[string]sent{}
		for _, s := range accepted {
			byMarker[s.Marker] = s
		}
		checkOne := func(consumer string, round int, marker string, payload []byte, headers map[string]string) {
			s, ok := byMarker[marker]
			if !ok {
				viol("unknown_message", consumer+" returned a message nobody sent (marker "+marker+")", nil, nil)
				return
			}
			c.Count("evaluations", 1)
			c.Count("consumed_"+consumer, 1)
			c.Distinct("nontrivial", fmt.Sprintf("%s:%s:round%d:len%s:hdrs%d", backend, consumer, round, lenClass(len(s.Body)), minInt(len(s.Want), 6)))
			if !bytes.Equal(payload, s.Body) {
				viol("payload_differs", fmt.Sprintf("%s (delivery %d): payload sha256 %s (%d bytes) differs from the accepted body %s (%d bytes)", consumer, round, shaHex(payload)[:16], len(payload), shaHex(s.Body)[:16], len(s.Body)),
					map[string]string{"consumer": consumer}, marker)
			}
			for k := range headers {
				switch strings.ToLower(k) {
				case "authorization", "proxy-authorization", "cookie":
					viol("credential_header_leaked", fmt.Sprintf("%s: header %s was persisted / passed on", consumer, k), map[string]string{"consumer": consumer, "header": strings.ToLower(k)}, marker)
				}
			}
			if d := cmpHeaders(s.Want, headers); d != "" {
				viol("headers_differ", fmt.Sprintf("%s (delivery %d): %s", consumer, round, d), map[string]string{"consumer": consumer}, map[string]any{"want": s.Want, "got": headers})
			}
		}
		consumeRound := func(round int, final bool) {
			// Pull HTTP on /pp, gRPC on /ff, alternating per round
			for _, ep := range []string{"/pp", "/ff"} {
				useGRPC := (round+len(ep))%2 == 0
				for {
					type item struct {
						marker, lease string
					}
					var got []item
					if useGRPC {
						resp, err := gc.Dequeue(gctx, &workerapipb.DequeueRequest{Endpoint: ep, Batch: 7, LeaseTtl: durationpb.New(time.Minute)})
						if err != nil {
							c.Inconclusive("C07 grpc dequeue: " + err.Error())
							return
						}
						for _, it := range resp.Items {
							m := c07Marker(it.Headers, it.Payload)
							checkOne("pull_grpc", round, m, it.Payload, it.Headers)
							got = append(got, item{m, it.LeaseId})
						}
					} else {
						resp := l2.Do(a.Pull, l2.JSONReq("POST", ep+"/dequeue", map[string]any{"batch": 7, "lease_ttl": "1m"}, "tok"))
						var out struct {
							Items []struct {
								LeaseID    string            `json:"lease_id"`
								PayloadB64 string            `json:"payload_b64"`
								Headers    map[string]string `json:"headers"`
							} `json:"items"`
						}
						if resp.Status != 200 || json.Unmarshal(resp.Body, &out) != nil {
							c.Inconclusive(fmt.Sprintf("C07 http dequeue status %d", resp.Status))
							return
						}
						for _, it := range out.Items {
							p, err := base64.StdEncoding.DecodeString(it.PayloadB64)
							if err != nil {
								viol("payload_b64_not_std_base64", "payload_b64 does not decode as standard base64: "+err.Error(), nil, it.PayloadB64[:minInt(40, len(it.PayloadB64))])
								continue
							}
							m := c07Marker(it.Headers, p)
							checkOne("pull_http", round, m, p, it.Headers)
							got = append(got, item{m, it.LeaseID})
						}
					}
					if len(got) == 0 {
						break
					}
					var ids []string
					for _, g := range got {
						ids = append(ids, g.lease)
					}
					op := "nack"
					body := map[string]any{"lease_ids": ids, "delay": "0s"}
					if final {
						op, body = "ack", map[string]any{"lease_ids": ids}
					}
					l2.Do(a.Pull, l2.JSONReq("POST", ep+"/"+op, body, "tok"))
					if !final {
						break // nacked messages are immediately ready again: one batch per round
					}
				}
			}
		}
		adminListing := func(tag string) {
			resp := l2.Do(a.Admin, l2.JSONReq("GET", a.Compiled.AdminAPI.Prefix+"/messages?limit=1000&include_payload=true&include_headers=true", nil, ""))
			var out struct {
				Items []struct {
					PayloadB64 string            `json:"payload_b64"`
					Headers    map[string]string `json:"headers"`
				} `json:"items"`
			}
			if resp.Status != 200 || json.Unmarshal(resp.Body, &out) != nil {
				c.Inconclusive(fmt.Sprintf("C07 admin listing status %d: %s", resp.Status, string(resp.Body[:minInt(200, len(resp.Body))])))
				return
			}
			for _, it := range out.Items {
				p, err := base64.StdEncoding.DecodeString(it.PayloadB64)
				if err != nil {
					viol("payload_b64_not_std_base64", "admin listing payload_b64: "+err.Error(), nil, nil)
					continue
				}
				checkOne("admin_listing"+tag, 0, c07Marker(it.Headers, p), p, it.Headers)
			}
		}
		adminListing("")
		rounds := r.Range(1, 3)
		for round := 1; round <= rounds; round++ {
			consumeRound(round, false)
		}
		if backend == "sqlite" {
			// restart on the same database file
			push.Drain(5 * time.Second)
			ing.Close()
			_ = conn.Close()
			path := a.Path
			a.Close()
			a, err = l2.StartPath(path, nil, nil)
			if err != nil {
				viol("restart_failed", "wiring does not restart on the same database: "+err.Error(), nil, nil)
				continue
			}
			ing = httptest.NewServer(a.Ingress)
			push = a.StartDispatcher(&http.Client{})
			ln = bufconn.Listen(4 << 20)
			go func(l *bufconn.Listener) { _ = a.GRPC.Serve(l) }(ln)
			conn, _ = grpc.NewClient("passthrough:///buf", grpc.WithContextDialer(func(ctx context.Context, _ string) (net.Conn, error) { return ln.DialContext(ctx) }), grpc.WithTransportCredentials(insecure.NewCredentials()),
				grpc.WithDefaultCallOptions(grpc.MaxCallRecvMsgSize(64<<20)))
			gc = workerapipb.NewWorkerServiceClient(conn)
			adminListing("_after_restart")
		}
		consumeRound(rounds+1, true)
		// push deliveries: wait until every /d message reached the sink successfully
		deadline := time.Now().Add(20 * time.Second)
		for time.Now().Before(deadline) {
			pending := 0
			smu.Lock()
			for _, s := range accepted {
				if s.Route == "/d" && len(sinkGot[s.Marker]) <= failFirst[s.Marker] {
					pending++
				}
			}
			smu.Unlock()
			if pending == 0 {
				break
			}
			time.Sleep(5 * time.Millisecond)
		}
		smu.Lock()
		for _, s := range accepted {
			if s.Route != "/d" {
				continue
			}
			recs := sinkGot[s.Marker]
			if len(recs) <= failFirst[s.Marker] {
				c.Inconclusive("C07: push delivery of " + s.Marker + " did not complete in time")
				continue
			}
			for i, rc := range recs {
				got := map[string]string{}
				for k, v := range rc.Header {
					got[k] = strings.Join(v, ",")
				}
				// the push request carries the stored headers; compare only the stored ones
				sub := map[string]string{}
				for k, wv := range s.Want {
					if v, ok := got[k]; ok {
						sub[k] = v
						// optional whitespace around a field value is not part of it on the wire
						if v != wv && v == strings.Trim(wv, " \t") {
							sub[k] = wv
						}
					}
				}
				for k := range got {
					switch strings.ToLower(k) {
					case "authorization", "proxy-authorization", "cookie":
						sub[k] = got[k]
					}
				}
				checkOne("push", i+1, s.Marker, rc.Body, sub)
			}
		}
		smu.Unlock()
		if ci < 2 && len(accepted) > 0 {
			s := accepted[0]
			c.Sample(map[string]any{"backend": backend, "route": s.Route, "body_sha256": shaHex(s.Body), "body_len": len(s.Body), "expected_stored_headers": s.Want})
		}
		push.Drain(5 * time.Second)
		ing.Close()
		_ = conn.Close()
		a.Close()
	}
}

func lenClass(n int) string {
	switch {
	case n == 0:
		return "0"
	case n < 300:
		return "<300"
	case n < 5000:
		return "<5k"
	case n < 70000:
		return "<70k"
	}
	return "big"
}
