package storecheck

import "os"

func removeDB(p string) {
	for _, suf := range []string{"", "-wal", "-shm", "-journal"} {
		_ = os.Remove(p + suf)
	}
}
