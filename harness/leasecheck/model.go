// Package leasecheck records client-boundary histories of concurrent
// dequeue/ack/nack/extend/dead/cancel/requeue calls against one store (directly,
// through the Pull HTTP API and through the Worker gRPC API) and checks them
// with porcupine against a per-message "lease register" model (C03, C04).
package leasecheck

import (
	"fmt"
	"time"

	"github.com/anishathalye/porcupine"
)

type Phase int8

const (
	PNone Phase = iota
	PQueued
	PLeased
	PDone // acked (removed or delivered)
	PDead
	PCanceled
)

func (p Phase) String() string {
	return [...]string{"none", "queued", "leased", "done", "dead", "canceled", "unknown"}[p]
}

// MState is the sequential state of one message.
type MState struct {
	Phase   Phase
	Lease   string
	Until   int64
	NextRun int64
	Attempt int
	// RelLo != 0: the message was released by lease expiry at an instant the
	// history does not pin down; its next_run_at lies in [RelLo, NextRun].
	RelLo int64
}

type Kind string

const (
	EvEnq     Kind = "enqueue"
	EvLease   Kind = "lease" // one per message returned by a dequeue
	EvAck     Kind = "ack"
	EvNack    Kind = "nack"
	EvExtend  Kind = "extend"
	EvDead    Kind = "dead"
	EvCancel  Kind = "cancel"
	EvRequeue Kind = "requeue"
	EvRead    Kind = "read" // listing at a quiescent point
)

// In is the input of one per-message event (everything the caller knew
// before the reply, plus the frozen store clock of the phase).
type In struct {
	Kind  Kind
	Msg   string
	Lease string
	Now   int64
	Dur   int64 // nack delay / extend by
	// DupOK: another call of the same idempotency class (ack; nack|dead) on this
	// lease id succeeded and was issued before this call returned, so the
	// documented idempotent duplicate answer (204 without effect) is legal.
	DupOK     bool
	Transport string
	NextRun   int64 // enqueue
}

// Out is what the caller observed.
type Out struct {
	OK      bool // success / 204 / grpc OK (for cancel/requeue: count==1)
	Until   int64
	Attempt int
	// read
	State   string
	NextRun int64
	Present bool
}

// Mode selects which clauses of the model are enforced, so that each property
// is alarmed only by its own kind of refutation.
type Mode int

const (
	// ModeFull enforces everything (used for self-tests).
	ModeFull Mode = iota
	// ModeExclusivity (C03) enforces the legality of lease events (a dequeue must
	// not return a message that is leased-unexpired, not due, canceled, dead or
	// settled; attempt+1). Settlement outcomes are trusted; a success on a lease
	// that is not current makes the state unknown (any later lease is legal).
	ModeExclusivity
	// ModeFencing (C04) enforces the legality of ack/nack/extend/dead outcomes
	// and of the listings taken at quiescent points; lease events are trusted.
	ModeFencing
)

// PUnknown is used in ModeExclusivity after an unexplained settlement.
const PUnknown Phase = 6

// StepMode is Step restricted to the clauses of one mode.
func StepMode(mode Mode, st MState, in In, out Out) (bool, MState) {
	switch mode {
	case ModeExclusivity:
		switch in.Kind {
		case EvRead:
			return true, st
		case EvLease:
			if st.Phase == PUnknown {
				return true, MState{Phase: PLeased, Lease: in.Lease, Until: out.Until, NextRun: out.Until, Attempt: out.Attempt}
			}
		case EvAck, EvNack, EvDead, EvExtend, EvCancel, EvRequeue:
			if st.Phase == PUnknown {
				return true, st
			}
			ok, n := Step(st, in, out)
			if !ok {
				// An outcome the model does not explain (e.g. a success reported for a
				// lease that is not the current one) is C04's business. It ends no lease:
				// the register stays as it is, so a dequeue that then hands the message
				// out while the current lease is live is still a refutation of C03.
				return true, st
			}
			return true, n
		}
	case ModeFencing:
		if in.Kind == EvLease {
			if in.Lease == "" {
				return false, st
			}
			return true, MState{Phase: PLeased, Lease: in.Lease, Until: out.Until, NextRun: out.Until, Attempt: out.Attempt}
		}
	}
	return Step(st, in, out)
}

// Step is the deterministic sequential specification.
func Step(st MState, in In, out Out) (bool, MState) {
	cur := st.Phase == PLeased && st.Lease == in.Lease && in.Lease != ""
	valid := cur && st.Until > in.Now
	expired := st.Phase == PLeased && st.Until <= in.Now
	switch in.Kind {
	case EvEnq:
		if st.Phase != PNone {
			return false, st
		}
		return true, MState{Phase: PQueued, NextRun: in.NextRun}
	case EvLease:
		ready := (st.Phase == PQueued && st.NextRun <= in.Now) || expired
		if !ready || out.Attempt != st.Attempt+1 || in.Lease == "" {
			return false, st
		}
		return true, MState{Phase: PLeased, Lease: in.Lease, Until: out.Until, NextRun: out.Until, Attempt: out.Attempt}
	case EvAck, EvNack, EvDead, EvExtend:
		if out.OK {
			if !valid {
				if in.DupOK && in.Kind != EvExtend {
					return true, st
				}
				return false, st
			}
			n := st
			switch in.Kind {
			case EvAck:
				n = MState{Phase: PDone, Attempt: st.Attempt, NextRun: in.Now}
			case EvNack:
				d := in.Dur
				if d < 0 {
					d = 0
				}
				n = MState{Phase: PQueued, Attempt: st.Attempt, NextRun: in.Now + d}
			case EvDead:
				n = MState{Phase: PDead, Attempt: st.Attempt, NextRun: in.Now}
			case EvExtend:
				n.Until = st.Until + in.Dur
				n.NextRun = n.Until
			}
			return true, n
		}
		// conflict
		if valid {
			return false, st
		}
		if cur && expired {
			// the expired lease was released by this call or by an earlier sweep
			// (any store call after st.Until may have done it)
			return true, MState{Phase: PQueued, Attempt: st.Attempt, NextRun: in.Now, RelLo: st.Until}
		}
		return true, st
	case EvCancel:
		can := st.Phase == PQueued || st.Phase == PLeased || st.Phase == PDead
		if out.OK != can {
			return false, st
		}
		if can {
			return true, MState{Phase: PCanceled, Attempt: st.Attempt, NextRun: in.Now}
		}
		return true, st
	case EvRequeue:
		can := st.Phase == PDead || st.Phase == PCanceled
		if out.OK != can {
			return false, st
		}
		if can {
			return true, MState{Phase: PQueued, Attempt: st.Attempt, NextRun: in.Now}
		}
		return true, st
	case EvRead:
		if st.Phase == PNone || st.Phase == PDone {
			// PDone: removed, or kept as delivered when delivered retention is on
			return !out.Present || (st.Phase == PDone && out.State == "delivered" && out.Attempt == st.Attempt), st
		}
		if !out.Present || out.Attempt != st.Attempt {
			return false, st
		}
		if expired {
			// the store may or may not have released the expired lease yet
			if out.State == "leased" && out.NextRun == st.Until {
				return true, st
			}
			return out.State == "queued" && out.NextRun <= in.Now && out.NextRun >= st.Until, st
		}
		if st.Phase == PQueued && st.RelLo != 0 {
			return out.State == "queued" && out.NextRun >= st.RelLo && out.NextRun <= st.NextRun, st
		}
		return out.State == st.Phase.String() && out.NextRun == st.NextRun, st
	}
	return false, st
}

func DescribeOp(in In, out Out) string {
	switch in.Kind {
	case EvLease:
		return fmt.Sprintf("lease(%s) -> %s att=%d until=+%s [%s]", in.Msg, in.Lease, out.Attempt, time.Duration(out.Until-in.Now), in.Transport)
	case EvRead:
		return fmt.Sprintf("read(%s) -> present=%v %s att=%d", in.Msg, out.Present, out.State, out.Attempt)
	case EvCancel, EvRequeue:
		return fmt.Sprintf("%s(%s) -> changed=%v", in.Kind, in.Msg, out.OK)
	case EvEnq:
		return fmt.Sprintf("enqueue(%s)", in.Msg)
	}
	return fmt.Sprintf("%s(%s lease=%s dur=%s dup_ok=%v) -> ok=%v [%s]", in.Kind, in.Msg, in.Lease, time.Duration(in.Dur), in.DupOK, out.OK, in.Transport)
}

// ModelFor returns the porcupine model of one mode.
func ModelFor(mode Mode) porcupine.Model {
	return porcupine.Model{
		Init: func() interface{} { return MState{} },
		Step: func(state, input, output interface{}) (bool, interface{}) {
			ok, n := StepMode(mode, state.(MState), input.(In), output.(Out))
			return ok, n
		},
		DescribeOperation: func(input, output interface{}) string { return DescribeOp(input.(In), output.(Out)) },
		DescribeState:     func(state interface{}) string { return fmt.Sprintf("%+v", state.(MState)) },
	}
}
