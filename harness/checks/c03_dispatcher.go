package checks

import "github.com/nuetzliches/hookaido/verifharness/vlib"

// c03Dispatcher: push dispatcher workers competing with pull workers (free-running clock, interval oracle).
func c03Dispatcher(c *vlib.Ctx) {}
