// Package l2 starts hookaido's production request wiring (internal/app) in
// process through the verif-tagged export and offers request helpers.
package l2

import (
	"bytes"
	"encoding/json"
	"fmt"
	"io"
	"net/http"
	"net/http/httptest"
	"os"
	"path/filepath"
	"strings"
	"sync/atomic"

	"github.com/nuetzliches/hookaido/internal/app"
	"github.com/nuetzliches/hookaido/internal/queue"
	"github.com/nuetzliches/hookaido/verifharness/vlib"
)

type App struct {
	*app.VerifApp
	Dir    string
	Handle *vlib.Handle // store handle when opened through OpenStore (nil for a production-opened store)
	closeS func() error
}

var seq atomic.Int64

// Listeners returns the three listener directives with distinct loopback
// addresses and ephemeral ports.
func Listeners() (ingress, pull, admin string) {
	return "127.0.0.1:0", "127.0.0.2:0", "127.0.0.3:0"
}

// Start writes cfgText to a fresh directory and starts the wiring on store.
// clock may be nil (wall clock).
func Start(dir string, cfgText string, store queue.Store, clock *vlib.VClock) (*App, error) {
	d := filepath.Join(dir, fmt.Sprintf("app%d", seq.Add(1)))
	if err := os.MkdirAll(d, 0o755); err != nil {
		return nil, err
	}
	p := filepath.Join(d, "Hookaidofile")
	if err := os.WriteFile(p, []byte(cfgText), 0o644); err != nil {
		return nil, err
	}
	return StartPath(p, store, clock)
}

func StartPath(path string, store queue.Store, clock *vlib.VClock) (*App, error) {
	a := &App{Dir: filepath.Dir(path)}
	if store == nil {
		compiled, err := app.VerifCompile(path)
		if err != nil {
			return nil, err
		}
		st, closeFn, err := app.VerifNewStore(compiled, filepath.Join(a.Dir, "queue.db"))
		if err != nil {
			return nil, err
		}
		store, a.closeS = st, closeFn
	}
	var va *app.VerifApp
	var err error
	if clock != nil {
		va, err = app.VerifStart(path, store, clock.Now)
	} else {
		va, err = app.VerifStart(path, store, nil)
	}
	if err != nil {
		if a.closeS != nil {
			_ = a.closeS()
		}
		return nil, err
	}
	a.VerifApp = va
	return a, nil
}

func (a *App) Close() {
	if a.VerifApp != nil {
		a.VerifApp.Close()
	}
	if a.closeS != nil {
		_ = a.closeS()
	}
}

func (a *App) WriteConfig(text string) error { return os.WriteFile(a.Path, []byte(text), 0o644) }

// Resp is a recorded response.
type Resp struct {
	Status int
	Header http.Header
	Body   []byte
}

func (r Resp) JSON(v any) error { return json.Unmarshal(r.Body, v) }

// Do serves req on h through a recorder.
func Do(h http.Handler, req *http.Request) Resp {
	rec := httptest.NewRecorder()
	h.ServeHTTP(rec, req)
	res := rec.Result()
	b, _ := io.ReadAll(res.Body)
	return Resp{Status: res.StatusCode, Header: res.Header, Body: b}
}

// NewRequest builds a server-side request (like httptest.NewRequest but never
// panics on odd targets).
func NewRequest(method, target string, body []byte, remote string) (*http.Request, error) {
	var rd io.Reader
	if body != nil {
		rd = bytes.NewReader(body)
	}
	req, err := http.NewRequest(method, "http://hookaido.test"+target, rd)
	if err != nil {
		return nil, err
	}
	req.RequestURI = target
	if remote == "" {
		remote = "192.0.2.10:41000"
	}
	req.RemoteAddr = remote
	req.Host = "hookaido.test"
	if body != nil {
		req.ContentLength = int64(len(body))
	}
	return req, nil
}

// JSONReq builds a JSON POST with optional bearer token.
func JSONReq(method, target string, v any, token string) *http.Request {
	var b []byte
	if v != nil {
		if raw, ok := v.([]byte); ok {
			b = raw
		} else {
			b, _ = json.Marshal(v)
		}
	}
	req, err := NewRequest(method, target, b, "")
	if err != nil {
		panic(err)
	}
	if b != nil {
		req.Header.Set("Content-Type", "application/json")
	}
	if token != "" {
		req.Header.Set("Authorization", "Bearer "+token)
	}
	return req
}

// Quote renders a config string literal.
func Quote(s string) string {
	var b strings.Builder
	b.WriteByte('"')
	for _, r := range s {
		switch r {
		case '\\':
			b.WriteString(`\\`)
		case '"':
			b.WriteString(`\"`)
		case '\n':
			b.WriteString(`\n`)
		case '\t':
			b.WriteString(`\t`)
		case '\r':
			b.WriteString(`\r`)
		default:
			b.WriteRune(r)
		}
	}
	b.WriteByte('"')
	return b.String()
}
