package checks

import (
	"context"
	"fmt"
	"io"
	"net/http"
	"net/http/httptest"
	goos "os"
	"strconv"
	"strings"
	"sync"
	"time"

	"github.com/nuetzliches/hookaido/internal/dispatcher"
	"github.com/nuetzliches/hookaido/verifharness/vlib"
)

// c17Redirects: with `egress { redirects on }` one delivery can become several push requests
// (the target answers 301/302/303/307/308, one or two hops, other path, with or without a query).
// The statement speaks about EVERY push request for a target with signing enabled: each request
// the receiver sees must carry exactly one timestamp and one signature header, and the signature
// must be the HMAC over that request's own method, its own escaped path, the timestamp it carries
// and the body it actually carried - so that a receiver that verifies signatures (a hookaido
// ingress, for one) would accept each of them.
func c17Redirects(c *vlib.Ctx) {
	var mu sync.Mutex
	var got []received
	srv := httptest.NewServer(http.HandlerFunc(func(w http.ResponseWriter, r *http.Request) {
		b, _ := io.ReadAll(r.Body)
		mu.Lock()
		got = append(got, received{r.Method, r.RequestURI, r.Header.Clone(), b})
		mu.Unlock()
		// /hop/<code>/<rest> redirects with <code> to /<rest>
		if strings.HasPrefix(r.URL.Path, "/hop/") {
			parts := strings.SplitN(strings.TrimPrefix(r.URL.EscapedPath(), "/hop/"), "/", 2)
			code, _ := strconv.Atoi(parts[0])
			loc := "/"
			if len(parts) == 2 {
				loc += parts[1]
			}
			if r.URL.RawQuery != "" {
				loc += "?" + r.URL.RawQuery
			}
			w.Header().Set("Location", loc)
			w.WriteHeader(code)
			return
		}
		w.WriteHeader(204)
	}))
	defer srv.Close()
	secret := "redirect-signing-secret"
	os := c.Scratch() + "/c17-redirect-secret"
	if err := osWriteFile(os, secret); err != nil {
		c.Inconclusive("C17 redirects: " + err.Error())
		return
	}
	sign := &dispatcher.HMACSigningConfig{SecretRef: "file:" + os, SignatureHeader: "X-Hookaido-Signature", TimestampHeader: "X-Hookaido-Timestamp"}
	now := c08T0
	for _, code := range []int{301, 302, 303, 307, 308} {
		for _, tail := range []string{"final", "a%20b/final", "hop/307/final2", "hop/302/final3", "final?x=1"} {
			for _, method := range []string{"POST", "PUT"} {
				for _, body := range [][]byte{[]byte(`{"n":1}`), {}} {
					d := dispatcher.NewHTTPDeliverer(&http.Client{}, dispatcher.EgressPolicy{Redirects: true})
					d.Now = func() time.Time { return now }
					mu.Lock()
					got = got[:0]
					mu.Unlock()
					ctx, cancel := context.WithTimeout(context.Background(), 5*time.Second)
					res := d.Deliver(ctx, dispatcher.Delivery{ID: "m", Method: method, URL: fmt.Sprintf("%s/hop/%d/%s", srv.URL, code, tail), Body: body, Sign: sign, Header: http.Header{"X-Orig": {"1"}}})
					cancel()
					mu.Lock()
					reqs := append([]received(nil), got...)
					mu.Unlock()
					c.Count("evaluations", 1)
					c.Count("redirected_signed_deliveries", 1)
					if len(reqs) < 2 {
						c.Inconclusive(fmt.Sprintf("C17 redirects: %d requests arrived for a redirecting target (err=%v)", len(reqs), res.Err))
						return
					}
					for hi, rq := range reqs {
						escPath := rq.URI
						if k := strings.IndexByte(escPath, '?'); k >= 0 {
							escPath = escPath[:k]
						}
						c.Count("push_requests_seen_by_the_receiver", 1)
						c.Distinct("nontrivial", fmt.Sprintf("redirect:%d:hop=%d:%s->%s:body=%v", code, minInt(hi, 2), method, rq.Method, len(rq.Body) > 0))
						wit := map[string]any{"first_url": fmt.Sprintf("/hop/%d/%s", code, tail), "delivery_method": method, "delivery_body_len": len(body), "hop": hi,
							"received": fmt.Sprintf("%s %s (%d byte body)", rq.Method, rq.URI, len(rq.Body)), "timestamp_values": rq.Header.Values(sign.TimestampHeader), "signature_values": rq.Header.Values(sign.SignatureHeader)}
						sig := func(class string) vlib.Signature {
							return vlib.Signature{"class": class, "case": "redirect_hop", "status": fmt.Sprint(code), "hop": hopClass(hi)}
						}
						tsv, sgv := rq.Header.Values(sign.TimestampHeader), rq.Header.Values(sign.SignatureHeader)
						if len(tsv) != 1 || len(sgv) != 1 {
							c.Violation(sig("signing_header_not_single_valued"), fmt.Sprintf("push request %d of a redirected delivery (%s %s) carries %d timestamp and %d signature values", hi, rq.Method, rq.URI, len(tsv), len(sgv)), wit)
							continue
						}
						if tsv[0] != strconv.FormatInt(now.Unix(), 10) {
							c.Violation(sig("timestamp_header_wrong"), fmt.Sprintf("push request %d carries timestamp %q at %d", hi, tsv[0], now.Unix()), wit)
						}
						if want := signOutbound(secret, rq.Method, escPath, tsv[0], rq.Body); sgv[0] != want {
							explain := "nothing"
							if sgv[0] == signOutbound(secret, reqs[0].Method, strings.SplitN(reqs[0].URI, "?", 2)[0], tsv[0], reqs[0].Body) {
								explain = "the first request of the delivery"
							}
							c.Violation(sig("signature_mismatch"), fmt.Sprintf("push request %d of a redirected delivery is %s %s with a %d byte body, but its signature is not the HMAC over that method, path and body (it is the signature of %s)", hi, rq.Method, escPath, len(rq.Body), explain), wit)
						}
					}
				}
			}
		}
	}
}

func osWriteFile(path, content string) error { return goos.WriteFile(path, []byte(content), 0o600) }
