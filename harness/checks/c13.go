package checks

import (
	"fmt"

	"github.com/nuetzliches/hookaido/verifharness/storecheck"
	"github.com/nuetzliches/hookaido/verifharness/vlib"
)

var c13WideRoutes = []string{"/r0", "/r1", "/r2", "/r3", "/r4"}
var c13WideTargets = []string{"pull", "https://t1.example/hook", "https://t2.example/hook", "https://t3.example/hook"}

// C13: memory and SQLite are observationally equivalent.
func C13(c *vlib.Ctx) {
	c.Rule("lock-step differential execution of one generated operation sequence (60-100 steps, hostile arguments) on memory and SQLite under one virtual clock; after every step the return value (error class, counts, returned messages field by field, conflict classification) and a full API listing of all five states are compared. Only forced-choice dequeues are issued (batch >= number of eligible messages); in every other sequence a third of the dequeues come with a clock step that no listing observes first (the dequeue itself meets expired leases and retention deadlines together). distinct_nontrivial = distinct (backend, operation, result class, observed transitions) tuples.")
	c.Assume("choice among equally eligible messages is exempt by the statement, hence forced-choice dequeues; distinct dequeue instants are kept >= 10ms apart (documented SQLite sweep granularity, covered by C05)")
	c.Assume("memory-only documented guards are kept out of play: retained items far below 1000, delivered retention not combined with max_depth")
	c.Assume("nil vs empty payload/headers are treated as equal (not observable at any API surface); lease ids are related through the dequeue results")
	seqs := c.N(22, 600)
	var cfgs []vlib.StoreCfg
	for _, sc := range storecheck.ConfigMatrix() {
		if sc.DeliveredRetention > 0 && sc.MaxDepth > 0 {
			continue
		}
		cfgs = append(cfgs, sc)
	}
	for _, d := range storecheck.DirectedScenarios() {
		if d.MemoryOnly {
			continue
		}
		storecheck.RunSequence(c, vlib.Derive(c.Seed, "C13d", d.Name), storecheck.RunCfg{
			Backends: []string{"memory", "sqlite"}, Store: d.Cfg, Script: d.Script, Label: "C13/directed/" + d.Name,
			Differential: true, Props: map[string]bool{"C13": true},
		})
	}
	w := storecheck.DefaultWeights()
	w[storecheck.KRecordAtt], w[storecheck.KListAtt], w[storecheck.KTrendCap], w[storecheck.KTrendList] = 2, 2, 1, 1
	// long history: bursts of short-lived messages between the generated operations
	// (order-list compaction, id counters, free pages), unlimited default store
	wl := storecheck.DefaultWeights()
	wl[storecheck.KChurn], wl[storecheck.KEnqueueBatch] = 5, 3
	for s := 0; s < c.N(3, 60); s++ {
		r := vlib.Derive(c.Seed, "C13long", s)
		g := storecheck.GenCfg{NIDs: r.Range(6, 24), Routes: stdRoutes[:2], Targets: stdTargets[:2], ForcedOnly: true, PaddedLeases: true, Weights: wl, Churn: 1050}
		storecheck.RunSequence(c, r, storecheck.RunCfg{Backends: []string{"memory", "sqlite"}, Gen: g, Steps: r.Range(60, 90),
			Label: fmt.Sprintf("C13/long/seq%d", s), Differential: true, Props: map[string]bool{"C13": true}})
	}
	for ci, sc := range cfgs {
		for s := 0; s < seqs; s++ {
			r := vlib.Derive(c.Seed, "C13", ci, s)
			g := storecheck.GenCfg{NIDs: r.Range(6, 24), Routes: stdRoutes, Targets: stdTargets, ForcedOnly: true,
				OutOfOrder: r.Chance(0.4), Ties: r.Chance(0.4), PaddedLeases: true, Aux: true, Weights: w, FarInstants: true}
			if s%3 == 2 {
				// many (route, target) groups at once (20, well over any top-N a store keeps
				// per group in its statistics), more messages, statistics read often
				ww := storecheck.DefaultWeights()
				for k, v := range w {
					ww[k] = v
				}
				ww[storecheck.KStats] = 8
				g.Routes, g.Targets = c13WideRoutes, c13WideTargets
				g.NIDs = r.Range(30, 70)
				g.Weights = ww
			}
			if s%2 == 1 {
				// the harness lists the store after every step, and a listing is itself a
				// call that prunes: in every other sequence a third of the dequeues are the
				// first call to meet a new instant
				g.FusedAdvance = 0.35
			}
			storecheck.RunSequence(c, r, storecheck.RunCfg{
				Backends: []string{"memory", "sqlite"}, Store: sc, Gen: g, Steps: r.Range(60, 100),
				Label: fmt.Sprintf("C13/cfg%d/seq%d", ci, s), Differential: true,
				Props: map[string]bool{"C13": true},
			})
		}
	}
}
