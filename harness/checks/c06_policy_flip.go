package checks

import (
	"fmt"
	"io"
	"net/http"
	"net/netip"
	"strings"
	"sync"
	"time"

	"github.com/nuetzliches/hookaido/internal/dispatcher"
	"github.com/nuetzliches/hookaido/verifharness/pushcheck"
	"github.com/nuetzliches/hookaido/verifharness/vlib"
)

// flipTransport answers the first request for a URL with 503 and, once it has been sent, changes
// what the target's host name resolves to (public -> loopback / private / a denied range): the
// retry's policy check meets other addresses than the first attempt's.
type flipTransport struct {
	mu       sync.Mutex
	seen     map[string]int
	resolver *fakeResolver
	flipTo   map[string]netip.Addr // host -> address after the first request
}

func (t *flipTransport) RoundTrip(req *http.Request) (*http.Response, error) {
	u := req.URL.String()
	t.mu.Lock()
	t.seen[u]++
	n := t.seen[u]
	t.mu.Unlock()
	if req.Body != nil {
		_, _ = io.Copy(io.Discard, req.Body)
		_ = req.Body.Close()
	}
	code := 200
	if n == 1 {
		code = 503
		host := strings.ToLower(req.URL.Hostname())
		if a, ok := t.flipTo[host]; ok {
			t.resolver.mu.Lock()
			t.resolver.answers[host] = []netip.Addr{a}
			t.resolver.mu.Unlock()
		}
	}
	return &http.Response{StatusCode: code, Header: http.Header{}, Body: io.NopCloser(strings.NewReader("")), Request: req, ProtoMajor: 1, ProtoMinor: 1}, nil
}

// c06PolicyFlip: the real HTTPDeliverer behind the real dispatcher; a target's first attempt is
// answered 503 (retryable) and before the retry the host's addresses change so that the egress
// policy (dns_rebind_protection / a denied range) refuses it. The statement: an egress-policy
// denial is dead-lettered as policy_denied without retry - at whatever attempt it occurs - and
// the denied attempt sends nothing. Hosts whose addresses stay public are the control (503, then 200).
func c06PolicyFlip(c *vlib.Ctx) {
	for _, be := range []string{"memory", "sqlite"} {
		pol := dispatcher.EgressPolicy{DNSRebindProtection: true, Deny: []dispatcher.EgressRule{{CIDR: netip.MustParsePrefix("203.0.113.0/24"), IsCIDR: true}}}
		res := &fakeResolver{answers: map[string][]netip.Addr{}, errs: map[string]bool{}}
		flips := map[string]string{"to-loopback.test": "127.0.0.1", "to-private.test": "10.1.2.3", "to-denied-range.test": "203.0.113.77", "to-linklocal.test": "169.254.169.254", "stays-public.test": ""}
		tr := &flipTransport{seen: map[string]int{}, resolver: res, flipTo: map[string]netip.Addr{}}
		var routes []dispatcher.RouteConfig
		var msgs []pushcheck.Message
		denied := map[string]bool{}
		i := 0
		for host, to := range flips {
			res.answers[host] = []netip.Addr{netip.MustParseAddr("198.51.100.7")}
			if to != "" {
				tr.flipTo[host] = netip.MustParseAddr(to)
			}
			u := "https://" + host + "/hook"
			denied[u] = to != ""
			route := fmt.Sprintf("/pf%d", i)
			routes = append(routes, dispatcher.RouteConfig{Route: route, Concurrency: 1, Targets: []dispatcher.TargetConfig{{URL: u, Timeout: time.Second, Retry: dispatcher.RetryConfig{Max: 3, Base: time.Second, Cap: time.Minute}}}})
			msgs = append(msgs, pushcheck.Message{ID: fmt.Sprintf("pf%d", i), Route: route, Target: u})
			i++
		}
		d := dispatcher.NewHTTPDeliverer(&http.Client{Transport: tr}, pol)
		d.Resolver = res
		pushcheck.Run(c, pushcheck.Scenario{Label: "C06/policy-flip/" + be, Backend: be, Routes: routes, Messages: msgs, Real: d,
			Script: func(_, target string, attempt int) pushcheck.Behaviour {
				if attempt == 1 {
					return pushcheck.Behaviour{Status: 503}
				}
				if denied[target] {
					return pushcheck.Behaviour{Err: "policy"}
				}
				return pushcheck.Behaviour{Status: 200}
			}})
		tr.mu.Lock()
		for u, n := range tr.seen {
			c.Count("policy_flip_requests_seen", int64(n))
			if denied[u] && n > 1 {
				c.Violation(vlib.Signature{"class": "denied_attempt_sent", "case": "policy_flip", "backend": be},
					fmt.Sprintf("%s received %d requests: the retry was sent although the host resolved to a denied address by then", u, n), nil)
			}
		}
		tr.mu.Unlock()
	}
}
