package checks

import (
	"fmt"
	"os"
	"path/filepath"
	"strconv"

	"github.com/nuetzliches/hookaido/verifharness/l2"
	"github.com/nuetzliches/hookaido/verifharness/vlib"
)

// c08RotatedSecretReload: the secret behind a `file:` / `env:` reference is replaced while the
// configuration TEXT stays byte-identical (or is merely re-saved, or changes elsewhere), then the
// process reloads. Whatever the reload reports, the authenticator must be the one a fresh start
// of what is on disk would build, or the previous one if the reload was refused - and under no
// circumstances may a request be accepted that is signed with a secret that is neither the one
// in force before nor the one on disk now. After an applied reload the retired secret is
// "a secret not valid at the signed timestamp's evaluation": it must be answered 401 and leave
// the queue alone.
func c08RotatedSecretReload(c *vlib.Ctx, dir string) {
	type variant struct{ auth, form, via, edit string }
	var vs []variant
	for _, auth := range []string{"hmac"} {
		for _, form := range []string{"inline_shorthand", "inline_block", "secret_ref"} {
			if auth == "basic" && form != "inline_shorthand" {
				continue
			}
			for _, via := range []string{"file", "env"} {
				for _, edit := range []string{"text_untouched", "text_resaved", "other_route_added"} {
					vs = append(vs, variant{auth, form, via, edit})
				}
			}
		}
	}
	for vi, v := range vs {
		oldS, newS := fmt.Sprintf("old-secret-%d", vi), fmt.Sprintf("new-secret-%d", vi)
		var ref string
		var set func(string)
		if v.via == "file" {
			p := filepath.Join(dir, fmt.Sprintf("rot-secret-%d", vi))
			_ = os.WriteFile(p, []byte(oldS), 0o600)
			ref, set = "file:"+p, func(nc string) { _ = os.WriteFile(p, []byte(nc), 0o600) }
		} else {
			name := fmt.Sprintf("VERIF_C08_ROT_%d", vi)
			os.Setenv(name, oldS)
			ref, set = "env:"+name, func(nc string) { os.Setenv(name, nc) }
		}
		head := "ingress { listen 127.0.0.1:0 }\npull_api { listen 127.0.0.2:0\n auth token raw:tok }\nadmin_api { listen 127.0.0.3:0 }\n"
		var route string
		switch {
		case v.auth == "basic":
			route = fmt.Sprintf("/in { queue { backend memory }\n auth basic \"alice\" %s\n pull { path /pull/in } }\n", l2.Quote(ref))
		case v.form == "inline_shorthand":
			route = fmt.Sprintf("/in { queue { backend memory }\n auth hmac %s\n pull { path /pull/in } }\n", l2.Quote(ref))
		case v.form == "inline_block":
			route = fmt.Sprintf("/in { queue { backend memory }\n auth hmac {\n  secret %s\n  tolerance 1h\n }\n pull { path /pull/in } }\n", l2.Quote(ref))
		default:
			route = fmt.Sprintf("secrets {\n secret \"S1\" {\n  value %s\n  valid_from \"2020-01-01T00:00:00Z\"\n }\n}\n/in { queue { backend memory }\n auth hmac {\n  secret_ref \"S1\"\n  tolerance 1h\n }\n pull { path /pull/in } }\n", l2.Quote(ref))
		}
		text := head + route
		clock := vlib.NewVClock(c08T0)
		a, err := l2.Start(dir, text, nil, clock)
		if err != nil {
			c.Inconclusive(fmt.Sprintf("C08 rotation config (%+v) did not start: %v", v, err))
			return
		}
		nonce := 0
		send := func(secret string) (int, int) {
			nonce++
			body := []byte("payload")
			req, _ := l2.NewRequest("POST", "/in", body, "")
			if v.auth == "basic" {
				req.SetBasicAuth("alice", secret)
			} else {
				ts := strconv.FormatInt(c08T0.Unix(), 10)
				req.Header.Set("X-Timestamp", ts)
				req.Header.Set("X-Nonce", fmt.Sprintf("rot-%d-%d", vi, nonce))
				req.Header.Set("X-Signature", signInbound(secret, "POST", "/in", ts, body))
			}
			before, _ := vlib.ListAll(a.Store)
			resp := l2.Do(a.Ingress, req)
			after, _ := vlib.ListAll(a.Store)
			c.Count("evaluations", 1)
			return resp.Status, len(after) - len(before)
		}
		wit := map[string]any{"variant": fmt.Sprintf("%+v", v), "config": text}
		if st, _ := send(oldS); st != 202 {
			c.Inconclusive(fmt.Sprintf("C08 rotation (%+v): the request signed with the configured secret was answered %d before any rotation", v, st))
			a.Close()
			continue
		}
		set(newS)
		switch v.edit {
		case "text_resaved":
			_ = a.WriteConfig(text)
		case "other_route_added":
			_ = a.WriteConfig(text + "/other { queue { backend memory }\n pull { path /pull/other } }\n")
		}
		applied := a.Reload()
		c.Count("secret_rotation_reloads", 1)
		c.Distinct("nontrivial", fmt.Sprintf("rotated_secret:%s:%s:%s:%s:applied=%v", v.auth, v.form, v.via, v.edit, applied))
		stOld, dOld := send(oldS)
		stNew, _ := send(newS)
		stOther, dOther := send("neither-" + oldS)
		wit["reload_applied"], wit["old_secret_status"], wit["new_secret_status"] = applied, stOld, stNew
		sig := func(class string) vlib.Signature {
			return vlib.Signature{"class": class, "auth": v.auth, "form": v.form, "via": v.via, "edit": v.edit}
		}
		if stOther != 401 || dOther != 0 {
			c.Violation(sig("unauthentic_request_accepted"), fmt.Sprintf("a request signed with a secret that was never configured is answered %d (queue +%d) after the rotation reload", stOther, dOther), wit)
		}
		if applied {
			if stOld != 401 || dOld != 0 {
				c.Violation(sig("retired_secret_accepted_after_reload"), fmt.Sprintf("the reload was reported as applied and the %s behind %s now holds the new secret, but a request with the retired secret is answered %d (queue +%d)", v.via, ref, stOld, dOld), wit)
			}
		}
		a.Close()
	}
}

// c08EmptyHMACBlock: a route that declares `auth hmac { ... }` without any secret in the block
// (empty block, a block holding only a comment). The route declares authentication, so either the
// configuration is refused or nothing unauthenticated gets in.
func c08EmptyHMACBlock(c *vlib.Ctx, dir string) {
	for bi, block := range []string{"auth hmac { }", "auth hmac {\n }", "auth hmac {\n  # secret to be filled in\n }", "auth hmac {}"} {
		text := "ingress { listen 127.0.0.1:0 }\npull_api { listen 127.0.0.2:0\n auth token raw:tok }\nadmin_api { listen 127.0.0.3:0 }\n" +
			"/in { queue { backend memory }\n " + block + "\n pull { path /pull/in } }\n"
		clock := vlib.NewVClock(c08T0)
		a, err := l2.Start(dir, text, nil, clock)
		c.Count("evaluations", 1)
		c.Count("empty_hmac_block_trials", 1)
		if err != nil {
			c.Distinct("nontrivial", fmt.Sprintf("empty_hmac_block:%d:refused", bi))
			continue // refusing the configuration is failing closed
		}
		c.Distinct("nontrivial", fmt.Sprintf("empty_hmac_block:%d:started", bi))
		ts := strconv.FormatInt(c08T0.Unix(), 10)
		body := []byte("payload")
		probes := map[string]map[string]string{
			"no_authentication_headers":    {},
			"signed_with_the_empty_key":    {"X-Timestamp": ts, "X-Nonce": "e1", "X-Signature": signInbound("", "POST", "/in", ts, body)},
			"signed_with_an_arbitrary_key": {"X-Timestamp": ts, "X-Nonce": "e2", "X-Signature": signInbound("whatever", "POST", "/in", ts, body)},
		}
		for name, hdr := range probes {
			req, _ := l2.NewRequest("POST", "/in", body, "")
			for k, v := range hdr {
				req.Header.Set(k, v)
			}
			before, _ := vlib.ListAll(a.Store)
			resp := l2.Do(a.Ingress, req)
			after, _ := vlib.ListAll(a.Store)
			c.Count("evaluations", 1)
			if resp.Status != 401 || len(after) != len(before) {
				c.Violation(vlib.Signature{"class": "hmac_block_without_secret_opens_route", "probe": name},
					fmt.Sprintf("route declaring %q was accepted by the compiler and answers a request with %s with %d (queue +%d)", block, name, resp.Status, len(after)-len(before)),
					map[string]any{"config": text, "probe": name})
				break
			}
		}
		a.Close()
	}
}
