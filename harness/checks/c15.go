package checks

import (
	"encoding/base64"
	"encoding/json"
	"fmt"
	"sort"
	"strings"
	"time"

	"github.com/nuetzliches/hookaido/internal/queue"
	"github.com/nuetzliches/hookaido/verifharness/l2"
	"github.com/nuetzliches/hookaido/verifharness/vlib"
)

type pubRoute struct {
	Path      string
	Targets   []string
	Mode      string // pull | deliver
	Publish   bool
	Direct    bool
	Managed   bool // publish.managed
	App, EP   string
	MaxBody   int
	MaxHeader int
}

type pubPolicy struct {
	Direct, ManagedOn, AllowPull, AllowDeliver, RequireActor, RequireReqID bool
	// endpoint-scoped actor policy (actor_allow / actor_prefix)
	ActorAllow, ActorPrefix []string
}

type pubCfg struct {
	Text     string
	Backend  string
	Routes   []pubRoute
	Pol      pubPolicy
	MaxDepth int
	DropOld  bool
	DefBody  int
	DefHdr   int
}

func onoff(b bool) string {
	if b {
		return "on"
	}
	return "off"
}

func actorPolicyText(p pubPolicy) string {
	t := ""
	for _, a := range p.ActorAllow {
		t += fmt.Sprintf("\n actor_allow %q", a)
	}
	for _, a := range p.ActorPrefix {
		t += fmt.Sprintf("\n actor_prefix %q", a)
	}
	return t
}

// actorAllowedScoped: the endpoint-scoped actor policy, from the documentation.
func (p pubPolicy) actorAllowedScoped(actor string) bool {
	if len(p.ActorAllow) == 0 && len(p.ActorPrefix) == 0 {
		return true
	}
	for _, a := range p.ActorAllow {
		if actor == a {
			return true
		}
	}
	for _, a := range p.ActorPrefix {
		if actor != "" && strings.HasPrefix(actor, a) {
			return true
		}
	}
	return false
}

func c15Config(r *vlib.Rand, backend string) pubCfg {
	cfg := pubCfg{Backend: backend, DefBody: 2048, DefHdr: 512}
	cfg.Pol = pubPolicy{Direct: !r.Chance(0.1), ManagedOn: !r.Chance(0.1), AllowPull: !r.Chance(0.12), AllowDeliver: !r.Chance(0.12), RequireActor: r.Chance(0.2), RequireReqID: r.Chance(0.2)}
	if r.Chance(0.3) {
		if r.Bool() {
			cfg.Pol.ActorAllow = []string{"tester", "ci-bot"}
		}
		if r.Bool() || len(cfg.Pol.ActorAllow) == 0 {
			cfg.Pol.ActorPrefix = []string{"deploy-"}
		}
		// the actor policy together with the other two audit requirements
		if r.Bool() {
			cfg.Pol.RequireReqID = true
		}
		if r.Chance(0.3) {
			cfg.Pol.RequireActor = true
		}
	}
	cfg.MaxDepth = vlib.Pick(r, []int{0, 0, 12, 30, 600, 900})
	cfg.DropOld = cfg.MaxDepth > 0 && r.Bool()
	var b strings.Builder
	b.WriteString("ingress { listen 127.0.0.1:0 }\npull_api { listen 127.0.0.2:0\n auth token raw:tok }\nadmin_api { listen 127.0.0.3:0 }\n")
	if cfg.MaxDepth > 0 {
		fmt.Fprintf(&b, "queue_limits { max_depth %d\n drop_policy %s }\n", cfg.MaxDepth, map[bool]string{true: "drop_oldest", false: "reject"}[cfg.DropOld])
	}
	fmt.Fprintf(&b, "defaults { max_body %d\n max_headers %d\n egress { https_only off\n dns_rebind_protection off }\n publish_policy { direct %s\n managed %s\n allow_pull_routes %s\n allow_deliver_routes %s\n require_actor %s\n require_request_id %s%s } }\n",
		cfg.DefBody, cfg.DefHdr, onoff(cfg.Pol.Direct), onoff(cfg.Pol.ManagedOn), onoff(cfg.Pol.AllowPull), onoff(cfg.Pol.AllowDeliver), onoff(cfg.Pol.RequireActor), onoff(cfg.Pol.RequireReqID), actorPolicyText(cfg.Pol))
	q := fmt.Sprintf(" queue { backend %s }\n", backend)
	add := func(rt pubRoute, body string) {
		cfg.Routes = append(cfg.Routes, rt)
		fmt.Fprintf(&b, "%s {\n%s%s}\n", rt.Path, q, body)
	}
	add(pubRoute{Path: "/pullA", Targets: []string{"pull"}, Mode: "pull", Publish: true, Direct: true, Managed: true}, " pull { path /pa }\n")
	add(pubRoute{Path: "/pushB", Targets: []string{"http://127.0.0.1:9/b"}, Mode: "deliver", Publish: true, Direct: true, Managed: true}, " deliver \"http://127.0.0.1:9/b\" {}\n")
	add(pubRoute{Path: "/multi", Targets: []string{"http://127.0.0.1:9/m1", "http://127.0.0.1:9/m2"}, Mode: "deliver", Publish: true, Direct: true, Managed: true}, " deliver \"http://127.0.0.1:9/m1\" {}\n deliver \"http://127.0.0.1:9/m2\" {}\n")
	add(pubRoute{Path: "/managed", Targets: []string{"pull"}, Mode: "pull", Publish: true, Direct: true, Managed: true, App: "app1", EP: "ep1"}, " application app1\n endpoint_name ep1\n pull { path /pm }\n")
	add(pubRoute{Path: "/nopub", Targets: []string{"pull"}, Mode: "pull", Publish: false, Direct: true, Managed: true}, " publish off\n pull { path /pn }\n")
	add(pubRoute{Path: "/nodirect", Targets: []string{"pull"}, Mode: "pull", Publish: true, Direct: false, Managed: true}, " publish.direct off\n pull { path /pd }\n")
	add(pubRoute{Path: "/small", Targets: []string{"pull"}, Mode: "pull", Publish: true, Direct: true, Managed: true, MaxBody: 64, MaxHeader: 96}, " max_body 64\n max_headers 96\n pull { path /ps }\n")
	add(pubRoute{Path: "/mnomanaged", Targets: []string{"pull"}, Mode: "pull", Publish: true, Direct: true, Managed: false, App: "app1", EP: "ep2"}, " application app1\n endpoint_name ep2\n publish.managed off\n pull { path /pmm }\n")
	cfg.Text = b.String()
	return cfg
}

func (c pubCfg) route(p string) *pubRoute {
	for i := range c.Routes {
		if c.Routes[i].Path == p {
			return &c.Routes[i]
		}
	}
	return nil
}

type pubItem map[string]any

// validItem builds an acceptable item for the given path kind.
func validItem(r *vlib.Rand, cfg pubCfg, scoped *pubRoute, seq int) pubItem {
	it := pubItem{"id": fmt.Sprintf("pub-%04d-%x", seq, r.U64()&0xffff)}
	maxBody := cfg.DefBody
	if scoped == nil {
		// only routes that are publishable under the current policy
		var ok []pubRoute
		for _, rt := range cfg.Routes {
			if rt.App != "" || !rt.Publish || !rt.Direct {
				continue
			}
			if (rt.Mode == "pull" && !cfg.Pol.AllowPull) || (rt.Mode == "deliver" && !cfg.Pol.AllowDeliver) {
				continue
			}
			ok = append(ok, rt)
		}
		if len(ok) == 0 {
			return nil
		}
		rt := vlib.Pick(r, ok)
		it["route"] = rt.Path
		if len(rt.Targets) > 1 {
			it["target"] = vlib.Pick(r, rt.Targets)
		} else if r.Chance(0.3) {
			it["target"] = rt.Targets[0]
		}
		if rt.MaxBody > 0 {
			maxBody = rt.MaxBody
		}
	}
	payload := r.Bytes(r.Intn(minInt(maxBody, 48)))
	if r.Chance(0.06) {
		payload = r.Bytes(maxBody) // exactly at the limit: still acceptable
	}
	if r.Chance(0.06) && maxBody > 8 {
		// in the top few percent below the limit: acceptable whatever the spelling of the encoding
		payload = r.Bytes(maxBody - r.Intn(maxBody/30+2))
	}
	if r.Chance(0.8) {
		enc := base64.StdEncoding.EncodeToString(payload)
		if r.Chance(0.25) && len(enc) > 0 {
			// line-wrapped base64 (MIME / PEM style): CR and LF are not part of the data
			width := vlib.Pick(r, []int{76, 64, 4, 1})
			brk := vlib.Pick(r, []string{"\r\n", "\n"})
			var b strings.Builder
			for i := 0; i < len(enc); i += width {
				b.WriteString(enc[i:minInt(i+width, len(enc))])
				b.WriteString(brk)
			}
			enc = b.String()
		}
		it["payload_b64"] = enc
	}
	if r.Chance(0.5) {
		it["headers"] = map[string]string{"Content-Type": "application/json", "X-N": fmt.Sprint(seq)}
	}
	if r.Chance(0.2) {
		it["trace"] = map[string]string{"source": "verif"}
	}
	if r.Chance(0.2) {
		it["received_at"] = time.Date(2026, 1, 1, 0, 0, seq%60, 0, time.UTC).Format(time.RFC3339)
	}
	if r.Chance(0.15) {
		it["next_run_at"] = time.Date(2030, 1, 1, 0, 0, 0, 0, time.UTC).Format(time.RFC3339)
	}
	return it
}

type invalidKind struct {
	Name   string
	Status int
	Apply  func(r *vlib.Rand, cfg pubCfg, it pubItem, scoped bool, existingID string, batch []pubItem) bool
}

func c15Kinds() []invalidKind {
	big := func(n int) string { return base64.StdEncoding.EncodeToString(make([]byte, n)) }
	return []invalidKind{
		{"missing_id", 400, func(r *vlib.Rand, cfg pubCfg, it pubItem, sc bool, _ string, _ []pubItem) bool {
			it["id"] = vlib.Pick(r, []string{"", "  "})
			return true
		}},
		{"route_missing", 400, func(r *vlib.Rand, cfg pubCfg, it pubItem, sc bool, _ string, _ []pubItem) bool {
			if sc {
				return false
			}
			delete(it, "route")
			delete(it, "target")
			return true
		}},
		{"route_not_absolute", 400, func(r *vlib.Rand, cfg pubCfg, it pubItem, sc bool, _ string, _ []pubItem) bool {
			if sc {
				return false
			}
			it["route"] = "pullA"
			return true
		}},
		{"unknown_route", 400, func(r *vlib.Rand, cfg pubCfg, it pubItem, sc bool, _ string, _ []pubItem) bool {
			if sc {
				return false
			}
			it["route"] = "/does/not/exist"
			delete(it, "target")
			return true
		}},
		{"route_publish_off", 403, func(r *vlib.Rand, cfg pubCfg, it pubItem, sc bool, _ string, _ []pubItem) bool {
			if sc {
				return false
			}
			it["route"] = "/nopub"
			delete(it, "target")
			return true
		}},
		{"route_direct_off", 403, func(r *vlib.Rand, cfg pubCfg, it pubItem, sc bool, _ string, _ []pubItem) bool {
			if sc {
				return false
			}
			it["route"] = "/nodirect"
			delete(it, "target")
			return true
		}},
		{"managed_route_on_global_path", 400, func(r *vlib.Rand, cfg pubCfg, it pubItem, sc bool, _ string, _ []pubItem) bool {
			if sc {
				return false
			}
			it["route"] = "/managed"
			delete(it, "target")
			return true
		}},
		{"managed_selector_on_global_path", 400, func(r *vlib.Rand, cfg pubCfg, it pubItem, sc bool, _ string, _ []pubItem) bool {
			if sc {
				return false
			}
			delete(it, "route")
			delete(it, "target")
			it["application"], it["endpoint_name"] = "app1", "ep1"
			return true
		}},
		{"selector_hint_on_scoped_path", 400, func(r *vlib.Rand, cfg pubCfg, it pubItem, sc bool, _ string, _ []pubItem) bool {
			if !sc {
				return false
			}
			it["route"] = "/managed"
			return true
		}},
		{"multi_target_without_target", 400, func(r *vlib.Rand, cfg pubCfg, it pubItem, sc bool, _ string, _ []pubItem) bool {
			if sc || !cfg.Pol.AllowDeliver {
				return false
			}
			it["route"] = "/multi"
			delete(it, "target")
			return true
		}},
		{"wrong_target", 400, func(r *vlib.Rand, cfg pubCfg, it pubItem, sc bool, _ string, _ []pubItem) bool {
			if sc {
				return false
			}
			it["target"] = "http://127.0.0.1:9/elsewhere"
			return true
		}},
		{"target_spelled_differently", 400, func(r *vlib.Rand, cfg pubCfg, it pubItem, sc bool, _ string, _ []pubItem) bool {
			// a target is an exact string of the route: another letter case, a trailing
			// slash or dot, an added default port or an escaped octet names something else
			if sc {
				return false
			}
			rt := cfg.route(fmt.Sprint(it["route"]))
			if rt == nil || len(rt.Targets) == 0 {
				return false
			}
			base := vlib.Pick(r, rt.Targets)
			alts := []string{strings.ToUpper(base), strings.Title(base), base + "/", base + ".", base + "?", base + "#", strings.Replace(base, "://", "://user@", 1), strings.Replace(base, "/hook", "/%68ook", 1), strings.Replace(base, "/hook", "/HOOK", 1), strings.Replace(base, "http", "HTTP", 1), "\u00a0" + base}
			var cands []string
			for _, a := range alts {
				if a == base || strings.TrimSpace(a) == base {
					continue
				}
				dup := false
				for _, t := range rt.Targets {
					if t == a {
						dup = true
					}
				}
				if !dup {
					cands = append(cands, a)
				}
			}
			if len(cands) == 0 {
				return false
			}
			it["target"] = vlib.Pick(r, cands)
			return true
		}},
		{"bad_base64", 400, func(r *vlib.Rand, cfg pubCfg, it pubItem, sc bool, _ string, _ []pubItem) bool {
			it["payload_b64"] = vlib.Pick(r, []string{"!!!notbase64", "YQ", "YQ==YQ==", "_-_-"})
			return true
		}},
		{"payload_too_large", 413, func(r *vlib.Rand, cfg pubCfg, it pubItem, sc bool, _ string, _ []pubItem) bool {
			limit := cfg.DefBody
			if rt := cfg.route(fmt.Sprint(it["route"])); rt != nil && rt.MaxBody > 0 {
				limit = rt.MaxBody
			}
			it["payload_b64"] = big(limit + 1)
			return true
		}},
		{"invalid_header_name", 400, func(r *vlib.Rand, cfg pubCfg, it pubItem, sc bool, _ string, _ []pubItem) bool {
			it["headers"] = map[string]string{vlib.Pick(r, []string{"Bad Name", "X:Colon", "", " X-Pad", "X-ü"}): "v"}
			return true
		}},
		{"invalid_header_value", 400, func(r *vlib.Rand, cfg pubCfg, it pubItem, sc bool, _ string, _ []pubItem) bool {
			it["headers"] = map[string]string{"X-V": vlib.Pick(r, []string{"a\r\nInjected: 1", "nul\x00byte", "bell\x07", "del\x7f"})}
			return true
		}},
		{"headers_too_large", 413, func(r *vlib.Rand, cfg pubCfg, it pubItem, sc bool, _ string, _ []pubItem) bool {
			limit := cfg.DefHdr
			if rt := cfg.route(fmt.Sprint(it["route"])); rt != nil && rt.MaxHeader > 0 {
				limit = rt.MaxHeader
			}
			it["headers"] = map[string]string{"X-Big": strings.Repeat("h", limit)}
			return true
		}},
		{"bad_received_at", 400, func(r *vlib.Rand, cfg pubCfg, it pubItem, sc bool, _ string, _ []pubItem) bool {
			it["received_at"] = "yesterday"
			return true
		}},
		{"bad_next_run_at", 400, func(r *vlib.Rand, cfg pubCfg, it pubItem, sc bool, _ string, _ []pubItem) bool {
			it["next_run_at"] = "2026-13-45"
			return true
		}},
		{"duplicate_id_in_batch", 400, func(r *vlib.Rand, cfg pubCfg, it pubItem, sc bool, _ string, batch []pubItem) bool {
			if len(batch) == 0 {
				return false
			}
			it["id"] = batch[r.Intn(len(batch))]["id"] // an earlier item of the same request
			return true
		}},
		{"id_exists_in_queue", 409, func(r *vlib.Rand, cfg pubCfg, it pubItem, sc bool, existing string, _ []pubItem) bool {
			if existing == "" {
				return false
			}
			it["id"] = existing
			return true
		}},
		{"application_without_endpoint", 400, func(r *vlib.Rand, cfg pubCfg, it pubItem, sc bool, _ string, _ []pubItem) bool {
			if sc {
				return false
			}
			it["application"] = "app1"
			return true
		}},
		{"invalid_label", 400, func(r *vlib.Rand, cfg pubCfg, it pubItem, sc bool, _ string, _ []pubItem) bool {
			if sc {
				return false
			}
			delete(it, "route")
			delete(it, "target")
			it["application"], it["endpoint_name"] = "bad label!", "ep1"
			return true
		}},
	}
}

// C15: Admin publish is validated and all-or-nothing.
func C15(c *vlib.Ctx) {
	c.Rule("generated configurations (pull / single-target / multi-target / managed / publish off / publish.direct off / publish.managed off / small-limit routes; defaults.publish_policy switches incl. actor_allow / actor_prefix; max_depth 0/12/30 with reject or drop_oldest; memory and SQLite) run through the production wiring. Batches of 1-40 (thorough: up to 1000) valid items get at most one invalid item of one of 23 kinds at a generated position, on the global and on the endpoint-scoped path, with request-level causes (audit reason, actor (absent / allowed / allowed by prefix / not allowed / case variant) and request id varied independently, disabled path, malformed JSON, unknown field, empty or >1000 items) and near-full queues. Independent validator: reject => snapshot unchanged + structured error whose item_index names the offending item; accept (200) => every item present exactly once, state queued, one resolved target, payload/headers/trace/times as published. distinct_nontrivial = distinct (backend, path kind, invalidity kind, position class, batch-size class, outcome) classes.")
	c.Assume("item_index equality is demanded when exactly one item is invalid (validation runs in phases, so with several invalid items only membership would be checkable)")
	dir := c.Scratch()
	kinds := c15Kinds()
	nCfg := c.N(80, 2400)
	perCfg := c.N(22, 40)
	acceptedBatches := 0
	for ci := 0; ci < nCfg; ci++ {
		r := vlib.Derive(c.Seed, "C15", ci)
		backend := []string{"memory", "sqlite"}[ci%2]
		cfg := c15Config(r, backend)
		a, err := l2.Start(dir, cfg.Text, nil, nil)
		if err != nil {
			c.Inconclusive("C15 config did not start: " + err.Error() + "\n" + cfg.Text)
			return
		}
		prefix := a.Compiled.AdminAPI.Prefix
		seq := 0
		snap := func() vlib.Snapshot {
			items, _ := vlib.ListAll(a.Store)
			s := vlib.Snapshot{}
			for _, it := range items {
				s[it.ID] = vlib.RowFromEnvelope(it, false)
			}
			return s
		}
		phase, rounds := "start", perCfg
	probes:
		for k := 0; k < rounds; k++ {
			scoped := r.Chance(0.3)
			var scopedRoute *pubRoute
			target := prefix + "/messages/publish"
			if scoped {
				scopedRoute = cfg.route("/managed")
				if r.Chance(0.2) {
					scopedRoute = cfg.route("/mnomanaged")
				}
				target = fmt.Sprintf("%s/applications/%s/endpoints/%s/messages/publish", prefix, scopedRoute.App, scopedRoute.EP)
			}
			n := r.Range(1, 40)
			if r.Chance(0.05) || (cfg.MaxDepth >= 600 && r.Chance(0.35)) {
				// large batches (the request limit is 1000 items), in particular around a
				// depth limit of 600/900: refused as a whole or stored as a whole
				n = r.Range(200, 1000)
			}
			if k%11 == 10 {
				n = r.Range(1, 3)
			}
			before := snap()
			var batch []pubItem
			for i := 0; i < n; i++ {
				seq++
				it := validItem(r, cfg, scopedRoute, ci*100000+seq)
				if it == nil {
					break
				}
				batch = append(batch, it)
			}
			noRoute := false
			if len(batch) == 0 {
				// no publishable route under this policy: any publish must be refused
				batch = []pubItem{{"id": fmt.Sprintf("np-%d", seq), "route": "/pullA", "payload_b64": "eA=="}}
				noRoute = true
			}
			// request-level causes
			reqCause := ""
			headers := map[string]string{"X-Hookaido-Audit-Reason": "verif run", "X-Hookaido-Audit-Actor": "tester", "X-Request-ID": "req-1"}
			// reason, actor and request id vary independently: every requirement that is
			// in force must hold, whichever other one is satisfied
			if r.Intn(16) == 0 {
				delete(headers, "X-Hookaido-Audit-Reason")
			}
			switch r.Intn(12) {
			case 0:
				delete(headers, "X-Hookaido-Audit-Actor")
			case 1:
				headers["X-Hookaido-Audit-Actor"] = "deploy-7"
			case 2:
				headers["X-Hookaido-Audit-Actor"] = "intruder"
			case 3:
				headers["X-Hookaido-Audit-Actor"] = "Tester"
			case 4:
				headers["X-Hookaido-Audit-Actor"] = "ci-bot"
			}
			if r.Intn(8) == 0 {
				delete(headers, "X-Request-ID")
			}
			if scoped && (len(cfg.Pol.ActorAllow) > 0 || len(cfg.Pol.ActorPrefix) > 0) && r.Chance(0.4) {
				// an actor the scoped policy allows, with one of the other requirements unmet
				if len(cfg.Pol.ActorAllow) > 0 {
					headers["X-Hookaido-Audit-Actor"] = "tester"
				} else {
					headers["X-Hookaido-Audit-Actor"] = "deploy-7"
				}
				headers["X-Hookaido-Audit-Reason"] = "verif run"
				if r.Bool() {
					delete(headers, "X-Request-ID")
				}
			}
			actor := headers["X-Hookaido-Audit-Actor"]
			switch {
			case headers["X-Hookaido-Audit-Reason"] == "":
				reqCause = "missing_audit_reason"
			case cfg.Pol.RequireActor && actor == "":
				reqCause = "missing_actor"
			case cfg.Pol.RequireReqID && headers["X-Request-ID"] == "":
				reqCause = "missing_request_id"
			case scoped && !cfg.Pol.actorAllowedScoped(actor):
				reqCause = "actor_not_allowed_on_scoped_path"
			}
			if cfg.Pol.RequireReqID && headers["X-Request-ID"] == "" && scoped && (len(cfg.Pol.ActorAllow) > 0 || len(cfg.Pol.ActorPrefix) > 0) {
				c.Count("scoped_publishes_without_request_id_under_actor_policy", 1)
			}
			// item-level invalidity
			invalidAt, invalidKindName, wantStatus := -1, "", 0
			if reqCause == "" && !noRoute && r.Chance(0.62) {
				existing := ""
				for id, row := range before {
					if row.State == queue.StateQueued {
						existing = id
						break
					}
				}
				for try := 0; try < 8 && invalidAt < 0; try++ {
					kd := vlib.Pick(r, kinds)
					pos := r.Intn(len(batch))
					switch r.Intn(4) {
					case 0:
						pos = 0
					case 1:
						pos = len(batch) - 1
					}
					cp := pubItem{}
					for k2, v := range batch[pos] {
						cp[k2] = v
					}
					if kd.Apply(r, cfg, cp, scoped, existing, batch[:pos]) {
						batch[pos] = cp
						invalidAt, invalidKindName, wantStatus = pos, kd.Name, kd.Status
					}
				}
			}
			bodyBytes, _ := json.Marshal(map[string]any{"items": batch})
			switch {
			case reqCause == "" && invalidAt < 0 && r.Chance(0.04):
				reqCause, bodyBytes = "malformed_json", []byte(`{"items": [`)
			case reqCause == "" && invalidAt < 0 && r.Chance(0.04):
				reqCause, bodyBytes = "unknown_field", []byte(`{"items": [{"id":"u1","route":"/pullA","surprise":true}]}`)
			case reqCause == "" && invalidAt < 0 && r.Chance(0.03):
				reqCause, bodyBytes = "empty_items", []byte(`{"items": []}`)
			case reqCause == "" && invalidAt < 0 && r.Chance(0.02):
				var many []pubItem
				for i := 0; i < 1001; i++ {
					many = append(many, pubItem{"id": fmt.Sprintf("many-%d-%d", ci, i), "route": "/pullA"})
				}
				reqCause = "more_than_1000_items"
				bodyBytes, _ = json.Marshal(map[string]any{"items": many})
			case reqCause == "" && invalidAt < 0 && r.Chance(0.03):
				reqCause = "trailing_json_document"
				bodyBytes = append(bodyBytes, []byte(` {"items":[]}`)...)
			}
			req := l2.JSONReq("POST", target, bodyBytes, "")
			for hk, hv := range headers {
				req.Header.Set(hk, hv)
			}
			resp := l2.Do(a.Admin, req)
			after := snap()
			add, rem, chg := vlib.Diff(before, after)
			c.Count("evaluations", 1)
			var er struct {
				Code      string `json:"code"`
				Detail    string `json:"detail"`
				ItemIndex *int   `json:"item_index"`
				Published int    `json:"published"`
			}
			_ = json.Unmarshal(resp.Body, &er)
			// ---- independent expectation ----
			expectReject := reqCause != "" || invalidAt >= 0
			why := reqCause + invalidKindName
			if !expectReject {
				// policy / path level
				switch {
				case !scoped && !cfg.Pol.Direct:
					expectReject, why = true, "global_direct_disabled"
				case scoped && !cfg.Pol.ManagedOn:
					expectReject, why = true, "scoped_managed_disabled"
				case scoped && !scopedRoute.Managed:
					expectReject, why = true, "route_publish_managed_off"
				case scoped && !cfg.Pol.AllowPull:
					expectReject, why = true, "pull_routes_not_allowed"
				}
				if !expectReject && len(batch) == 1 && batch[0]["id"] != nil && strings.HasPrefix(fmt.Sprint(batch[0]["id"]), "np-") {
					expectReject, why = true, "no_publishable_route"
				}
			}
			capacity := "fits"
			if cfg.MaxDepth > 0 && before.Active()+len(batch) > cfg.MaxDepth {
				capacity = "over"
				if !cfg.DropOld && !expectReject {
					expectReject, why = true, "queue_full"
				}
				if cfg.DropOld && !expectReject {
					queued := before.CountState(queue.StateQueued)
					if before.Active()+len(batch)-cfg.MaxDepth > queued {
						expectReject, why = true, "queue_full_cannot_evict"
					}
				}
			}
			posCls := "none"
			if invalidAt >= 0 {
				switch {
				case invalidAt == 0:
					posCls = "first"
				case invalidAt == len(batch)-1:
					posCls = "last"
				default:
					posCls = "middle"
				}
			}
			sizeCls := "1"
			switch {
			case len(batch) > 100:
				sizeCls = ">100"
			case len(batch) > 10:
				sizeCls = "11-100"
			case len(batch) > 1:
				sizeCls = "2-10"
			}
			c.Distinct("nontrivial", fmt.Sprintf("%s:scoped=%v:%s:%s:%s:%s:status=%d", backend, scoped, why, posCls, sizeCls, capacity, resp.Status))
			wit := map[string]any{"config": cfg.Text, "target": target, "headers": headers, "batch_size": len(batch), "invalid_at": invalidAt, "invalid_kind": invalidKindName, "request_cause": reqCause,
				"status": resp.Status, "response": string(resp.Body[:minInt(300, len(resp.Body))]), "expected_reject_because": why}
			if invalidAt >= 0 {
				wit["invalid_item"] = batch[invalidAt]
			}
			if k < 2 && ci < 3 {
				c.Sample(wit)
			}
			accepted := resp.Status == 200
			if !accepted {
				if len(add)+len(rem)+len(chg) > 0 {
					c.Violation(vlib.Signature{"class": "rejected_publish_changed_queue", "backend": backend, "why": why, "status": fmt.Sprint(resp.Status)},
						fmt.Sprintf("publish answered %d (%s) but the queue changed: added=%d removed=%d changed=%d", resp.Status, er.Code, len(add), len(rem), len(chg)), wit)
				}
				if er.Code == "" {
					c.Violation(vlib.Signature{"class": "unstructured_error", "status": fmt.Sprint(resp.Status)}, "rejected publish without a structured error body", wit)
				}
				if !expectReject {
					c.Violation(vlib.Signature{"class": "valid_batch_rejected", "backend": backend, "code": er.Code, "scoped": fmt.Sprint(scoped)},
						fmt.Sprintf("a batch of %d valid items was rejected: %d %s %s", len(batch), resp.Status, er.Code, er.Detail), wit)
				}
				if invalidAt >= 0 && reqCause == "" {
					// a policy-level refusal of the whole path comes first and carries no index
					// a policy-level refusal (whole path disabled, or the scoped route not
					// publishable at all) affects every item and comes first
					pathLevel := (!scoped && !cfg.Pol.Direct) || (scoped && (!cfg.Pol.ManagedOn || !scopedRoute.Managed || !cfg.Pol.AllowPull))
					switch {
					case pathLevel:
					case er.ItemIndex == nil:
						c.Violation(vlib.Signature{"class": "item_index_missing", "kind": invalidKindName, "scoped": fmt.Sprint(scoped)},
							fmt.Sprintf("item %d is invalid (%s) but the error names no item: %s %s", invalidAt, invalidKindName, er.Code, er.Detail), wit)
					case *er.ItemIndex != invalidAt:
						c.Violation(vlib.Signature{"class": "item_index_wrong", "kind": invalidKindName, "scoped": fmt.Sprint(scoped)},
							fmt.Sprintf("item %d is the only invalid one (%s) but item_index=%d (%s)", invalidAt, invalidKindName, *er.ItemIndex, er.Code), wit)
					case wantStatus != 0 && resp.Status != wantStatus:
						c.Violation(vlib.Signature{"class": "error_status", "kind": invalidKindName, "got": fmt.Sprint(resp.Status), "want": fmt.Sprint(wantStatus)},
							fmt.Sprintf("invalid item kind %s answered %d, expected %d (%s)", invalidKindName, resp.Status, wantStatus, er.Code), wit)
					}
				}
				continue
			}
			// accepted
			acceptedBatches++
			if expectReject {
				c.Violation(vlib.Signature{"class": "invalid_batch_accepted", "backend": backend, "why": why, "scoped": fmt.Sprint(scoped)},
					fmt.Sprintf("publish accepted (200) although it should be refused: %s", why), wit)
				continue
			}
			if er.Published != len(batch) {
				c.Violation(vlib.Signature{"class": "published_count"}, fmt.Sprintf("published=%d for a batch of %d", er.Published, len(batch)), wit)
			}
			full, _ := vlib.ListAll(a.Store)
			byID := map[string]queue.Envelope{}
			for _, e := range full {
				byID[e.ID] = e
			}
			for i, it := range batch {
				id := strings.TrimSpace(fmt.Sprint(it["id"]))
				e, ok := byID[id]
				if !ok {
					// under drop_oldest a later item of the same batch cannot evict an earlier one
					c.Violation(vlib.Signature{"class": "accepted_item_missing", "backend": backend}, fmt.Sprintf("item %d (%s) of an accepted batch is not in the queue", i, id), wit)
					break
				}
				route := "/managed"
				if scoped {
					route = scopedRoute.Path
				} else {
					route = fmt.Sprint(it["route"])
				}
				rt := cfg.route(route)
				wantTarget := rt.Targets[0]
				if t, ok := it["target"]; ok {
					wantTarget = fmt.Sprint(t)
				}
				var wantPayload []byte
				if p, ok := it["payload_b64"]; ok {
					wantPayload, _ = base64.StdEncoding.DecodeString(fmt.Sprint(p))
				}
				problems := []string{}
				if e.State != queue.StateQueued {
					problems = append(problems, "state="+string(e.State))
				}
				if e.Route != route || e.Target != wantTarget {
					problems = append(problems, fmt.Sprintf("route/target=%s %s (want %s %s)", e.Route, e.Target, route, wantTarget))
				}
				if string(e.Payload) != string(wantPayload) {
					problems = append(problems, "payload differs")
				}
				if h, ok := it["headers"].(map[string]string); ok {
					for hk, hv := range h {
						if e.Headers[hk] != hv {
							problems = append(problems, "header "+hk)
						}
					}
					if len(e.Headers) != len(h) {
						problems = append(problems, "header count")
					}
				} else if len(e.Headers) != 0 {
					problems = append(problems, "unexpected headers")
				}
				if t, ok := it["trace"].(map[string]string); ok && e.Trace["source"] != t["source"] {
					problems = append(problems, "trace")
				}
				if ra, ok := it["received_at"]; ok {
					if tt, _ := time.Parse(time.RFC3339, fmt.Sprint(ra)); !e.ReceivedAt.Equal(tt) {
						problems = append(problems, "received_at")
					}
				}
				if nr, ok := it["next_run_at"]; ok {
					if tt, _ := time.Parse(time.RFC3339, fmt.Sprint(nr)); !e.NextRunAt.Equal(tt) {
						problems = append(problems, "next_run_at")
					}
				}
				if e.Attempt != 0 || e.DeadReason != "" {
					problems = append(problems, "attempt/dead_reason set")
				}
				if len(problems) > 0 {
					c.Violation(vlib.Signature{"class": "stored_item_differs", "backend": backend}, fmt.Sprintf("item %d (%s) stored differently: %s", i, id, strings.Join(problems, ", ")), wit)
					break
				}
			}
			// nothing else may have changed except drop_oldest evictions of queued messages
			for _, id := range chg {
				c.Violation(vlib.Signature{"class": "accepted_publish_changed_other", "backend": backend}, "publish changed an existing message: "+id, wit)
				break
			}
			if len(rem) > 0 && !(cfg.DropOld && capacity == "over") {
				c.Violation(vlib.Signature{"class": "accepted_publish_removed_messages", "backend": backend}, fmt.Sprintf("publish removed %d messages without drop_oldest pressure", len(rem)), wit)
			}
			// keep the queue from filling completely: ack some through the store
			if cfg.MaxDepth > 0 && r.Chance(0.5) {
				resp, _ := a.Store.Dequeue(queue.DequeueRequest{Batch: r.Range(1, cfg.MaxDepth), LeaseTTL: time.Minute})
				for _, it := range resp.Items {
					_ = a.Store.Ack(it.LeaseID)
				}
			}
		}
		// a publish policy arrived at by a reload: one switch of the file flips and the
		// process reloads; whichever configuration is then in force (the new one if the
		// reload was applied, the old one if it was refused) decides every publish
		if phase == "start" && ci%3 == 0 {
			type flip struct {
				text string
				set  func(p *pubPolicy, v bool)
				get  func(p pubPolicy) bool
			}
			flips := []flip{
				{"require_request_id", func(p *pubPolicy, v bool) { p.RequireReqID = v }, func(p pubPolicy) bool { return p.RequireReqID }},
				{"require_actor", func(p *pubPolicy, v bool) { p.RequireActor = v }, func(p pubPolicy) bool { return p.RequireActor }},
				{"direct", func(p *pubPolicy, v bool) { p.Direct = v }, func(p pubPolicy) bool { return p.Direct }},
				{"allow_pull_routes", func(p *pubPolicy, v bool) { p.AllowPull = v }, func(p pubPolicy) bool { return p.AllowPull }},
			}
			f := flips[(ci/3)%len(flips)]
			cur := f.get(cfg.Pol)
			next := strings.Replace(cfg.Text, fmt.Sprintf(" %s %s", f.text, onoff(cur)), fmt.Sprintf(" %s %s", f.text, onoff(!cur)), 1)
			if next != cfg.Text {
				_ = a.WriteConfig(next)
				applied := a.Reload()
				c.Count("policy_reloads", 1)
				c.Distinct("nontrivial", fmt.Sprintf("policy_reload:%s:%v->%v:applied=%v", f.text, cur, !cur, applied))
				if applied {
					f.set(&cfg.Pol, !cur)
					cfg.Text = next
					c.Count("policy_reloads_applied", 1)
				}
				phase, rounds = "after_policy_reload", 12
				goto probes
			}
		}
		c15Deliverable(c, a, ci, backend)
		a.Close()
	}
	c.Set("accepted_batches", acceptedBatches)
	if acceptedBatches == 0 {
		c.Inconclusive("C15: no batch was accepted (vacuous run)")
	}
}

// c15Deliverable: at the end of a session of accepted and refused publishes every message the
// listing shows as queued and due must actually be handed out by dequeues on its (route, target):
// a refused batch that "changed nothing" according to the listing but left a message that is
// never offered again did change the queue.
func c15Deliverable(c *vlib.Ctx, a *l2.App, ci int, backend string) {
	now := time.Now()
	all, err := vlib.ListAll(a.Store)
	if err != nil {
		return
	}
	type rt struct{ route, target string }
	must := map[rt]map[string]bool{}
	for _, e := range all {
		if e.State == queue.StateQueued && !e.NextRunAt.After(now) {
			k := rt{e.Route, e.Target}
			if must[k] == nil {
				must[k] = map[string]bool{}
			}
			must[k][e.ID] = true
		}
	}
	for k, ids := range must {
		got := map[string]bool{}
		for round := 0; round < 40; round++ {
			resp, err := a.Store.Dequeue(queue.DequeueRequest{Route: k.route, Target: k.target, Batch: 100, LeaseTTL: time.Hour})
			if err != nil || len(resp.Items) == 0 {
				break
			}
			for _, it := range resp.Items {
				got[it.ID] = true
			}
		}
		c.Count("evaluations", 1)
		c.Count("end_of_session_drains", 1)
		c.Count("end_of_session_messages_due", int64(len(ids)))
		var missing []string
		for id := range ids {
			if !got[id] {
				missing = append(missing, id)
			}
		}
		if len(missing) > 0 {
			sort.Strings(missing)
			c.Violation(vlib.Signature{"class": "listed_queued_but_never_offered", "backend": backend},
				fmt.Sprintf("after the publish session on %s %d message(s) of %s -> %s are listed as queued and due but no dequeue hands them out (e.g. %s); %d were handed out", backend, len(missing), k.route, k.target, missing[0], len(got)),
				map[string]any{"config_index": ci, "route": k.route, "target": k.target, "missing": missing[:minInt(len(missing), 10)]})
		}
	}
}
