#!/bin/bash
# Runs every registered quick command on the current tree and validates the
# evidence files against the schema (local rehearsal of `vp check`).
cd "$(dirname "$0")"
SEED=${VERIF_SEED:-1}
fail=0
for id in $(python3 -c "import json;print(' '.join(c['property_id'] for c in json.load(open('MANIFEST.json'))['checks']))"); do
  [ -n "${ONLY:-}" ] && [[ " $ONLY " != *" $id "* ]] && continue
  rm -f evidence/$id.json
  t0=$(date +%s)
  out=$(VERIF_SEED=$SEED ./check $id quick 2>&1); rc=$?
  t1=$(date +%s)
  v=$(python3-vt - <<PY 2>&1
import json,jsonschema,sys
try:
    jsonschema.validate(json.load(open('evidence/$id.json')), json.load(open('/root/.vp/EVIDENCE.schema.json'))); print('evidence-ok')
except Exception as e:
    print('EVIDENCE-INVALID', str(e)[:200])
PY
)
  echo "$id rc=$rc $((t1-t0))s $v $(echo "$out" | grep -c '^VIOLATION') violations $(echo "$out" | grep -c '^KNOWN-FINDING') known"
  if [ $rc -ne 0 ] || [[ "$v" != evidence-ok ]]; then fail=1; echo "$out" | grep -v '^  sig' | tail -5 | cut -c1-300; fi
done
exit $fail
