// Package vlib holds the shared machinery of the hookaido verification harness:
// deterministic PRNG, virtual clock, verdict/evidence/replay writers and the
// known-findings matcher.
package vlib

import (
	"encoding/json"
	"fmt"
	"io"
	"log/slog"
	"os"
	"path/filepath"
	"sort"
	"strconv"
	"strings"
	"sync"
	"sync/atomic"
	"time"
)

// VerifRoot is where MANIFEST.json, evidence/, replay/ and known_findings.json live.
func VerifRoot() string {
	if v := strings.TrimSpace(os.Getenv("VERIF_ROOT")); v != "" {
		return v
	}
	return "/verif"
}

// ---------------------------------------------------------------------------
// PRNG: splitmix64, one stream per case, all derived from VERIF_SEED.

type Rand struct{ s uint64 }

func NewRand(seed uint64) *Rand { return &Rand{s: seed} }

// Derive returns an independent stream for (seed, labels...).
func Derive(seed int64, labels ...any) *Rand {
	h := uint64(seed)*0x9E3779B97F4A7C15 + 0x1234567
	for _, l := range labels {
		for _, b := range []byte(fmt.Sprint(l)) {
			h = (h ^ uint64(b)) * 0x100000001B3
		}
		h = (h ^ 0xff) * 0x100000001B3
	}
	r := &Rand{s: h}
	r.U64()
	return r
}

func (r *Rand) U64() uint64 {
	r.s += 0x9E3779B97F4A7C15
	z := r.s
	z = (z ^ (z >> 30)) * 0xBF58476D1CE4E5B9
	z = (z ^ (z >> 27)) * 0x94D049BB133111EB
	return z ^ (z >> 31)
}

// Intn returns a value in [0,n). n<=0 yields 0.
func (r *Rand) Intn(n int) int {
	if n <= 0 {
		return 0
	}
	return int(r.U64() % uint64(n))
}

// Range returns a value in [lo,hi].
func (r *Rand) Range(lo, hi int) int {
	if hi <= lo {
		return lo
	}
	return lo + r.Intn(hi-lo+1)
}

func (r *Rand) Bool() bool            { return r.U64()&1 == 1 }
func (r *Rand) Chance(p float64) bool { return r.Float() < p }
func (r *Rand) Float() float64        { return float64(r.U64()>>11) / float64(1<<53) }

func (r *Rand) Bytes(n int) []byte {
	b := make([]byte, n)
	for i := 0; i < n; i += 8 {
		v := r.U64()
		for j := 0; j < 8 && i+j < n; j++ {
			b[i+j] = byte(v >> (8 * j))
		}
	}
	return b
}

func Pick[T any](r *Rand, xs []T) T {
	var zero T
	if len(xs) == 0 {
		return zero
	}
	return xs[r.Intn(len(xs))]
}

func Shuffle[T any](r *Rand, xs []T) {
	for i := len(xs) - 1; i > 0; i-- {
		j := r.Intn(i + 1)
		xs[i], xs[j] = xs[j], xs[i]
	}
}

// ---------------------------------------------------------------------------
// Virtual clock.

type VClock struct {
	ns atomic.Int64
	// afterRead, when set, runs inside Now() after the value has been read and
	// before it is returned: a delay injected at the point where a caller of the
	// product code has read the clock but not yet used the reading.
	afterRead atomic.Pointer[func()]
}

// SetAfterRead installs (or, with nil, removes) the delay hook of Now().
func (c *VClock) SetAfterRead(f func()) {
	if f == nil {
		c.afterRead.Store(nil)
		return
	}
	c.afterRead.Store(&f)
}

// Epoch is the default start of virtual time (2026-01-01T00:00:00Z).
var Epoch = time.Date(2026, 1, 1, 0, 0, 0, 0, time.UTC)

func NewVClock(start time.Time) *VClock {
	c := &VClock{}
	c.ns.Store(start.UnixNano())
	return c
}
func (c *VClock) Now() time.Time {
	t := time.Unix(0, c.ns.Load()).UTC()
	if f := c.afterRead.Load(); f != nil {
		(*f)()
	}
	return t
}
func (c *VClock) NowNS() int64            { return c.ns.Load() }
func (c *VClock) Advance(d time.Duration) { c.ns.Add(int64(d)) }
func (c *VClock) Set(t time.Time)         { c.ns.Store(t.UnixNano()) }

// AdvanceTo moves the clock forward to t (never backwards).
func (c *VClock) AdvanceTo(t time.Time) {
	for {
		cur := c.ns.Load()
		if t.UnixNano() <= cur {
			return
		}
		if c.ns.CompareAndSwap(cur, t.UnixNano()) {
			return
		}
	}
}

// ---------------------------------------------------------------------------
// Verdict context.

type Signature map[string]string

func (s Signature) Key() string {
	ks := make([]string, 0, len(s))
	for k := range s {
		ks = append(ks, k)
	}
	sort.Strings(ks)
	var b strings.Builder
	for _, k := range ks {
		b.WriteString(k)
		b.WriteByte('=')
		b.WriteString(s[k])
		b.WriteByte(';')
	}
	return b.String()
}

type violation struct {
	Sig     Signature `json:"signature"`
	What    string    `json:"what"`
	Witness any       `json:"witness"`
	Count   int       `json:"count"`
	Replay  string    `json:"replay,omitempty"`
	Known   string    `json:"known_finding,omitempty"`
}

type Ctx struct {
	Prop  string
	Tier  string
	Seed  int64
	Level string
	start time.Time

	mu           sync.Mutex
	viol         map[string]*violation
	violOrder    []string
	inconclusive []string
	cov          map[string]any
	counters     map[string]int64
	distinct     map[string]map[string]struct{}
	samples      []any
	sampleCap    int
	assumptions  []string
	rule         string
	scratch      string
	findings     *FindingsFile
	expectKnown  map[string]bool
}

func NewCtx(prop, level string) *Ctx {
	tier := strings.TrimSpace(os.Getenv("VERIF_TIER"))
	if tier != "thorough" {
		tier = "quick"
	}
	seed := int64(1)
	if v := strings.TrimSpace(os.Getenv("VERIF_SEED")); v != "" {
		if n, err := strconv.ParseInt(v, 10, 64); err == nil {
			seed = n
		}
	}
	c := &Ctx{
		Prop: prop, Tier: tier, Seed: seed, Level: level, start: time.Now(),
		viol: map[string]*violation{}, cov: map[string]any{}, counters: map[string]int64{},
		distinct: map[string]map[string]struct{}{}, sampleCap: 12,
	}
	ff, err := LoadFindings(filepath.Join(VerifRoot(), "known_findings.json"))
	if err != nil {
		c.Inconclusive("known_findings.json unreadable: " + err.Error())
	}
	c.findings = ff
	// stale witnesses of an earlier run with the same tier/seed would be misleading
	if old, _ := filepath.Glob(filepath.Join(VerifRoot(), "replay", prop, fmt.Sprintf("%s-seed%d-*.json", tier, seed))); len(old) > 0 {
		for _, p := range old {
			_ = os.Remove(p)
		}
	}
	return c
}

func (c *Ctx) Quick() bool    { return c.Tier != "thorough" }
func (c *Ctx) Thorough() bool { return c.Tier == "thorough" }

// N picks a tier-dependent size.
func (c *Ctx) N(quick, thorough int) int {
	if c.Thorough() {
		return thorough
	}
	return quick
}

// Scratch returns a per-process scratch directory (tmpfs when available).
func (c *Ctx) Scratch() string {
	c.mu.Lock()
	defer c.mu.Unlock()
	if c.scratch != "" {
		return c.scratch
	}
	base := "/dev/shm"
	if st, err := os.Stat(base); err != nil || !st.IsDir() {
		base = os.TempDir()
	}
	if v := strings.TrimSpace(os.Getenv("VERIF_SCRATCH")); v != "" {
		base = v
	}
	dir := filepath.Join(base, fmt.Sprintf("verif.%d.%s", os.Getpid(), c.Prop))
	_ = os.RemoveAll(dir)
	if err := os.MkdirAll(dir, 0o755); err != nil {
		panic(err)
	}
	c.scratch = dir
	return dir
}

func (c *Ctx) Cleanup() {
	c.mu.Lock()
	d := c.scratch
	c.mu.Unlock()
	if d != "" {
		_ = os.RemoveAll(d)
	}
}

func (c *Ctx) Rule(s string)       { c.mu.Lock(); c.rule = s; c.mu.Unlock() }
func (c *Ctx) Assume(s string)     { c.mu.Lock(); c.assumptions = append(c.assumptions, s); c.mu.Unlock() }
func (c *Ctx) Set(k string, v any) { c.mu.Lock(); c.cov[k] = v; c.mu.Unlock() }

func (c *Ctx) Count(k string, n int64) {
	c.mu.Lock()
	c.counters[k] += n
	c.mu.Unlock()
}
func (c *Ctx) Counter(k string) int64 {
	c.mu.Lock()
	defer c.mu.Unlock()
	return c.counters[k]
}

// Distinct records that class `key` was observed in family `fam`.
func (c *Ctx) Distinct(fam, key string) {
	c.mu.Lock()
	m := c.distinct[fam]
	if m == nil {
		m = map[string]struct{}{}
		c.distinct[fam] = m
	}
	m[key] = struct{}{}
	c.mu.Unlock()
}
func (c *Ctx) DistinctN(fam string) int {
	c.mu.Lock()
	defer c.mu.Unlock()
	return len(c.distinct[fam])
}

// Sample keeps a few actual cases for the evidence file.
func (c *Ctx) Sample(v any) {
	c.mu.Lock()
	if len(c.samples) < c.sampleCap {
		c.samples = append(c.samples, v)
	}
	c.mu.Unlock()
}

func (c *Ctx) Inconclusive(why string) {
	c.mu.Lock()
	c.inconclusive = append(c.inconclusive, why)
	c.mu.Unlock()
}

// Violation records a refuting observation. sig is the structured signature
// used for de-duplication and for matching known findings.
func (c *Ctx) Violation(sig Signature, what string, witness any) {
	key := sig.Key()
	c.mu.Lock()
	defer c.mu.Unlock()
	if v, ok := c.viol[key]; ok {
		v.Count++
		return
	}
	c.viol[key] = &violation{Sig: sig, What: what, Witness: witness, Count: 1}
	c.violOrder = append(c.violOrder, key)
}

func (c *Ctx) ViolationCount() int {
	c.mu.Lock()
	defer c.mu.Unlock()
	return len(c.viol)
}

// Finish writes evidence and replay files, prints verdict lines and returns
// the process exit code (0 held, 1 violated, 2 inconclusive).
func (c *Ctx) Finish() int {
	defer c.Cleanup()
	root := VerifRoot()
	c.mu.Lock()
	defer c.mu.Unlock()

	unknown := 0
	known := 0
	replayDir := filepath.Join(root, "replay", c.Prop)
	for i, key := range c.violOrder {
		v := c.viol[key]
		if f := c.findings.Match(c.Prop, v.Sig); f != nil {
			v.Known = f.ID
			known++
			fmt.Printf("KNOWN-FINDING: property=%s %s [%s] (observed %d times: %s)\n", c.Prop, f.Description, f.ID, v.Count, v.What)
			continue
		}
		unknown++
		_ = os.MkdirAll(replayDir, 0o755)
		p := filepath.Join(replayDir, fmt.Sprintf("%s-seed%d-%d.json", c.Tier, c.Seed, i))
		b, _ := json.MarshalIndent(map[string]any{
			"property": c.Prop, "tier": c.Tier, "seed": c.Seed,
			"signature": v.Sig, "what": v.What, "count": v.Count, "witness": v.Witness,
		}, "", " ")
		_ = os.WriteFile(p, b, 0o644)
		v.Replay = p
		fmt.Printf("VIOLATION property=%s replay=%s\n", c.Prop, p)
		fmt.Printf("  what: %s\n  signature: %s\n", v.What, key)
	}

	cov := map[string]any{}
	for k, v := range c.cov {
		cov[k] = v
	}
	for k, v := range c.counters {
		if _, dup := cov[k]; !dup {
			cov[k] = v
		}
	}
	for fam, m := range c.distinct {
		cov["distinct_"+fam] = len(m)
	}
	if _, ok := cov["evaluations"]; !ok {
		cov["evaluations"] = c.counters["evaluations"]
	}
	if _, ok := cov["distinct_nontrivial"]; !ok {
		cov["distinct_nontrivial"] = len(c.distinct["nontrivial"])
	}
	cov["rule"] = c.rule
	samples := c.samples
	if samples == nil {
		samples = []any{}
	}
	cov["samples"] = samples
	if len(c.inconclusive) > 0 {
		cov["inconclusive"] = c.inconclusive
	}
	if known > 0 {
		var ids []string
		for _, key := range c.violOrder {
			if v := c.viol[key]; v.Known != "" {
				ids = append(ids, v.Known)
			}
		}
		cov["known_findings_observed"] = ids
	}
	ev := map[string]any{
		"property_id": c.Prop, "tier": c.Tier, "seed": c.Seed, "level": c.Level,
		"coverage": cov, "assumptions": c.assumptions,
		"wall_s":     float64(time.Since(c.start).Milliseconds()) / 1000,
		"violations": unknown,
	}
	if len(c.assumptions) == 0 {
		ev["assumptions"] = []string{}
	}
	_ = os.MkdirAll(filepath.Join(root, "evidence"), 0o755)
	b, err := json.MarshalIndent(ev, "", " ")
	if err == nil {
		err = os.WriteFile(filepath.Join(root, "evidence", c.Prop+".json"), append(b, '\n'), 0o644)
	}
	if err != nil {
		fmt.Printf("INCONCLUSIVE property=%s cannot write evidence: %v\n", c.Prop, err)
		return 2
	}

	evals, _ := cov["evaluations"].(int64)
	if ei, ok := cov["evaluations"].(int); ok {
		evals = int64(ei)
	}
	fmt.Printf("SUMMARY property=%s tier=%s seed=%d evaluations=%v distinct_nontrivial=%v violations=%d known=%d wall_s=%.1f\n",
		c.Prop, c.Tier, c.Seed, cov["evaluations"], cov["distinct_nontrivial"], unknown, known, time.Since(c.start).Seconds())
	if unknown > 0 {
		return 1
	}
	if len(c.inconclusive) > 0 {
		for _, s := range c.inconclusive {
			fmt.Printf("INCONCLUSIVE property=%s %s\n", c.Prop, s)
		}
		return 2
	}
	if evals == 0 {
		fmt.Printf("INCONCLUSIVE property=%s observed nothing\n", c.Prop)
		return 2
	}
	return 0
}

// ---------------------------------------------------------------------------
// Known findings.

type Finding struct {
	ID          string    `json:"id"`
	Property    string    `json:"property"`
	Signature   Signature `json:"signature"`
	Description string    `json:"description"`
}

type FindingsFile struct {
	Findings []Finding `json:"findings"`
	Fixed    []string  `json:"fixed"`
}

func LoadFindings(path string) (*FindingsFile, error) {
	b, err := os.ReadFile(path)
	if err != nil {
		if os.IsNotExist(err) {
			return &FindingsFile{}, nil
		}
		return &FindingsFile{}, err
	}
	var f FindingsFile
	if err := json.Unmarshal(b, &f); err != nil {
		return &FindingsFile{}, err
	}
	return &f, nil
}

// Match returns the finding whose signature equals sig exactly (same keys,
// same values). Anything else of the same property stays a violation.
func (f *FindingsFile) Match(prop string, sig Signature) *Finding {
	if f == nil {
		return nil
	}
	for i := range f.Findings {
		fd := &f.Findings[i]
		if fd.Property != prop || len(fd.Signature) != len(sig) {
			continue
		}
		ok := true
		for k, v := range fd.Signature {
			if sig[k] != v {
				ok = false
				break
			}
		}
		if ok {
			return fd
		}
	}
	return nil
}

// ---------------------------------------------------------------------------
// Small helpers.

func JSON(v any) string {
	b, _ := json.Marshal(v)
	return string(b)
}

// Watchdog runs fn with a generous wall-clock limit; a timeout is inconclusive.
func (c *Ctx) Watchdog(name string, d time.Duration, fn func()) bool {
	done := make(chan struct{})
	go func() {
		defer close(done)
		fn()
	}()
	select {
	case <-done:
		return true
	case <-time.After(d):
		c.Inconclusive("watchdog fired: " + name)
		return false
	}
}

// DiscardLogger returns a slog logger that drops everything.
func DiscardLogger() *slog.Logger {
	return slog.New(slog.NewTextHandler(io.Discard, &slog.HandlerOptions{Level: slog.LevelError + 10}))
}
