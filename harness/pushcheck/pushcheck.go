// Package pushcheck runs the real PushDispatcher against a scripted deliverer
// and a recording store wrapper under a harness-driven virtual clock and checks
// every settlement against an independent classification table (C06).
package pushcheck

import (
	"context"
	"errors"
	"fmt"
	"math"
	"net/url"
	"os"
	"sort"
	"strings"
	"sync"
	"time"

	"github.com/nuetzliches/hookaido/internal/dispatcher"
	"github.com/nuetzliches/hookaido/internal/queue"
	"github.com/nuetzliches/hookaido/verifharness/vlib"
)

// Behaviour scripts what a target answers to one delivery.
type Behaviour struct {
	Status int    // 100-599, or 0 with Err
	Err    string // "", "net", "timeout" (hang until the delivery context ends), "policy"
}

func (b Behaviour) String() string {
	if b.Err != "" {
		return "err:" + b.Err
	}
	return fmt.Sprint(b.Status)
}

// Expected is the independent classification table from the statement.
type Expected struct {
	Action string // ack | retry | dead
	Reason string
}

func Classify(b Behaviour, attempt int, retryMax int) Expected {
	retryable := false
	switch {
	case b.Err == "policy":
		return Expected{"dead", "policy_denied"}
	case b.Err != "":
		retryable = true
	case b.Status >= 200 && b.Status <= 299:
		return Expected{"ack", ""}
	case b.Status >= 500 || b.Status == 429 || b.Status == 408:
		retryable = true
	}
	if !retryable {
		return Expected{"dead", "no_retry"}
	}
	if attempt <= retryMax {
		return Expected{"retry", ""}
	}
	return Expected{"dead", "max_retries"}
}

// DelayBounds returns the legal [lo,hi] for the nack delay after `attempt`.
func DelayBounds(attempt int, rc dispatcher.RetryConfig) (time.Duration, time.Duration) {
	if rc.Base <= 0 {
		return 0, 0
	}
	d := float64(rc.Base) * math.Pow(2, float64(attempt-1))
	if rc.Cap > 0 && d > float64(rc.Cap) {
		d = float64(rc.Cap)
	}
	j := rc.Jitter
	if j > 1 {
		j = 1
	}
	lo := d * (1 - j)
	hi := d * (1 + j)
	// without a cap the value may exceed what a Duration holds: saturate
	const top = float64(math.MaxInt64 / 2)
	if lo > top {
		lo = top
	}
	if hi > top {
		hi = top
	}
	return time.Duration(math.Floor(lo)) - 1, time.Duration(math.Ceil(hi)) + 1
}

// ---------------------------------------------------------------------------
// Recording store wrapper (client boundary of the dispatcher).

type Event struct {
	Seq     int
	Kind    string // dequeue | ack | nack | dead | attempt | deliver
	Now     int64
	Msg     string
	Lease   string
	Attempt int
	Delay   time.Duration
	Reason  string
	OK      bool
	Status  int
	Outcome string
	Target  string
	ErrText string
}

type RecStore struct {
	queue.Store
	clock *vlib.VClock
	mu    sync.Mutex
	ev    []Event
	lease map[string]leaseInfo
	// settled[lease] is false from the moment Dequeue handed the lease to the
	// dispatcher and true once a settlement call for it has returned (with any
	// result). The clock driver must not move time while a lease is in between.
	settled map[string]bool
	// FailMutations makes every n-th lease mutation fail (fault injection; the
	// attempt bound is then not asserted, as the quantifier says).
	FailEvery int
	mutations int
	Injected  int
}

type leaseInfo struct {
	msg     string
	attempt int
	target  string
}

func NewRecStore(st queue.Store, clock *vlib.VClock) *RecStore {
	return &RecStore{Store: st, clock: clock, lease: map[string]leaseInfo{}, settled: map[string]bool{}}
}

func (s *RecStore) add(e Event) {
	s.mu.Lock()
	e.Seq = len(s.ev)
	s.ev = append(s.ev, e)
	s.mu.Unlock()
}

func (s *RecStore) Events() []Event {
	s.mu.Lock()
	defer s.mu.Unlock()
	return append([]Event(nil), s.ev...)
}

func (s *RecStore) Dequeue(req queue.DequeueRequest) (queue.DequeueResponse, error) {
	resp, err := s.Store.Dequeue(req)
	now := s.clock.NowNS()
	if err == nil {
		s.mu.Lock()
		for _, it := range resp.Items {
			s.lease[it.LeaseID] = leaseInfo{it.ID, it.Attempt, it.Target}
			s.settled[it.LeaseID] = false
			s.ev = append(s.ev, Event{Seq: len(s.ev), Kind: "dequeue", Now: now, Msg: it.ID, Lease: it.LeaseID, Attempt: it.Attempt, Target: it.Target, OK: true})
		}
		s.mu.Unlock()
	}
	return resp, err
}

var errInjected = errors.New("injected store failure")

func (s *RecStore) inject() bool {
	if s.FailEvery <= 0 {
		return false
	}
	s.mu.Lock()
	defer s.mu.Unlock()
	s.mutations++
	if s.mutations%s.FailEvery == 0 {
		s.Injected++
		return true
	}
	return false
}

// settle records a lease mutation with the clock value read BEFORE the store
// call (a lower bound of the instant the store used; the clock only moves forward).
func (s *RecStore) settle(now int64, kind, lease string, delay time.Duration, reason string, err error) {
	s.mu.Lock()
	li := s.lease[lease]
	if _, ok := s.settled[lease]; ok {
		s.settled[lease] = true
	}
	s.ev = append(s.ev, Event{Seq: len(s.ev), Kind: kind, Now: now, Msg: li.msg, Lease: lease, Attempt: li.attempt, Delay: delay, Reason: reason, OK: err == nil, ErrText: errText(err), Target: li.target})
	s.mu.Unlock()
}

// LeaseSettled: (known, settled). A lease the store shows but the recorder
// does not know yet is still being handed over by Dequeue.
func (s *RecStore) LeaseSettled(lease string) (bool, bool) {
	s.mu.Lock()
	defer s.mu.Unlock()
	v, ok := s.settled[lease]
	return ok, v
}

func errText(err error) string {
	if err == nil {
		return ""
	}
	return err.Error()
}

func (s *RecStore) Ack(l string) error {
	now := s.clock.NowNS()
	if s.inject() {
		s.settle(now, "ack", l, 0, "", errInjected)
		return errInjected
	}
	err := s.Store.Ack(l)
	s.settle(now, "ack", l, 0, "", err)
	return err
}
func (s *RecStore) Nack(l string, d time.Duration) error {
	now := s.clock.NowNS()
	if s.inject() {
		s.settle(now, "nack", l, d, "", errInjected)
		return errInjected
	}
	err := s.Store.Nack(l, d)
	s.settle(now, "nack", l, d, "", err)
	return err
}
func (s *RecStore) MarkDead(l string, reason string) error {
	now := s.clock.NowNS()
	if s.inject() {
		s.settle(now, "dead", l, 0, reason, errInjected)
		return errInjected
	}
	err := s.Store.MarkDead(l, reason)
	s.settle(now, "dead", l, 0, reason, err)
	return err
}

func (s *RecStore) batch(now int64, kind string, ls []string, d time.Duration, reason string, r queue.LeaseBatchResult, err error) {
	conf := map[string]bool{}
	for _, c := range r.Conflicts {
		conf[c.LeaseID] = true
	}
	for _, l := range ls {
		var e error
		if err != nil {
			e = err
		} else if conf[l] {
			e = queue.ErrLeaseNotFound
		}
		s.settle(now, kind, l, d, reason, e)
	}
}

func (s *RecStore) AckBatch(ls []string) (queue.LeaseBatchResult, error) {
	now := s.clock.NowNS()
	if s.inject() {
		s.batch(now, "ack", ls, 0, "", queue.LeaseBatchResult{}, errInjected)
		return queue.LeaseBatchResult{}, errInjected
	}
	r, err := s.Store.(queue.LeaseBatchStore).AckBatch(ls)
	s.batch(now, "ack", ls, 0, "", r, err)
	return r, err
}
func (s *RecStore) NackBatch(ls []string, d time.Duration) (queue.LeaseBatchResult, error) {
	now := s.clock.NowNS()
	if s.inject() {
		s.batch(now, "nack", ls, d, "", queue.LeaseBatchResult{}, errInjected)
		return queue.LeaseBatchResult{}, errInjected
	}
	r, err := s.Store.(queue.LeaseBatchStore).NackBatch(ls, d)
	s.batch(now, "nack", ls, d, "", r, err)
	return r, err
}
func (s *RecStore) MarkDeadBatch(ls []string, reason string) (queue.LeaseBatchResult, error) {
	now := s.clock.NowNS()
	if s.inject() {
		s.batch(now, "dead", ls, 0, reason, queue.LeaseBatchResult{}, errInjected)
		return queue.LeaseBatchResult{}, errInjected
	}
	r, err := s.Store.(queue.LeaseBatchStore).MarkDeadBatch(ls, reason)
	s.batch(now, "dead", ls, 0, reason, r, err)
	return r, err
}

func (s *RecStore) RecordAttempt(a queue.DeliveryAttempt) error {
	err := s.Store.RecordAttempt(a)
	s.add(Event{Kind: "attempt", Now: s.clock.NowNS(), Msg: a.EventID, Attempt: a.Attempt, Status: a.StatusCode, Outcome: string(a.Outcome), Reason: a.DeadReason, Target: a.Target, ErrText: a.Error, OK: err == nil})
	return err
}

// ---------------------------------------------------------------------------
// Scripted deliverer.

type Script func(msg, target string, nth int) Behaviour

type Deliverer struct {
	rec      *RecStore
	script   Script
	mu       sync.Mutex
	count    map[string]int
	inflight int
}

func (d *Deliverer) Deliver(ctx context.Context, dl dispatcher.Delivery) dispatcher.Result {
	d.mu.Lock()
	key := dl.ID + "\x00" + dl.URL
	d.count[key]++
	nth := d.count[key]
	d.inflight++
	d.mu.Unlock()
	defer func() { d.mu.Lock(); d.inflight--; d.mu.Unlock() }()
	b := d.script(dl.ID, dl.URL, nth)
	d.rec.add(Event{Kind: "deliver", Now: d.rec.clock.NowNS(), Msg: dl.ID, Target: dl.URL, Status: b.Status, ErrText: b.Err, Attempt: nth})
	switch b.Err {
	case "":
		return dispatcher.Result{StatusCode: b.Status}
	case "net":
		return dispatcher.Result{Err: &url.Error{Op: "Post", URL: dl.URL, Err: errors.New("connection refused")}}
	case "timeout":
		<-ctx.Done()
		return dispatcher.Result{Err: &url.Error{Op: "Post", URL: dl.URL, Err: ctx.Err()}}
	case "policy":
		return dispatcher.Result{Err: &url.Error{Op: "Post", URL: dl.URL, Err: fmt.Errorf("%w: scripted", dispatcher.ErrPolicyDenied)}}
	}
	return dispatcher.Result{Err: errors.New(b.Err)}
}

// ---------------------------------------------------------------------------

type Message struct {
	ID      string
	Route   string
	Target  string
	Headers map[string]string
}

type Scenario struct {
	Label    string
	Backend  string
	Routes   []dispatcher.RouteConfig
	Messages []Message
	Script   Script
	// RequeueDead requeues dead messages once (a second enqueue/requeue cycle).
	RequeueDead bool
	FailEvery   int
	// Real, when set, is a real deliverer (e.g. HTTPDeliverer); its results are
	// recorded and compared with what Script says the target answers.
	Real dispatcher.Deliverer
	// Oracle, when set, is the per-target configuration the oracle judges by
	// (derived independently from the configuration text); Routes is what the
	// dispatcher under test was handed.
	Oracle []dispatcher.RouteConfig
	// AfterRun, when set, receives the recorded events after the oracle ran.
	AfterRun func(evs []Event)
}

// RealDeliverer wraps a real deliverer and records its actual results.
type RealDeliverer struct {
	inner  dispatcher.Deliverer
	rec    *RecStore
	script Script
	c      *vlib.Ctx
	label  string
	mu     sync.Mutex
	count  map[string]int
	fake   *Deliverer
}

func (d *RealDeliverer) Deliver(ctx context.Context, dl dispatcher.Delivery) dispatcher.Result {
	d.mu.Lock()
	key := dl.ID + "\x00" + dl.URL
	d.count[key]++
	nth := d.count[key]
	d.mu.Unlock()
	d.fake.mu.Lock()
	d.fake.inflight++
	d.fake.mu.Unlock()
	defer func() { d.fake.mu.Lock(); d.fake.inflight--; d.fake.mu.Unlock() }()
	want := d.script(dl.ID, dl.URL, nth)
	res := d.inner.Deliver(ctx, dl)
	got := Behaviour{Status: res.StatusCode}
	if res.Err != nil {
		got.Status = 0
		switch {
		case errors.Is(res.Err, dispatcher.ErrPolicyDenied):
			got.Err = "policy"
		case errors.Is(res.Err, context.DeadlineExceeded):
			got.Err = "timeout"
		default:
			got.Err = "net"
		}
	}
	if got != want {
		d.c.Violation(vlib.Signature{"class": "deliverer_result_wrong", "want": want.String(), "got": got.String()},
			fmt.Sprintf("target scripted to answer %s, the deliverer reported %s (%v)", want, got, res.Err), map[string]any{"label": d.label, "url": dl.URL})
	}
	d.rec.add(Event{Kind: "deliver", Now: d.rec.clock.NowNS(), Msg: dl.ID, Target: dl.URL, Status: got.Status, ErrText: got.Err, Attempt: nth})
	return res
}

// Run executes one scenario and evaluates the oracle.
func Run(c *vlib.Ctx, sc Scenario) {
	if only := os.Getenv("VERIF_ONLY"); only != "" && only != sc.Label {
		return
	}
	clock := vlib.NewVClock(vlib.Epoch)
	h, err := vlib.OpenStore(sc.Backend, vlib.StoreCfg{}, clock, c.Scratch())
	if err != nil {
		c.Inconclusive("pushcheck open: " + err.Error())
		return
	}
	defer func() {
		p := h.Path
		h.Close()
		if p != "" {
			for _, suf := range []string{"", "-wal", "-shm"} {
				_ = os.Remove(p + suf)
			}
		}
	}()
	rec := NewRecStore(h.Store, clock)
	rec.FailEvery = sc.FailEvery
	del := &Deliverer{rec: rec, script: sc.Script, count: map[string]int{}}
	for _, m := range sc.Messages {
		if err := h.Store.Enqueue(queue.Envelope{ID: m.ID, Route: m.Route, Target: m.Target, Payload: []byte(m.ID), Headers: m.Headers}); err != nil {
			c.Inconclusive("pushcheck enqueue: " + err.Error())
			return
		}
	}
	var deliverer dispatcher.Deliverer = del
	if sc.Real != nil {
		deliverer = &RealDeliverer{inner: sc.Real, rec: rec, script: sc.Script, c: c, label: sc.Label, count: map[string]int{}, fake: del}
	}
	d := &dispatcher.PushDispatcher{Store: rec, Deliverer: deliverer, Routes: sc.Routes, Logger: vlib.DiscardLogger(), MaxWait: 2 * time.Millisecond}
	d.Start()
	cycles := 1
	if sc.RequeueDead {
		cycles = 2
	}
	deadline := time.Now().Add(90 * time.Second)
	ok := true
	for cyc := 0; cyc < cycles && ok; cyc++ {
		ok = drive(h, rec, clock, del, deadline)
		if ok && sc.RequeueDead && cyc == 0 {
			snap, _ := h.Snap()
			var ids []string
			for id, r := range snap {
				if r.State == queue.StateDead {
					ids = append(ids, id)
				}
			}
			sort.Strings(ids)
			rec.add(Event{Kind: "requeue_cycle", Now: clock.NowNS()})
			if len(ids) > 0 {
				_, _ = h.Store.RequeueDead(queue.DeadRequeueRequest{IDs: ids})
			}
		}
	}
	drained := d.Drain(10 * time.Second)
	if !ok || !drained {
		last := ""
		for _, e := range rec.Events() {
			if e.Kind == "watchdog" {
				last = e.ErrText
			}
		}
		c.Inconclusive(fmt.Sprintf("pushcheck %s: watchdog fired (drive ok=%v, drained=%v; last reason the clock was held: %s; %d events so far)", sc.Label, ok, drained, last, len(rec.Events())))
		return
	}
	evaluate(c, sc, h, rec)
	if sc.AfterRun != nil {
		sc.AfterRun(rec.Events())
	}
}

// drive advances virtual time whenever the dispatcher is idle until every
// message is terminal. Idle detection uses Stats (cheap); a full snapshot is
// taken only when a lease lingers without a delivery in flight (injected
// settlement failure: the lease has to expire in virtual time).
func drive(h *vlib.Handle, rec *RecStore, clock *vlib.VClock, del *Deliverer, deadline time.Time) bool {
	// The clock may only move while nothing is in motion. "Nothing in motion" is
	// decided on a listing of every message that was read twice with the same
	// result and with no delivery in flight before or after (Stats is assembled
	// from several queries and can pair the counts of one instant with the
	// earliest-due time of another).
	idleSince := time.Time{}
	firstSeen := map[string]time.Time{}
	inflight := func() int {
		del.mu.Lock()
		defer del.mu.Unlock()
		return del.inflight
	}
	same := func(a, b vlib.Snapshot) bool {
		if len(a) != len(b) {
			return false
		}
		for id, x := range a {
			y, ok := b[id]
			if !ok || x.State != y.State || x.LeaseID != y.LeaseID || x.NextRunAt != y.NextRunAt || x.Attempt != y.Attempt {
				return false
			}
		}
		return true
	}
	why := ""
	defer func() {
		if why != "" {
			rec.add(Event{Kind: "watchdog", Now: clock.NowNS(), ErrText: why})
		}
	}()
	for time.Now().Before(deadline) {
		now := clock.NowNS()
		busy := inflight() > 0
		why = fmt.Sprintf("deliveries in flight: %d", inflight())
		var next int64
		if !busy {
			s1, err1 := h.Snap()
			s2, err2 := h.Snap()
			if err1 != nil || err2 != nil || !same(s1, s2) || inflight() > 0 {
				busy = true
				why = fmt.Sprintf("listing unstable (errors %v %v)", err1, err2)
			} else {
				for _, r := range s2 {
					switch r.State {
					case queue.StateQueued:
						if r.NextRunAt <= now {
							busy = true // the dispatcher will pick it up
							why = fmt.Sprintf("message %s (%s -> %s) is queued and due since %s of virtual time but is not being dequeued", r.ID, r.Route, r.Target, time.Duration(now-r.NextRunAt))
						} else if next == 0 || r.NextRunAt < next {
							next = r.NextRunAt
						}
					case queue.StateLeased:
						// on its way through the dispatcher (handed over by Dequeue, settlement call
						// not yet returned: the clock must wait) or orphaned by a failed settlement
						// (then only lease expiry moves it on)
						known, settled := rec.LeaseSettled(r.LeaseID)
						if !known || !settled {
							first, ok := firstSeen[r.LeaseID]
							if !ok {
								first = time.Now()
								firstSeen[r.LeaseID] = first
							}
							if time.Since(first) < 10*time.Second {
								busy = true // (10s of wall clock per lease: a dispatcher that forgets a lease must not hang the run)
								why = fmt.Sprintf("lease %s of %s handed to the dispatcher (known=%v) and not settled", r.LeaseID, r.ID, known)
							}
						}
						// an orphaned lease is offered again by the first dequeue whose sweep runs
						// after expiry; SQLite sweeps at most once per 10ms of store clock, so the
						// clock has to pass lease_until by that granularity
						if t := r.LeaseUntil + int64(10*time.Millisecond); next == 0 || t < next {
							next = t
						}
					}
					if busy {
						break
					}
				}
			}
		}
		if busy {
			idleSince = time.Time{}
			time.Sleep(500 * time.Microsecond)
			continue
		}
		if next == 0 {
			if idleSince.IsZero() {
				idleSince = time.Now()
			}
			if time.Since(idleSince) > 15*time.Millisecond {
				why = ""
				return true
			}
			time.Sleep(time.Millisecond)
			continue
		}
		idleSince = time.Time{}
		if next > now {
			clock.AdvanceTo(time.Unix(0, next))
		} else {
			time.Sleep(500 * time.Microsecond)
		}
	}
	return false
}

func targetCfg(routes []dispatcher.RouteConfig, route, target string) (dispatcher.TargetConfig, bool) {
	for _, rt := range routes {
		if rt.Route != route {
			continue
		}
		for _, t := range rt.Targets {
			if t.URL == target {
				return t, true
			}
		}
	}
	return dispatcher.TargetConfig{}, false
}

func evaluate(c *vlib.Ctx, sc Scenario, h *vlib.Handle, rec *RecStore) {
	evs := rec.Events()
	final, err := h.Snap()
	if err != nil {
		c.Inconclusive("pushcheck final snapshot: " + err.Error())
		return
	}
	viol := func(class, what string, extra map[string]string, wit any) {
		sig := vlib.Signature{"class": class, "backend": sc.Backend}
		for k, v := range extra {
			sig[k] = v
		}
		c.Violation(sig, what, map[string]any{"label": sc.Label, "detail": wit})
	}
	byMsg := map[string][]Event{}
	for _, e := range evs {
		if e.Msg != "" {
			byMsg[e.Msg] = append(byMsg[e.Msg], e)
		}
	}
	cycleAt := int64(-1)
	for _, e := range evs {
		if e.Kind == "requeue_cycle" {
			cycleAt = int64(e.Seq)
		}
	}
	for _, m := range sc.Messages {
		judgeBy := sc.Routes
		if sc.Oracle != nil {
			judgeBy = sc.Oracle
		}
		tc, okT := targetCfg(judgeBy, m.Route, m.Target)
		if !okT {
			continue
		}
		es := byMsg[m.ID]
		deliveries := 0
		perCycle := map[int]int{}
		var lastNackNow int64
		var lastNackLo time.Duration
		faulted := false
		for i := 0; i < len(es); i++ {
			e := es[i]
			if e.Kind == "dequeue" {
				if lastNackNow != 0 && e.Now < lastNackNow+int64(lastNackLo) {
					viol("redelivered_too_early", fmt.Sprintf("message %s was offered again %s after the failure, lower bound %s", m.ID, time.Duration(e.Now-lastNackNow), lastNackLo), nil, es)
				}
				continue
			}
			if e.Kind != "deliver" {
				continue
			}
			deliveries++
			cyc := 0
			if cycleAt >= 0 && int64(e.Seq) > cycleAt {
				cyc = 1
			}
			perCycle[cyc]++
			// the lease under which this delivery ran = the latest dequeue before it
			attempt := 0
			lease := ""
			for j := i - 1; j >= 0; j-- {
				if es[j].Kind == "dequeue" {
					attempt, lease = es[j].Attempt, es[j].Lease
					break
				}
			}
			b := Behaviour{Status: e.Status, Err: e.ErrText}
			want := Classify(b, attempt, tc.Retry.Max)
			c.Count("evaluations", 1)
			c.Distinct("nontrivial", fmt.Sprintf("%s:att%d/max%d:%s", b, minI(attempt, tc.Retry.Max+2), tc.Retry.Max, want.Action+want.Reason))
			c.Distinct("table_cells", fmt.Sprintf("%s:%d:%d", b, attempt, tc.Retry.Max))
			// the settlement and the attempt record that follow this delivery
			var settle, att *Event
			for j := i + 1; j < len(es) && (settle == nil || att == nil); j++ {
				x := es[j]
				if x.Kind == "deliver" {
					break
				}
				if att == nil && x.Kind == "attempt" {
					att = &es[j]
				}
				if settle == nil && (x.Kind == "ack" || x.Kind == "nack" || x.Kind == "dead") && x.Lease == lease {
					settle = &es[j]
				}
			}
			if att == nil {
				viol("attempt_not_recorded", fmt.Sprintf("delivery %d of %s (%s) has no attempt record", deliveries, m.ID, b), map[string]string{"result": resultClass(b)}, es)
			} else {
				wantOutcome := map[string]string{"ack": "acked", "retry": "retry", "dead": "dead"}[want.Action]
				wantStatus := b.Status
				if att.Attempt != attempt || att.Outcome != wantOutcome || att.Reason != want.Reason || att.Status != wantStatus || (b.Err != "") != (att.ErrText != "") {
					viol("attempt_record_wrong", fmt.Sprintf("attempt record of %s delivery %d (%s): attempt=%d status=%d outcome=%s reason=%q err=%q, expected attempt=%d status=%d outcome=%s reason=%q",
						m.ID, deliveries, b, att.Attempt, att.Status, att.Outcome, att.Reason, att.ErrText, attempt, wantStatus, wantOutcome, want.Reason), map[string]string{"result": resultClass(b)}, es)
				}
			}
			if settle == nil {
				viol("not_settled", fmt.Sprintf("delivery %d of %s (%s, attempt %d) was never settled", deliveries, m.ID, b, attempt), map[string]string{"result": resultClass(b)}, es)
				continue
			}
			if !settle.OK {
				faulted = true
			}
			gotAction := map[string]string{"ack": "ack", "nack": "retry", "dead": "dead"}[settle.Kind]
			if gotAction != want.Action || (want.Action == "dead" && settle.Reason != want.Reason) {
				viol("wrong_settlement", fmt.Sprintf("%s answered %s on attempt %d (retry.max %d): settled as %s %q, expected %s %q", m.ID, b, attempt, tc.Retry.Max, gotAction, settle.Reason, want.Action, want.Reason),
					map[string]string{"result": resultClass(b), "got": gotAction + settle.Reason, "want": want.Action + want.Reason}, es)
			}
			if settle.Kind == "nack" && want.Action == "retry" {
				lo, hi := DelayBounds(attempt, tc.Retry)
				if settle.Delay < lo || settle.Delay > hi {
					viol("retry_delay_out_of_bounds", fmt.Sprintf("%s attempt %d: nack delay %s outside [%s,%s] (base %s cap %s jitter %g)", m.ID, attempt, settle.Delay, lo, hi, tc.Retry.Base, tc.Retry.Cap, tc.Retry.Jitter), nil, es)
				}
				if settle.OK {
					lastNackNow, lastNackLo = settle.Now, lo
					if lo < 0 {
						lastNackLo = 0
					}
				}
			}
		}
		if sc.FailEvery == 0 && !faulted {
			for cyc, n := range perCycle {
				if n > tc.Retry.Max+1 {
					viol("too_many_deliveries", fmt.Sprintf("%s was delivered %d times in cycle %d, retry.max is %d", m.ID, n, cyc, tc.Retry.Max), nil, es)
				}
			}
			r, present := final[m.ID]
			switch {
			case !present || r.State == queue.StateDelivered:
			case r.State == queue.StateDead && r.DeadReason != "":
			default:
				viol("not_terminal", fmt.Sprintf("%s ended as %v (present=%v) — neither delivered nor dead with a reason", m.ID, r.State, present), nil, es)
			}
			if deliveries == 0 {
				viol("never_delivered", fmt.Sprintf("%s was never sent to its target", m.ID), nil, es)
			}
		}
	}
	c.Count("scenarios", 1)
	if c.Counter("scenarios") <= 4 {
		var sample []string
		for i, e := range evs {
			if i > 16 {
				break
			}
			sample = append(sample, fmt.Sprintf("%s %s att=%d lease=%s delay=%s reason=%s status=%d ok=%v", e.Kind, e.Msg, e.Attempt, e.Lease, e.Delay, e.Reason, e.Status, e.OK))
		}
		c.Sample(map[string]any{"scenario": sc.Label, "events": len(evs), "first_events": sample})
	}
}

func resultClass(b Behaviour) string {
	switch {
	case b.Err != "":
		return "err_" + b.Err
	case b.Status < 200:
		return "1xx"
	case b.Status < 300:
		return "2xx"
	case b.Status < 400:
		return "3xx"
	case b.Status == 408 || b.Status == 429:
		return fmt.Sprint(b.Status)
	case b.Status < 500:
		return "4xx"
	}
	return "5xx"
}

func minI(a, b int) int {
	if a < b {
		return a
	}
	return b
}

var _ = strings.TrimSpace
