// vcheck runs one property check: vcheck <ID>. Tier and seed come from
// VERIF_TIER / VERIF_SEED. Exit 0 held, 1 violated, 2 inconclusive.
package main

import (
	"fmt"
	"os"
	"runtime/debug"

	"github.com/nuetzliches/hookaido/verifharness/checks"
	"github.com/nuetzliches/hookaido/verifharness/vlib"
)

type entry struct {
	level string
	fn    func(*vlib.Ctx)
}

var table = map[string]entry{
	"C01": {"fault_enumeration", checks.C01},
	"C02": {"exploration", checks.C02},
	"C03": {"exploration", checks.C03},
	"C04": {"exploration", checks.C04},
	"C05": {"exploration", checks.C05},
	"C06": {"exploration", checks.C06},
	"C07": {"exploration", checks.C07},
	"C08": {"exploration", checks.C08},
	"C09": {"exploration", checks.C09},
	"C10": {"exploration", checks.C10},
	"C11": {"exploration", checks.C11},
	"C12": {"exploration", checks.C12},
	"C13": {"exploration", checks.C13},
	"C14": {"exploration", checks.C14},
	"C15": {"exploration", checks.C15},
	"C16": {"exploration", checks.C16},
	"C17": {"exploration", checks.C17},
	"C18": {"fault_enumeration", checks.C18},
	"C19": {"exploration", checks.C19},
	"C20": {"exploration", checks.C20},
}

func main() {
	if len(os.Args) < 2 {
		fmt.Fprintln(os.Stderr, "usage: vcheck <property-id>")
		os.Exit(2)
	}
	id := os.Args[1]
	e, ok := table[id]
	if !ok {
		fmt.Fprintf(os.Stderr, "unknown property %q\n", id)
		os.Exit(2)
	}
	c := vlib.NewCtx(id, e.level)
	func() {
		defer func() {
			if r := recover(); r != nil {
				c.Inconclusive(fmt.Sprintf("harness panic: %v\n%s", r, debug.Stack()))
			}
		}()
		e.fn(c)
	}()
	os.Exit(c.Finish())
}
