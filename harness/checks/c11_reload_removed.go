package checks

import (
	"context"
	"encoding/json"
	"fmt"
	"net"
	"strings"
	"time"

	"google.golang.org/grpc"
	"google.golang.org/grpc/codes"
	"google.golang.org/grpc/credentials/insecure"
	"google.golang.org/grpc/metadata"
	"google.golang.org/grpc/status"
	"google.golang.org/grpc/test/bufconn"
	"google.golang.org/protobuf/types/known/durationpb"

	"github.com/nuetzliches/hookaido/internal/queue"
	workerapipb "github.com/nuetzliches/hookaido/internal/workerapi/proto"
	"github.com/nuetzliches/hookaido/verifharness/l2"
	"github.com/nuetzliches/hookaido/verifharness/vlib"
)

// c11ReloadRemovedRoute: the set of pull endpoints and their allowlists are
// those of the configuration in force, also after live reloads that take
// endpoints away.
//
// Workload: configurations with 3-4 pull routes - "mixed" (global pull_api
// tokens; some routes declare their own tokens, some rely on the global ones)
// and "noglobal" (no global tokens at all, every route declares its own). A
// few messages are queued on every route and one per route is leased with a
// lease id the caller knows. Then the production reload path applies a file
// that REMOVES one pull route (in turn one with own tokens, one relying on the
// global tokens), RENAMES the pull path of another and leaves the rest as it
// was; a second reload puts the original file back (now the renamed route's
// new path is the one that no longer exists).
//
// Oracle, evaluated after the start and after each reload over HTTP and gRPC
// for dequeue/ack/nack/extend:
//
//	(a) a path that is not a pull endpoint of the file in force addresses no
//	    endpoint, hence no allowlist can admit the request: whatever the
//	    credential (none, scheme alone, the global token, the removed route's
//	    former token, the renamed route's token, another route's token) the
//	    answer is not a success and the store snapshot (states, lease ids,
//	    lease deadlines) is identical before and after;
//	(b) an endpoint of the file in force answers by its effective allowlist
//	    (own tokens if it declares any, else the global ones): not authorized
//	    => 401/Unauthenticated and snapshot unchanged; authorized => not 401.
//
// Nothing depends on the wall clock.

type c11rrRoute struct {
	Route    string
	Path     string
	Tokens   []string // own tokens, nil = relies on the global ones
	Internal bool
}

type c11rrFile struct {
	Prefix string
	Global []string
	Admin  string
	Routes []c11rrRoute
}

func (f c11rrFile) text() string {
	var b strings.Builder
	b.WriteString("ingress { listen 127.0.0.1:0 }\n")
	b.WriteString("pull_api { listen 127.0.0.2:0\n grpc_listen 127.0.0.4:0\n")
	if f.Prefix != "" {
		fmt.Fprintf(&b, " prefix %s\n", f.Prefix)
	}
	for _, t := range f.Global {
		fmt.Fprintf(&b, " auth token %s\n", l2.Quote("raw:"+t))
	}
	fmt.Fprintf(&b, "}\nadmin_api { listen 127.0.0.3:0\n auth token %s\n}\n", l2.Quote("raw:"+f.Admin))
	for _, rt := range f.Routes {
		ch := ""
		if rt.Internal {
			ch = "internal "
		}
		fmt.Fprintf(&b, "%s%s {\n queue { backend memory }\n pull { path %s\n", ch, rt.Route, rt.Path)
		for _, t := range rt.Tokens {
			fmt.Fprintf(&b, "  auth token %s\n", l2.Quote("raw:"+t))
		}
		b.WriteString(" } }\n")
	}
	return b.String()
}

// allow is the effective allowlist of a pull path under this file; ok=false
// when the path is no endpoint of the file.
func (f c11rrFile) allow(path string) (tokens []string, route string, ok bool) {
	for _, rt := range f.Routes {
		if rt.Path == path {
			if len(rt.Tokens) > 0 {
				return rt.Tokens, rt.Route, true
			}
			return f.Global, rt.Route, true
		}
	}
	return nil, "", false
}

type c11rrCred struct {
	Name   string
	Values []string // Authorization values, nil = header absent
	Token  string
}

// c11rrStale is a pull path that was an endpoint of an earlier file and is
// none of the file in force; Route is the route whose messages it used to serve.
type c11rrStale struct {
	Kind  string
	Path  string
	Route string
}

type c11rrRun struct {
	c      *vlib.Ctx
	a      *l2.App
	gc     workerapipb.WorkerServiceClient
	layout string
	prefix string
	known  map[string]string // route -> lease id the caller knows
	nextID int
	base   map[string]any
}

func (x *c11rrRun) snap() vlib.Snapshot {
	items, _ := vlib.ListAll(x.a.Store)
	s := vlib.Snapshot{}
	for _, it := range items {
		s[it.ID] = vlib.RowFromEnvelope(it, true)
	}
	return s
}

func (x *c11rrRun) enqueue(route string) {
	x.nextID++
	_ = x.a.Store.Enqueue(queue.Envelope{ID: fmt.Sprintf("rr-%s-%d", route[1:], x.nextID), Route: route, Target: "pull", Payload: []byte(fmt.Sprintf("p%d", x.nextID))})
}

// prep makes a wrongly served request on route visible: at least two queued
// messages to be dequeued and one leased message whose lease id is known.
func (x *c11rrRun) prep(route string) string {
	s := x.snap()
	queued, leaseOK := 0, false
	for _, row := range s {
		if row.Route != route {
			continue
		}
		if row.State == queue.StateQueued {
			queued++
		}
		if row.State == queue.StateLeased && row.LeaseID != "" && row.LeaseID == x.known[route] {
			leaseOK = true
		}
	}
	if !leaseOK {
		x.enqueue(route)
		queued++
		if resp, _ := x.a.Store.Dequeue(queue.DequeueRequest{Route: route, Target: "pull", Batch: 1, LeaseTTL: time.Hour}); len(resp.Items) == 1 {
			x.known[route] = resp.Items[0].LeaseID
			queued--
		}
	}
	for ; queued < 2; queued++ {
		x.enqueue(route)
	}
	return x.known[route]
}

type c11rrAnswer struct {
	Success bool
	Unauth  bool
	Status  string
	Items   int
}

func (x *c11rrRun) httpCall(path, op, lease string, cr c11rrCred) c11rrAnswer {
	body := map[string]any{}
	switch op {
	case "dequeue":
		body["batch"], body["lease_ttl"] = 2, "10m"
	case "ack", "nack":
		body["lease_id"] = lease
	case "extend":
		body["lease_id"], body["extend_by"] = lease, "1m"
	}
	req := l2.JSONReq("POST", x.prefix+path+"/"+op, body, "")
	req.Header.Del("Authorization")
	for _, v := range cr.Values {
		req.Header.Add("Authorization", v)
	}
	resp := l2.Do(x.a.Pull, req)
	ans := c11rrAnswer{Success: resp.Status >= 200 && resp.Status < 300, Unauth: resp.Status == 401, Status: fmt.Sprint(resp.Status)}
	if op == "dequeue" && ans.Success {
		var out struct {
			Items []json.RawMessage `json:"items"`
		}
		_ = resp.JSON(&out)
		ans.Items = len(out.Items)
	}
	return ans
}

func (x *c11rrRun) grpcCall(path, op, lease string, cr c11rrCred) c11rrAnswer {
	ctx := context.Background()
	if cr.Values != nil {
		md := metadata.MD{}
		for _, v := range cr.Values {
			md.Append("authorization", v)
		}
		ctx = metadata.NewOutgoingContext(ctx, md)
	}
	var err error
	items := 0
	switch op {
	case "dequeue":
		var out *workerapipb.DequeueResponse
		out, err = x.gc.Dequeue(ctx, &workerapipb.DequeueRequest{Endpoint: path, Batch: 2, LeaseTtl: durationpb.New(10 * time.Minute)})
		if err == nil && out != nil {
			items = len(out.Items)
		}
	case "ack":
		_, err = x.gc.Ack(ctx, &workerapipb.AckRequest{Endpoint: path, LeaseId: lease})
	case "nack":
		_, err = x.gc.Nack(ctx, &workerapipb.NackRequest{Endpoint: path, LeaseId: lease})
	case "extend":
		_, err = x.gc.Extend(ctx, &workerapipb.ExtendRequest{Endpoint: path, LeaseId: lease, ExtendBy: durationpb.New(time.Minute)})
	}
	code := status.Code(err)
	return c11rrAnswer{Success: code == codes.OK, Unauth: code == codes.Unauthenticated, Status: code.String(), Items: items}
}

var c11rrOps = []string{"dequeue", "ack", "nack", "extend"}

func (x *c11rrRun) witness(phase, path, op string, cr c11rrCred, ans c11rrAnswer, inForce c11rrFile, add, rem, chg []string) map[string]any {
	w := map[string]any{"phase": phase, "path": path, "op": op, "credential": cr.Name, "values": cr.Values, "answer": ans.Status, "items_returned": ans.Items,
		"file_in_force": inForce.text(), "added": add, "removed": rem, "changed": chg}
	for k, v := range x.base {
		w[k] = v
	}
	return w
}

// probeStale is clause (a).
func (x *c11rrRun) probeStale(phase string, inForce c11rrFile, st c11rrStale, creds []c11rrCred) {
	for _, cr := range creds {
		for _, op := range c11rrOps {
			for _, surface := range []string{"pull_http", "worker_grpc"} {
				lease := x.prep(st.Route)
				before := x.snap()
				var ans c11rrAnswer
				if surface == "pull_http" {
					ans = x.httpCall(st.Path, op, lease, cr)
				} else {
					ans = x.grpcCall(st.Path, op, lease, cr)
				}
				add, rem, chg := vlib.Diff(before, x.snap())
				changed := len(add)+len(rem)+len(chg) > 0
				presented := "a_token"
				if cr.Token == "" {
					presented = "no_token"
				}
				x.c.Count("evaluations", 1)
				x.c.Count("reload_removed_stale_path_probes", 1)
				x.c.Distinct("nontrivial", fmt.Sprintf("reload_removed:%s:%s:%s:stale=%s:%s:cred=%s:answer=%s:changed=%v", x.layout, phase, surface, st.Kind, op, cr.Name, ans.Status, changed))
				if ans.Success {
					x.c.Violation(vlib.Signature{"class": "endpoint_of_replaced_config_still_served", "surface": surface, "stale": st.Kind, "presented": presented},
						fmt.Sprintf("%s (%s): %s %s on %s, which is no pull endpoint of the configuration in force (%s), with credential %q was answered %s (items returned: %d, queue changed: %v)",
							x.layout, phase, surface, op, st.Path, st.Kind, cr.Name, ans.Status, ans.Items, changed),
						x.witness(phase, st.Path, op, cr, ans, inForce, add, rem, chg))
				}
				if changed {
					x.c.Violation(vlib.Signature{"class": "endpoint_of_replaced_config_changed_state", "surface": surface, "stale": st.Kind, "presented": presented},
						fmt.Sprintf("%s (%s): %s %s on %s, which is no pull endpoint of the configuration in force (%s), with credential %q changed the queue: added=%v removed=%v changed=%v (answer %s)",
							x.layout, phase, surface, op, st.Path, st.Kind, cr.Name, add, rem, chg, ans.Status),
						x.witness(phase, st.Path, op, cr, ans, inForce, add, rem, chg))
				}
			}
		}
	}
}

// probeLive is clause (b). It returns the number of authorized requests seen.
func (x *c11rrRun) probeLive(phase string, inForce c11rrFile, foreignExtra []c11rrCred) int {
	authorizedSeen := 0
	for _, rt := range inForce.Routes {
		allow, route, _ := inForce.allow(rt.Path)
		kind := "global_allowlist"
		if len(rt.Tokens) > 0 {
			kind = "own_allowlist"
		}
		creds := []c11rrCred{{Name: "none"}, {Name: "bearer_alone", Values: []string{"Bearer"}}}
		for i, t := range allow {
			creds = append(creds, c11rrCred{Name: fmt.Sprintf("valid%d", i), Values: []string{"Bearer " + t}, Token: t})
		}
		if len(allow) > 0 {
			v := allow[0]
			creds = append(creds,
				c11rrCred{Name: "prefix", Values: []string{"Bearer " + v[:len(v)-1]}, Token: v[:len(v)-1]},
				c11rrCred{Name: "case_variant", Values: []string{"Bearer " + strings.ToUpper(v)}, Token: strings.ToUpper(v)})
		}
		if len(rt.Tokens) > 0 {
			for _, g := range inForce.Global {
				creds = append(creds, c11rrCred{Name: "global_token_on_override_route", Values: []string{"Bearer " + g}, Token: g})
			}
		}
		for _, other := range inForce.Routes {
			if other.Route != rt.Route && len(other.Tokens) > 0 {
				creds = append(creds, c11rrCred{Name: "other_route_token", Values: []string{"Bearer " + other.Tokens[0]}, Token: other.Tokens[0]})
			}
		}
		creds = append(creds, foreignExtra...)
		for _, cr := range creds {
			authorized := cr.Token != "" && contains(allow, cr.Token)
			for _, op := range c11rrOps {
				for _, surface := range []string{"pull_http", "worker_grpc"} {
					lease := x.prep(route)
					before := x.snap()
					var ans c11rrAnswer
					if surface == "pull_http" {
						ans = x.httpCall(rt.Path, op, lease, cr)
					} else {
						ans = x.grpcCall(rt.Path, op, lease, cr)
					}
					add, rem, chg := vlib.Diff(before, x.snap())
					changed := len(add)+len(rem)+len(chg) > 0
					x.c.Count("evaluations", 1)
					x.c.Count("reload_removed_live_endpoint_probes", 1)
					x.c.Distinct("nontrivial", fmt.Sprintf("reload_removed:%s:%s:%s:live=%s:%s:cred=%s:auth=%v:unauth=%v:changed=%v", x.layout, phase, surface, kind, op, cr.Name, authorized, ans.Unauth, changed))
					sig := vlib.Signature{"surface": surface, "op": op, "credential": cr.Name, "after": "reload_removed_route:" + phase, "allowlist": kind}
					if authorized {
						authorizedSeen++
						if ans.Unauth {
							sig["class"] = "authorized_rejected"
							x.c.Violation(sig, fmt.Sprintf("%s (%s): %s %s on %s with a token of the endpoint's effective allowlist (%s) was answered %s", x.layout, phase, surface, op, rt.Path, kind, ans.Status),
								x.witness(phase, rt.Path, op, cr, ans, inForce, add, rem, chg))
						}
						continue
					}
					if !ans.Unauth {
						sig["class"] = "unauthorized_not_rejected"
						x.c.Violation(sig, fmt.Sprintf("%s (%s): %s %s on %s (%s) with credential %q is not authorized but was answered %s, not 401/Unauthenticated (changed=%v)", x.layout, phase, surface, op, rt.Path, kind, cr.Name, ans.Status, changed),
							x.witness(phase, rt.Path, op, cr, ans, inForce, add, rem, chg))
					}
					if changed {
						sig2 := vlib.Signature{"class": "unauthorized_changed_state"}
						for k, v := range sig {
							if k != "class" {
								sig2[k] = v
							}
						}
						x.c.Violation(sig2, fmt.Sprintf("%s (%s): %s %s on %s (%s) with credential %q changed the queue: added=%v removed=%v changed=%v", x.layout, phase, surface, op, rt.Path, kind, cr.Name, add, rem, chg),
							x.witness(phase, rt.Path, op, cr, ans, inForce, add, rem, chg))
					}
				}
			}
		}
	}
	return authorizedSeen
}

func c11ReloadRemovedRoute(c *vlib.Ctx, dir string) {
	layouts := []string{"mixed_remove_own_rename_global", "mixed_remove_global_rename_own", "noglobal_remove_own_rename_own"}
	nCases := c.N(6, 90)
	for ci := 0; ci < nCases; ci++ {
		layout := layouts[ci%len(layouts)]
		r := vlib.Derive(c.Seed, "C11reloadRemoved", ci)
		tok := func(tag string) string { return fmt.Sprintf("%s-%016x", tag, r.U64()) }

		// ---- the original file ----
		orig := c11rrFile{Admin: tok("Atok")}
		if r.Chance(0.4) {
			orig.Prefix = "/pull"
		}
		noGlobal := strings.HasPrefix(layout, "noglobal")
		if !noGlobal {
			for i := 0; i < r.Range(1, 2); i++ {
				orig.Global = append(orig.Global, tok("Gtok"))
			}
		}
		n := r.Range(3, 4)
		for i := 0; i < n; i++ {
			rt := c11rrRoute{Route: fmt.Sprintf("/in%d", i), Path: fmt.Sprintf("/e%d", i), Internal: r.Chance(0.25)}
			own := noGlobal || i == 0 || (i > 1 && r.Bool()) // mixed: /in0 own, /in1 global, the rest either
			if own {
				for k := 0; k < r.Range(1, 2); k++ {
					rt.Tokens = append(rt.Tokens, tok(fmt.Sprintf("Rtok%d", i)))
				}
			}
			orig.Routes = append(orig.Routes, rt)
		}
		pickKind := func(own bool, not int) int {
			var idx []int
			for i, rt := range orig.Routes {
				if i != not && (len(rt.Tokens) > 0) == own {
					idx = append(idx, i)
				}
			}
			return vlib.Pick(r, idx)
		}
		var removed, renamed int
		switch layout {
		case "mixed_remove_own_rename_global":
			removed = pickKind(true, -1)
			renamed = pickKind(false, removed)
		case "mixed_remove_global_rename_own":
			removed = pickKind(false, -1)
			renamed = pickKind(true, removed)
		default:
			removed = pickKind(true, -1)
			renamed = pickKind(true, removed)
		}
		// ---- the file of the first reload: one route gone, one pull path renamed ----
		next := c11rrFile{Prefix: orig.Prefix, Global: orig.Global, Admin: orig.Admin}
		newPath := fmt.Sprintf("/moved%d", renamed)
		for i, rt := range orig.Routes {
			if i == removed {
				continue
			}
			if i == renamed {
				rt.Path = newPath
			}
			next.Routes = append(next.Routes, rt)
		}
		rmRoute, rnRoute := orig.Routes[removed], orig.Routes[renamed]

		a, err := l2.Start(dir, orig.text(), nil, vlib.NewVClock(vlib.Epoch))
		if err != nil {
			c.Inconclusive("C11 reload-removed-route config did not start: " + err.Error() + "\n" + orig.text())
			return
		}
		if a.GRPC == nil || a.Pull == nil {
			c.Inconclusive("C11 reload-removed-route: no pull HTTP / gRPC server in the production wiring")
			a.Close()
			return
		}
		ln := bufconn.Listen(1 << 20)
		go func() { _ = a.GRPC.Serve(ln) }()
		conn, err := grpc.NewClient("passthrough:///buf", grpc.WithContextDialer(func(ctx context.Context, _ string) (net.Conn, error) { return ln.DialContext(ctx) }), grpc.WithTransportCredentials(insecure.NewCredentials()))
		if err != nil {
			c.Inconclusive("C11 reload-removed-route: gRPC client: " + err.Error())
			a.Close()
			return
		}
		closeAll := func() { _ = conn.Close(); _ = ln.Close(); a.Close() }

		x := &c11rrRun{c: c, a: a, gc: workerapipb.NewWorkerServiceClient(conn), layout: layout, prefix: a.Compiled.PullAPI.Prefix, known: map[string]string{},
			base: map[string]any{"layout": layout, "original_file": orig.text(), "reloaded_file": next.text(), "removed_route": rmRoute.Route, "removed_path": rmRoute.Path,
				"renamed_route": rnRoute.Route, "renamed_from": rnRoute.Path, "renamed_to": newPath}}
		for _, rt := range orig.Routes {
			for k := 0; k < 3; k++ {
				x.enqueue(rt.Route)
			}
			x.prep(rt.Route)
		}

		// credentials tried on paths that address no endpoint
		staleCreds := []c11rrCred{{Name: "none"}, {Name: "bearer_alone", Values: []string{"Bearer"}}}
		for _, g := range orig.Global {
			staleCreds = append(staleCreds, c11rrCred{Name: "global_token", Values: []string{"Bearer " + g}, Token: g})
		}
		if len(rmRoute.Tokens) > 0 {
			staleCreds = append(staleCreds, c11rrCred{Name: "removed_route_former_token", Values: []string{"Bearer " + rmRoute.Tokens[0]}, Token: rmRoute.Tokens[0]})
		}
		if len(rnRoute.Tokens) > 0 {
			staleCreds = append(staleCreds, c11rrCred{Name: "renamed_route_token", Values: []string{"Bearer " + rnRoute.Tokens[0]}, Token: rnRoute.Tokens[0]})
		}
		for i, rt := range orig.Routes {
			if i != removed && i != renamed && len(rt.Tokens) > 0 {
				staleCreds = append(staleCreds, c11rrCred{Name: "unchanged_route_token", Values: []string{"Bearer " + rt.Tokens[0]}, Token: rt.Tokens[0]})
				break
			}
		}
		// on endpoints of the reloaded file the removed route's former token is a foreign one
		var formerTok []c11rrCred
		if len(rmRoute.Tokens) > 0 {
			formerTok = []c11rrCred{{Name: "removed_route_former_token", Values: []string{"Bearer " + rmRoute.Tokens[0]}, Token: rmRoute.Tokens[0]}}
		}

		authorizedSeen := 0
		c.Count("reload_removed_cases", 1)
		// phase 0: the original file, as started (the later-removed endpoints answer by their allowlists)
		authorizedSeen += x.probeLive("as_started", orig, nil)
		x.probeStale("as_started", orig, c11rrStale{Kind: "path_of_a_later_file", Path: newPath, Route: rnRoute.Route}, staleCreds)

		// phase 1: live reload to the file without the removed route
		ok := true
		_ = a.WriteConfig(next.text())
		applied := a.Reload()
		c.Distinct("nontrivial", fmt.Sprintf("reload_removed:%s:remove_reload_applied=%v:routes=%d:prefix=%q", layout, applied, n, orig.Prefix))
		if !applied {
			c.Inconclusive("C11 reload-removed-route: the reload that removes one of several pull routes was not applied (" + layout + ")\n" + next.text())
			ok = false
		}
		if ok {
			c.Count("reload_removed_applied_reloads", 1)
			x.probeStale("after_remove", next, c11rrStale{Kind: "removed_route_path", Path: rmRoute.Path, Route: rmRoute.Route}, staleCreds)
			x.probeStale("after_remove", next, c11rrStale{Kind: "renamed_route_old_path", Path: rnRoute.Path, Route: rnRoute.Route}, staleCreds)
			authorizedSeen += x.probeLive("after_remove", next, formerTok)

			// phase 2: the original file is put back
			_ = a.WriteConfig(orig.text())
			applied = a.Reload()
			c.Distinct("nontrivial", fmt.Sprintf("reload_removed:%s:restore_reload_applied=%v", layout, applied))
			if !applied {
				c.Inconclusive("C11 reload-removed-route: the reload that puts the original file back was not applied (" + layout + ")\n" + orig.text())
			} else {
				c.Count("reload_removed_applied_reloads", 1)
				x.probeStale("after_restore", orig, c11rrStale{Kind: "renamed_route_new_path_after_restore", Path: newPath, Route: rnRoute.Route}, staleCreds)
				authorizedSeen += x.probeLive("after_restore", orig, nil)
			}
		}
		if ci == 0 {
			c.Sample(map[string]any{"reload_removed_route_case": x.base})
		}
		closeAll()
		if ok && authorizedSeen == 0 {
			c.Inconclusive("C11 reload-removed-route: no authorized request observed (vacuous case)")
		}
	}
}
