package storecheck

import "os"

func removeDB(p string) {
	for _, suf := range []string{"", "-wal", "-shm", "-journal"} {
		_ = os.Remove(p + suf)
	}
}

// RemoveDB deletes a SQLite file with its WAL/SHM companions.
func RemoveDB(p string) { removeDB(p) }
