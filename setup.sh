#!/bin/bash
# Builds the harness (plain and -race) and the instrumented product binary once,
# offline, so that the per-check rebuilds hit a warm build cache.
set -e
cd "$(dirname "$0")"
. ./env.sh
mkdir -p .build evidence
(cd harness && go build -tags verif -o ../.build/vcheck ./cmd/vcheck)
(cd harness && go build -tags verif -race -o ../.build/vcheck-race ./cmd/vcheck)
(cd /repo && go build -tags verif -o /verif/.build/hookaido-verif ./cmd/hookaido)
echo setup ok
