package checks

import (
	"context"
	"database/sql"
	"encoding/base64"
	"encoding/json"
	"fmt"
	"net/http"
	"os"
	"path/filepath"
	"sort"
	"sync"
	"sync/atomic"
	"time"

	_ "modernc.org/sqlite"

	"github.com/nuetzliches/hookaido/verifharness/l3"
	"github.com/nuetzliches/hookaido/verifharness/vlib"
)

// Two variants of the queue limits, because the store enqueues through
// different code with and without a depth limit: the default (no queue_limits
// block: max_depth 10000, reject) and an unlimited queue (max_depth 0).
var c01BusyVariants = []struct{ name, limits string }{
	{"unlimited_depth", "queue_limits { max_depth 0 }\n"},
	{"default_limits", ""},
}

const c01BusyConfig = `ingress { listen %INGRESS% }
pull_api { listen %PULL%
 auth token raw:tok }
admin_api { listen %ADMIN% }
/bw { pull { path /pull/bw } }
`

// how long the foreign connection keeps the write lock at least: longer than
// three times the store's busy_timeout of 5 s
const c01BusyHold = 17500 * time.Millisecond

// the lock is kept beyond c01BusyHold until the first request sent under it has
// been answered, but never longer than this
const c01BusyHoldCap = 30 * time.Second

type c01BusyReq struct {
	Kind           string            `json:"kind"`  // ingress | publish
	Phase          string            `json:"phase"` // before_lock | under_lock | after_lock
	Bodies         map[string][]byte `json:"-"`     // marker -> payload sent
	Markers        []string          `json:"markers"`
	Status         int               `json:"status"` // 0 = no status line received
	Err            string            `json:"error,omitempty"`
	SentMs         int64             `json:"sent_ms_after_lock"`
	AnsweredMs     int64             `json:"answered_ms_after_lock"`
	AnsweredLocked bool              `json:"answered_while_lock_held"`
	Response       string            `json:"response,omitempty"`
}

func (q *c01BusyReq) acked() bool {
	return q.Err == "" && ((q.Kind == "ingress" && q.Status == 202) || (q.Kind == "publish" && q.Status == 200))
}

// c01BusyWriter: the acknowledgement while somebody else holds the database's
// write lock. The real binary runs on SQLite (once with an unlimited queue, once
// with the default depth limit, in separate processes side by side); a second
// connection to the same file (what `hookaido mcp`, a backup or an operator's
// sqlite3 session is) takes BEGIN IMMEDIATE and keeps it for longer than the
// store is willing to wait. Ingress requests and an Admin publish arrive
// meanwhile - from one sender, one after the other, or from several senders at
// once (again separate processes); every answer goes into a ledger. Then the lock is rolled back, the
// process is killed, restarted on the same file and listed. What was answered
// 202 / 200 must be there exactly once with the payload that was sent; what was
// answered otherwise or not at all may or may not be; nothing else may exist.
//
// It starts the trials in the background and returns the function that waits
// for them, so that they overlap with the other trials of the property.
func c01BusyWriter(c *vlib.Ctx, root string) func() {
	var wg sync.WaitGroup
	for _, v := range c01BusyVariants {
		for _, pattern := range []string{"sequential", "concurrent"} {
			wg.Add(1)
			go func(name, limits, pattern string) {
				defer wg.Done()
				c01BusyWriterTrial(c, root, name+"-"+pattern, c01BusyConfig+limits, pattern)
			}(v.name, v.limits, pattern)
		}
	}
	return wg.Wait
}

func c01BusyWriterTrial(c *vlib.Ctx, root, variant, cfg, pattern string) {
	dir := filepath.Join(root, "busywriter-"+variant)
	defer os.RemoveAll(dir)
	p, err := l3.New(dir, cfg)
	if err != nil {
		c.Inconclusive("C01 busy writer " + variant + ": " + err.Error())
		return
	}
	// a request may legitimately wait several busy timeouts for its answer
	p.Client = &http.Client{Timeout: 40 * time.Second, Transport: &http.Transport{MaxIdleConnsPerHost: 16}}
	env := []string{"VERIF_SQLITE_CHECKPOINT_INTERVAL=40ms"}
	if err := p.StartHealthy(l3.StartOpts{Env: env}, 60*time.Second); err != nil {
		c.Inconclusive("C01 busy writer " + variant + ": start: " + err.Error())
		p.Kill()
		return
	}
	defer func() {
		if !p.Exited() {
			p.Kill()
		}
	}()

	var mu sync.Mutex
	var reqs []*c01BusyReq
	var lockedAt time.Time
	var lockHeld atomic.Bool
	body := func(marker string) []byte {
		return []byte("mk:" + marker + ":busy-writer-payload-" + sha16([]byte(marker+fmt.Sprint(c.Seed))))
	}
	since := func() int64 {
		if lockedAt.IsZero() {
			return 0
		}
		return time.Since(lockedAt).Milliseconds()
	}
	finish := func(q *c01BusyReq, resp l3.Resp) {
		// read the flag first: "answered while the lock was held" is only claimed
		// when the flag was still up after the answer had arrived
		held := lockHeld.Load()
		mu.Lock()
		defer mu.Unlock()
		q.AnsweredMs = since()
		q.AnsweredLocked = held && q.Phase == "under_lock"
		if resp.Err != nil {
			q.Err = resp.Err.Error()
			return
		}
		q.Status = resp.Status
		if len(resp.Body) > 0 && resp.Status != 202 && resp.Status != 200 {
			q.Response = string(resp.Body)
			if len(q.Response) > 300 {
				q.Response = q.Response[:300]
			}
		}
	}
	ingress := func(marker, phase string) *c01BusyReq {
		q := &c01BusyReq{Kind: "ingress", Phase: phase, Markers: []string{marker}, Bodies: map[string][]byte{marker: body(marker)}}
		mu.Lock()
		q.SentMs = since()
		reqs = append(reqs, q) // ledger entry before the request leaves
		mu.Unlock()
		finish(q, p.Ingress("/bw", q.Bodies[marker], map[string]string{"X-Verif-Marker": marker}))
		return q
	}
	publish := func(prefix, phase string, k int) *c01BusyReq {
		q := &c01BusyReq{Kind: "publish", Phase: phase, Bodies: map[string][]byte{}}
		var items []map[string]any
		for j := 0; j < k; j++ {
			mk := fmt.Sprintf("%s%d", prefix, j)
			q.Markers = append(q.Markers, mk)
			q.Bodies[mk] = body(mk)
			items = append(items, map[string]any{"id": mk, "route": "/bw", "payload_b64": base64.StdEncoding.EncodeToString(q.Bodies[mk]), "headers": map[string]string{"X-Verif-Marker": mk}})
		}
		mu.Lock()
		q.SentMs = since()
		reqs = append(reqs, q)
		mu.Unlock()
		finish(q, p.Admin("POST", "/messages/publish", map[string]any{"items": items}))
		return q
	}

	// before the lock: the route works and its acknowledgement is kept
	pre := ingress("bwpre0", "before_lock")
	if !pre.acked() {
		c.Inconclusive(fmt.Sprintf("C01 busy writer "+variant+": the request before the lock was not accepted (status %d err %s %s)", pre.Status, pre.Err, pre.Response))
		return
	}

	// the foreign writer
	ctx := context.Background()
	db, err := sql.Open("sqlite", p.DB)
	if err != nil {
		c.Inconclusive("C01 busy writer " + variant + ": holder cannot open the database: " + err.Error())
		return
	}
	defer db.Close()
	conn, err := db.Conn(ctx)
	if err != nil {
		c.Inconclusive("C01 busy writer " + variant + ": holder cannot connect: " + err.Error())
		return
	}
	defer conn.Close()
	if _, err := conn.ExecContext(ctx, "PRAGMA busy_timeout=20000;"); err != nil {
		c.Inconclusive("C01 busy writer " + variant + ": holder busy_timeout: " + err.Error())
		return
	}
	if _, err := conn.ExecContext(ctx, "BEGIN IMMEDIATE;"); err != nil {
		c.Inconclusive("C01 busy writer " + variant + ": holder could not take the write lock: " + err.Error())
		return
	}
	mu.Lock()
	lockedAt = time.Now()
	mu.Unlock()
	lockHeld.Store(true)

	var wg sync.WaitGroup
	firstAnswered := make(chan struct{})
	switch pattern {
	case "sequential":
		// one sender, one request after the other for as long as the lock is held
		// (every request has the store to itself), a publish as the second request
		wg.Add(1)
		go func() {
			defer wg.Done()
			for i := 0; i < 12 && lockHeld.Load() && !p.Exited(); i++ {
				if i == 1 {
					publish("bwpub", "under_lock", 3)
				} else {
					ingress(fmt.Sprintf("bwlock%d", i), "under_lock")
				}
				if i == 0 {
					close(firstAnswered)
				}
				time.Sleep(100 * time.Millisecond)
			}
		}()
	default:
		// several senders at once: five requests 300 ms apart and a publish, all
		// waiting for the same store
		wg.Add(1)
		go func() {
			defer wg.Done()
			defer close(firstAnswered)
			ingress("bwlock0", "under_lock")
		}()
		for i := 1; i <= 4; i++ {
			wg.Add(1)
			go func(i int) {
				defer wg.Done()
				time.Sleep(time.Duration(i) * 300 * time.Millisecond)
				ingress(fmt.Sprintf("bwlock%d", i), "under_lock")
			}(i)
		}
		wg.Add(1)
		go func() {
			defer wg.Done()
			time.Sleep(1500 * time.Millisecond)
			publish("bwpub", "under_lock", 3)
		}()
	}

	// keep the lock: at least c01BusyHold, and until the first request has its
	// answer (or the process is gone), at most c01BusyHoldCap. None of this is a
	// verdict - it only decides how long the neighbour is rude.
	time.Sleep(time.Until(lockedAt.Add(c01BusyHold)))
	capT := time.After(time.Until(lockedAt.Add(c01BusyHoldCap)))
	tick := time.NewTicker(100 * time.Millisecond)
wait:
	for !p.Exited() {
		select {
		case <-firstAnswered:
			break wait
		case <-capT:
			c.Count("busy_writer_hold_cap_reached", 1)
			break wait
		case <-tick.C:
		}
	}
	tick.Stop()
	lockHeld.Store(false)
	heldFor := time.Since(lockedAt)
	_, rbErr := conn.ExecContext(ctx, "ROLLBACK;")
	_ = conn.Close()
	_ = db.Close()
	if rbErr != nil {
		// the connection is closed all the same, which gives the lock back
		c.Count("busy_writer_rollback_errors", 1)
	}
	wg.Wait() // every request is bounded by the 40 s client timeout

	// after the lock: business as usual
	if !p.Exited() {
		ingress("bwpost0", "after_lock")
	}

	p.Kill()
	if err := p.StartHealthy(l3.StartOpts{Env: env}, 60*time.Second); err != nil {
		if p.Exited() {
			c.Violation(vlib.Signature{"class": "restart_failed", "crash": "external", "situation": "busy_writer", "variant": variant},
				fmt.Sprintf("[busy writer, "+variant+"] the process does not come up on the database after a foreign write lock of %s and a kill: %v", heldFor.Round(time.Millisecond), err), map[string]any{"stderr_tail": p.LogTail(20)})
		} else {
			c.Inconclusive("C01 busy writer " + variant + ": restart not healthy within 60s: " + err.Error())
		}
		p.Kill()
		return
	}
	msgs, lerr := p.ListAll()
	if lerr != nil {
		c.Inconclusive("C01 busy writer " + variant + ": listing: " + lerr.Error())
		return
	}

	// ---- audit ---------------------------------------------------------------
	mu.Lock()
	defer mu.Unlock()
	sent := map[string]*c01BusyReq{}
	for _, q := range reqs {
		for _, mk := range q.Markers {
			sent[mk] = q
		}
	}
	rows := map[string][]l3.Message{}
	for _, m := range msgs {
		b, _ := base64.StdEncoding.DecodeString(m.PayloadB64)
		mk := markerOf(b)
		if mk == "" {
			mk = m.Headers["X-Verif-Marker"]
		}
		rows[mk] = append(rows[mk], m)
	}
	wit := func(extra map[string]any) map[string]any {
		w := map[string]any{"lock_held_ms": heldFor.Milliseconds(), "ledger": reqs, "listed_after_restart": len(msgs)}
		for k, v := range extra {
			w[k] = v
		}
		return w
	}
	sig := func(class string, q *c01BusyReq) vlib.Signature {
		s := vlib.Signature{"class": class, "crash": "external", "situation": "busy_writer", "variant": variant}
		if q != nil {
			s["request"], s["phase"] = q.Kind, q.Phase
		}
		return s
	}
	var unknown []string
	for mk := range rows {
		if sent[mk] == nil {
			unknown = append(unknown, mk)
		}
	}
	sort.Strings(unknown)
	for _, mk := range unknown {
		c.Violation(sig("message_nobody_sent", nil), fmt.Sprintf("[busy writer, "+variant+"] a message with marker %q exists after restart but was never sent", mk), wit(map[string]any{"rows": rows[mk]}))
	}
	mustOffer := map[string]bool{}
	ackedUnderLock, ackedWhileHeld := 0, 0
	for _, q := range reqs {
		answer := fmt.Sprintf("status=%d", q.Status)
		if q.Err != "" {
			answer = "open"
		}
		c.Count("busy_writer_requests", 1)
		c.Distinct("nontrivial", fmt.Sprintf("busy_writer:%s:%s:%s:%s", variant, q.Kind, q.Phase, answer))
		c.Distinct("busy_writer_answers", fmt.Sprintf("%s:%s:%s:%s", variant, q.Kind, q.Phase, answer))
		if q.Phase == "under_lock" && q.acked() {
			ackedUnderLock++
			if q.AnsweredLocked {
				ackedWhileHeld++
			}
		}
		for _, mk := range q.Markers {
			rs := rows[mk]
			desc := fmt.Sprintf("%s of marker %s (sent %d ms after the foreign BEGIN IMMEDIATE, answered after %d ms; lock held %d ms)", q.Kind, mk, q.SentMs, q.AnsweredMs, heldFor.Milliseconds())
			if q.Phase != "under_lock" {
				desc = fmt.Sprintf("%s of marker %s (%s)", q.Kind, mk, q.Phase)
			}
			if len(rs) > 1 {
				c.Violation(sig("duplicate_after_restart", q), fmt.Sprintf("[busy writer, "+variant+"] %s: the message exists %d times after kill and restart", desc, len(rs)), wit(map[string]any{"rows": rs}))
			}
			for _, row := range rs {
				b, _ := base64.StdEncoding.DecodeString(row.PayloadB64)
				if string(b) != string(q.Bodies[mk]) {
					c.Violation(sig("payload_differs_after_restart", q), fmt.Sprintf("[busy writer, "+variant+"] %s: stored payload (%d bytes, sha %s) is not the payload sent (%d bytes, sha %s)", desc, len(b), sha16(b), len(q.Bodies[mk]), sha16(q.Bodies[mk])), wit(map[string]any{"row": row}))
				}
			}
			if !q.acked() {
				if len(rs) > 0 {
					c.Count("busy_writer_unacknowledged_but_stored", 1) // allowed
				}
				continue
			}
			c.Count("busy_writer_acknowledged_messages", 1)
			if len(rs) == 0 {
				c.Violation(sig("acknowledged_message_lost", q), fmt.Sprintf("[busy writer, "+variant+"] %s was answered %d but the message does not exist after kill and restart", desc, q.Status), wit(map[string]any{"marker": mk}))
				continue
			}
			if st := rs[0].State; st != "queued" && st != "leased" {
				c.Violation(sig("unexpected_state_after_restart", q), fmt.Sprintf("[busy writer, "+variant+"] %s was answered %d and nobody consumed it, but it is %s after restart", desc, q.Status, st), wit(map[string]any{"rows": rs}))
				continue
			}
			mustOffer[mk] = true
		}
	}
	c.Count("evaluations", 1)
	c.Count("busy_writer_trials", 1)
	c.Count("messages_audited", int64(len(msgs)))
	c.Count("busy_writer_acknowledged_under_lock", int64(ackedUnderLock))
	c.Count("busy_writer_acknowledged_while_lock_still_held", int64(ackedWhileHeld))
	c.Set("busy_writer_lock_held_ms_"+variant, heldFor.Milliseconds())
	c.Sample(map[string]any{"trial": "busy_writer", "variant": variant, "lock_held_ms": heldFor.Milliseconds(), "ledger": reqs, "rows_after_restart": len(msgs)})

	// "... and is offered for delivery again"
	want := len(mustOffer)
	deadline := time.Now().Add(25 * time.Second)
	lastProblem := ""
	for len(mustOffer) > 0 && time.Now().Before(deadline) {
		resp := p.Pull("/pull/bw/dequeue", map[string]any{"batch": 100, "lease_ttl": "1s"}, "tok")
		if resp.Err != nil || resp.Status != 200 {
			lastProblem = fmt.Sprintf("dequeue: status %d err %v %s", resp.Status, resp.Err, string(resp.Body))
			time.Sleep(50 * time.Millisecond)
			continue
		}
		var out struct {
			Items []struct {
				PayloadB64 string `json:"payload_b64"`
			} `json:"items"`
		}
		_ = json.Unmarshal(resp.Body, &out)
		for _, it := range out.Items {
			b, _ := base64.StdEncoding.DecodeString(it.PayloadB64)
			delete(mustOffer, markerOf(b))
		}
		if len(out.Items) == 0 {
			time.Sleep(50 * time.Millisecond)
		}
	}
	c.Count("busy_writer_offered_again", int64(want-len(mustOffer)))
	if len(mustOffer) > 0 {
		var left []string
		for k := range mustOffer {
			left = append(left, k)
		}
		sort.Strings(left)
		c.Inconclusive(fmt.Sprintf("[busy writer, "+variant+"] %d acknowledged messages were not offered again within 25s (first: %s; last problem: %s; exited=%v)", len(left), left[0], lastProblem, p.Exited()))
	}
	p.Stop()
}
