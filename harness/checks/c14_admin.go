package checks

import "github.com/nuetzliches/hookaido/verifharness/vlib"

func c14Admin(c *vlib.Ctx) {}
