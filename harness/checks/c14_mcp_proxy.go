package checks

import (
	"fmt"
	"net"
	"sort"
	"strings"

	"github.com/nuetzliches/hookaido/internal/queue"
	"github.com/nuetzliches/hookaido/verifharness/l2"
	"github.com/nuetzliches/hookaido/verifharness/storecheck"
	"github.com/nuetzliches/hookaido/verifharness/vlib"
)

// c14MCPProxy: with a memory backend the MCP queue tools do not open a database
// but go through the Admin API of the running instance. The production wiring
// serves its Admin API on the loopback listener named in the configuration; the MCP server is pointed at that configuration. By-filter
// tools are called with a route selector or with the application / endpoint
// selector (which takes the endpoint-scoped Admin path), with and without
// preview_only; the memory store's before/after snapshots are compared with the
// independent selection.
func c14MCPProxy(c *vlib.Ctx) {
	dir := c.Scratch()
	n := c.N(4, 60)
	for i := 0; i < n; i++ {
		r := vlib.Derive(c.Seed, "C14mcpproxy", i)
		ln, err := net.Listen("tcp", "127.0.0.1:0")
		if err != nil {
			c.Inconclusive("C14 mcp proxy: " + err.Error())
			return
		}
		cfg := fmt.Sprintf(`ingress { listen 127.0.0.1:0 }
pull_api { listen 127.0.0.2:0
 auth token raw:tok }
admin_api { listen %s }
/r0 { application "app1"
 endpoint_name "ep0"
 queue { backend memory }
 pull { path /p0 } }
/r1 { application "app1"
 endpoint_name "ep1"
 queue { backend memory }
 pull { path /p1 } }
/r2 { queue { backend memory }
 pull { path /p2 } }
`, ln.Addr().String())
		_ = ln.Close() // the port was only reserved: the production wiring binds and serves it
		a, err := l2.Start(dir, cfg, nil, nil)
		if err != nil {
			c.Inconclusive("C14 mcp proxy config: " + err.Error())
			return
		}
		c14Populate(r, a.Store, r.Range(30, 60))
		f := c20Fixture{Dir: a.Dir, Cfg: a.Path, DB: "", PID: a.Dir + "/none.pid", Stub: a.Dir + "/none.sh"}
		routeOf := map[string]string{"ep0": "/r0", "ep1": "/r1"}
		for k := 0; k < 14; k++ {
			tool := vlib.Pick(r, []string{"messages_cancel_by_filter", "messages_requeue_by_filter", "messages_resume_by_filter"})
			kind := map[string]storecheck.Kind{"messages_cancel_by_filter": storecheck.KCancelF, "messages_requeue_by_filter": storecheck.KRequeueF, "messages_resume_by_filter": storecheck.KResumeF}[tool]
			args := map[string]any{"reason": "verif"}
			fl := queue.MessageManageFilterRequest{Limit: vlib.Pick(r, []int{0, 1, 2, 5, 100})}
			selector := "route"
			if r.Chance(0.6) {
				selector = "managed"
				ep := vlib.Pick(r, []string{"ep0", "ep1"})
				args["application"], args["endpoint_name"] = "app1", ep
				fl.Route = routeOf[ep]
			} else {
				fl.Route = "/r2" // a route selector is only taken for routes no endpoint manages
				args["route"] = fl.Route
			}
			if fl.Limit != 0 {
				args["limit"] = fl.Limit
			}
			if r.Bool() {
				fl.State = vlib.Pick(r, vlib.AllStates)
				args["state"] = string(fl.State)
			}
			if r.Chance(0.45) {
				fl.PreviewOnly = true
				args["preview_only"] = true
			}
			before := snapStore(a.Store)
			sel := storecheck.SelectByFilter(before, fl, kind)
			matched := len(sel)
			if fl.PreviewOnly {
				sel = nil
			}
			ro, _, err := c20Call(f, "admin", true, false, "alice", "tools/call", map[string]any{"name": tool, "arguments": args})
			if err != nil {
				c.Inconclusive("C14 mcp proxy call: " + err.Error())
				break
			}
			after := snapStore(a.Store)
			add, rem, chg := vlib.Diff(before, after)
			got := append(append([]string{}, chg...), rem...)
			sort.Strings(got)
			sort.Strings(sel)
			text := ""
			if len(ro.Result.Content) > 0 {
				text = ro.Result.Content[0].Text
			}
			c.Count("evaluations", 1)
			c.Count("mcp_proxy_mutation_calls", 1)
			c.Distinct("nontrivial", fmt.Sprintf("mcp_proxy:%s:%s:preview=%v:error=%v:selected%d", tool, selector, fl.PreviewOnly, ro.Result.IsError, minInt(matched, 3)))
			wit := map[string]any{"tool": tool, "args": args, "selector": selector, "is_error": ro.Result.IsError, "response": text[:minInt(400, len(text))], "matched_by_independent_selection": matched}
			if k < 2 && i < 2 {
				c.Sample(wit)
			}
			switch {
			case ro.Result.IsError:
				if len(got)+len(add) > 0 {
					c.Violation(vlib.Signature{"class": "rejected_request_changed_queue", "bad": "mcp_proxy_error", "op": tool}, "MCP (Admin proxy) "+tool+" reported an error but changed the queue: "+text[:minInt(200, len(text))], wit)
				}
				if fl.State == "" || stateAllowed(kind, fl.State) {
					c.Violation(vlib.Signature{"class": "valid_mutation_refused", "op": tool, "status": "mcp_proxy_error"}, "MCP (Admin proxy) "+tool+" failed: "+text[:minInt(300, len(text))], wit)
				}
			case fl.PreviewOnly && len(got)+len(add) > 0:
				c.Violation(vlib.Signature{"class": "preview_changed_queue", "backend": "memory-via-mcp-proxy", "op": tool, "selector": selector},
					fmt.Sprintf("MCP (Admin proxy) %s with preview_only changed %v (selector %s)", tool, got, selector), wit)
			case strings.Join(got, ",") != strings.Join(sel, ",") || len(add) > 0:
				c.Violation(vlib.Signature{"class": "changed_set_differs", "backend": "memory-via-mcp-proxy", "op": tool, "selector": selector},
					fmt.Sprintf("MCP (Admin proxy) %s changed %v, independent selection says %v", tool, got, sel), wit)
			}
		}
		a.Close()
	}
}
