package checks

import (
	"bytes"
	"context"
	"encoding/json"
	"errors"
	"fmt"
	"os"
	"strings"
	"sync"
	"time"

	"github.com/nuetzliches/hookaido/internal/mcp"
	"github.com/nuetzliches/hookaido/verifharness/vlib"
)

// flakySink fails chosen Write calls (a full disk, a pipe that is not ready)
// and works again afterwards.
type flakySink struct {
	mu     sync.Mutex
	fail   map[int]bool
	writes int
	buf    bytes.Buffer
}

func (f *flakySink) Write(p []byte) (int, error) {
	f.mu.Lock()
	defer f.mu.Unlock()
	f.writes++
	if f.fail[f.writes] {
		return 0, errors.New("audit sink: transient write error")
	}
	return f.buf.Write(p)
}

// c20AuditSinkFault: one server process, a session of mutating calls (allowed,
// denied by a missing flag, failed by an actor mismatch, a config write), and an
// audit sink that fails one Write in the middle. The record being written
// during the fault is lost with the sink; every call after it must again leave
// its record.
func c20AuditSinkFault(c *vlib.Ctx, root string, row *int) {
	valid := c20Config + "/extra { pull { path /pull/extra } }\n"
	calls := []map[string]any{
		{"name": "messages_cancel", "arguments": map[string]any{"ids": []string{"q1"}, "reason": "verif"}},
		{"name": "messages_cancel", "arguments": map[string]any{"ids": []string{"q2"}, "reason": "verif"}},
		{"name": "messages_cancel", "arguments": map[string]any{"ids": []string{"q2"}, "reason": "verif", "actor": "mallory"}},
		{"name": "instance_reload", "arguments": map[string]any{}},
		{"name": "messages_requeue", "arguments": map[string]any{"ids": []string{"q1"}, "reason": "verif"}},
		{"name": "config_apply", "arguments": map[string]any{"content": valid, "mode": "write_only"}},
	}
	for _, failAt := range []int{1, 2, 3, 5} {
		*row++
		f, err := c20NewFixture(root, *row)
		if err != nil {
			c.Inconclusive(err.Error())
			return
		}
		var in, out bytes.Buffer
		for i, call := range calls {
			pb, _ := json.Marshal(call)
			req, _ := json.Marshal(map[string]any{"jsonrpc": "2.0", "id": i + 1, "method": "tools/call", "params": json.RawMessage(pb)})
			fmt.Fprintf(&in, "Content-Length: %d\r\n\r\n%s", len(req), req)
		}
		sink := &flakySink{fail: map[int]bool{failAt: true}}
		s := mcp.NewServer(&in, &out, f.Cfg, f.DB, mcp.WithRole(mcp.Role("admin")), mcp.WithMutationsEnabled(true), mcp.WithRuntimeControlEnabled(false), mcp.WithPrincipal("alice"), mcp.WithAuditWriter(sink),
			mcp.WithRuntimeControlPIDFile(f.PID), mcp.WithRuntimeControlRunBinary(f.Stub), mcp.WithRuntimeControlRunWatch(false))
		ctx, cancel := context.WithTimeout(context.Background(), 30*time.Second)
		err = s.Serve(ctx)
		cancel()
		if err != nil {
			c.Inconclusive("C20 audit sink fault: " + err.Error())
			_ = os.RemoveAll(f.Dir)
			continue
		}
		answers := strings.Count(out.String(), "Content-Length:")
		var recs []map[string]any
		for _, ln := range strings.Split(sink.buf.String(), "\n") {
			var m map[string]any
			if strings.TrimSpace(ln) != "" && json.Unmarshal([]byte(ln), &m) == nil {
				recs = append(recs, m)
			}
		}
		c.Count("evaluations", 1)
		c.Count("audit_sink_fault_sessions", 1)
		c.Distinct("nontrivial", fmt.Sprintf("audit_sink_fault:fail_write_%d:records=%d:writes=%d", failAt, len(recs), sink.writes))
		wit := map[string]any{"calls": len(calls), "answers": answers, "failed_write": failAt, "sink_write_calls": sink.writes, "audit_records": recs}
		if failAt == 2 {
			c.Sample(map[string]any{"part": "audit_sink_fault", "calls": len(calls), "failed_write": failAt, "sink_write_calls": sink.writes, "audit_records": len(recs)})
		}
		if answers != len(calls) {
			c.Inconclusive(fmt.Sprintf("C20 audit sink fault: %d answers for %d calls", answers, len(calls)))
		} else if len(recs) < len(calls)-1 {
			c.Violation(vlib.Signature{"class": "audit_records_missing_after_sink_fault", "failed_write": fmt.Sprint(failAt)},
				fmt.Sprintf("%d mutating calls on one server, the audit sink failed its write number %d only: %d audit records were written (the sink saw %d Write calls), at most one may be missing", len(calls), failAt, len(recs), sink.writes), wit)
		}
		_ = os.RemoveAll(f.Dir)
	}
}
