package checks

import (
	"fmt"
	"sync"
	"time"

	"github.com/nuetzliches/hookaido/internal/queue"
	"github.com/nuetzliches/hookaido/verifharness/l2"
	"github.com/nuetzliches/hookaido/verifharness/vlib"
)

// refusingStore passes everything through to the real store, counts the successful
// enqueues per (payload, target) and refuses the k-th Enqueue call it sees while armed
// (a queue that is full / under memory pressure for exactly that message).
type refusingStore struct {
	queue.Store
	mu       sync.Mutex
	armed    int // refuse the armed-th Enqueue from now (0 = none)
	seen     int
	err      error
	accepted map[string]int // payload + "\x00" + target -> successful enqueues
}

func (s *refusingStore) Enqueue(env queue.Envelope) error {
	s.mu.Lock()
	s.seen++
	refuse := s.armed > 0 && s.seen == s.armed
	s.mu.Unlock()
	if refuse {
		return s.err
	}
	err := s.Store.Enqueue(env)
	if err == nil {
		s.mu.Lock()
		s.accepted[string(env.Payload)+"\x00"+env.Target]++
		s.mu.Unlock()
	}
	return err
}

// c09PartialFanout: an HMAC route that fans out to 2-3 targets, and a store that refuses one of
// the per-target enqueues of the original request (queue full / memory pressure at that moment),
// so the sender is answered 503 although some targets already hold the message. The captured
// request is then sent again (twice) while the store accepts everything. "A captured valid request
// can never cause a second enqueue": no (request, target) pair may be stored twice.
func c09PartialFanout(c *vlib.Ctx) {
	dir := c.Scratch()
	for _, targets := range []int{2, 3} {
		for refuseAt := 1; refuseAt <= targets; refuseAt++ {
			for _, cause := range []error{queue.ErrQueueFull, queue.ErrMemoryPressure, fmt.Errorf("disk I/O error")} {
				deliver := ""
				for t := 0; t < targets; t++ {
					deliver += fmt.Sprintf(" deliver \"http://127.0.0.1:9/t%d\" {}\n", t)
				}
				cfg := "ingress { listen 127.0.0.1:0 }\nadmin_api { listen 127.0.0.3:0 }\ndefaults { egress { https_only off\n dns_rebind_protection off } }\n" +
					"/signed { queue { backend memory }\n auth hmac raw:topsecret\n" + deliver + "}\n"
				clock := vlib.NewVClock(c08T0)
				inner, err := vlib.OpenStore("memory", vlib.StoreCfg{}, clock, dir)
				if err != nil {
					c.Inconclusive("C09 fan-out: store: " + err.Error())
					return
				}
				st := &refusingStore{Store: inner.Store, accepted: map[string]int{}, err: cause}
				a, err := l2.Start(dir, cfg, st, clock)
				if err != nil {
					c.Inconclusive("C09 fan-out config did not start: " + err.Error())
					inner.Close()
					return
				}
				body := []byte(fmt.Sprintf("fanout-%d-%d", targets, refuseAt))
				var statuses []int
				send := func() {
					resp := l2.Do(a.Ingress, signedReq("topsecret", "/signed", c08T0.Unix(), "F", body))
					statuses = append(statuses, resp.Status)
				}
				st.mu.Lock()
				st.armed, st.seen = refuseAt, 0
				st.mu.Unlock()
				send() // original: one per-target enqueue is refused
				st.mu.Lock()
				st.armed = 0
				st.mu.Unlock()
				clock.Advance(time.Second)
				send() // the captured request again, the store accepts everything now
				clock.Advance(time.Minute)
				send()
				// a fresh request must still be served (the case is not vacuous)
				fresh := l2.Do(a.Ingress, signedReq("topsecret", "/signed", clock.Now().Unix(), "G", []byte("fresh")))
				c.Count("evaluations", 4)
				c.Count("partial_fanout_cases", 1)
				c.Distinct("nontrivial", fmt.Sprintf("l2fanout:targets=%d:refused=%d:%v", targets, refuseAt, cause))
				st.mu.Lock()
				acc := map[string]int{}
				for k, v := range st.accepted {
					acc[k] = v
				}
				st.mu.Unlock()
				wit := map[string]any{"targets": targets, "refused_enqueue": refuseAt, "cause": cause.Error(), "statuses": statuses, "fresh_status": fresh.Status, "stored_per_payload_and_target": fmt.Sprint(acc)}
				if statuses[0] == 202 {
					c.Violation(vlib.Signature{"class": "refused_enqueue_acknowledged", "layer": "L2"}, fmt.Sprintf("the store refused enqueue %d of %d but the request was answered 202", refuseAt, targets), wit)
				}
				for k, v := range acc {
					if v > 1 {
						c.Violation(vlib.Signature{"class": "replay_caused_second_enqueue", "layer": "L2", "after": "partial_fanout_refusal"},
							fmt.Sprintf("the same signed request (nonce F) was stored %d times for one target (%q): answers %v, enqueue %d of %d had been refused (%v) the first time", v, k, statuses, refuseAt, targets, cause), wit)
						break
					}
				}
				if fresh.Status != 202 {
					c.Violation(vlib.Signature{"class": "valid_request_never_accepted", "layer": "L2", "case": "partial_fanout"}, fmt.Sprintf("a fresh valid request after the refusal was answered %d", fresh.Status), wit)
				}
				a.Close()
				inner.Close()
			}
		}
	}
}
