#!/usr/bin/env python3
"""Regenerates MANIFEST.json from the table below (run after adding a check)."""
import json, subprocess, os
HOOK_COMMITS = ["706dcd3"]
CHECKS = {
 "C02": dict(level="exploration", ref="DESIGN.md §3 C02",
   text="Held on every generated operation sequence explored: a transition monitor diffs a full queue snapshot before/after each of ~35k (quick) store operations on memory and SQLite across 13 limits/retention configurations; thorough adds 16x more sequences and a concurrent -race part with conservation and counter invariants.",
   note="Trusted: the snapshot readers (paginated ListMessages; read-only SQL dump for SQLite) and the virtual clock injection. Postgres backend not covered (no server in the sandbox).",
   technique="runtime monitoring: snapshot-diff transition monitor over generated operation histories (virtual clock), SQLite counter invariant hook, race detector on the concurrent part"),
}
NOT_APPLICABLE = {}
ALL = ["C%02d" % i for i in range(1, 21)]

def main():
    checks = []
    for pid in sorted(CHECKS):
        c = CHECKS[pid]
        checks.append({
            "property_id": pid,
            "quick_cmd": f"./check {pid} quick",
            "thorough_cmd": f"./check {pid} thorough",
            "evidence_file": f"/verif/evidence/{pid}.json",
            "engine": "vcheck",
            "level_claimed": {"category": c["level"], "text": c["text"], "design_ref": c["ref"]},
            "level_note": c["note"],
            "technique": c["technique"],
        })
    na = []
    for pid in ALL:
        if pid not in CHECKS:
            na.append({"property_id": pid, "reason": NOT_APPLICABLE.get(pid, "check not built yet in this session (planned, see DESIGN.md §3)")})
    m = {
        "version": 1,
        "setup_cmd": "./setup.sh",
        "hooks": {
            "guard": "verif",
            "enable": "go build -tags verif (harness module /verif/harness with replace => /repo; product binary /verif/.build/hookaido-verif)",
            "baseline_off_cmd": "cd /repo && . /verif/env.sh && go test -mod=mod -json -vet=off -count=1 -timeout 25m ./...",
            "source_commits": HOOK_COMMITS,
            "add_only": True,
        },
        "engines": [{"name": "vcheck", "path": "/verif/harness", "serves_properties": sorted(CHECKS),
                     "kind_free_text": "Go harness: generators + runtime monitors over the real hookaido packages (build tag verif), virtual clock, race detector, porcupine, child-process crash injection"}],
        "checks": checks,
        "not_applicable": na,
        "notes": "Exit codes: 0 held on everything explored, 1 violated (VIOLATION line + replay file), 2 inconclusive. known_findings.json lists recorded and fixed defects.",
    }
    json.dump(m, open(os.path.join(os.path.dirname(__file__), "MANIFEST.json"), "w"), indent=1)
    print("wrote MANIFEST.json with", len(checks), "checks")
main()
