package vlib

import (
	"fmt"
	"os"
	"path/filepath"
	"regexp"
	"strings"
)

var frameRe = regexp.MustCompile(`^\s+(/[^\s:]+\.go):(\d+)`)

// CollectRaces parses the race detector log of this process (GORACE log_path
// given in VERIF_RACE_LOG). A report is a violation of the running property
// only if both access stacks contain a frame in a non-test file under
// /repo/internal; a report whose stacks stay inside the harness is a harness
// bug and makes the run inconclusive.
func (c *Ctx) CollectRaces() {
	base := strings.TrimSpace(os.Getenv("VERIF_RACE_LOG"))
	if base == "" {
		c.Set("race_detector", "off (plain build)")
		return
	}
	c.Set("race_detector", "on")
	files, _ := filepath.Glob(base + ".*")
	reports := 0
	product := 0
	seen := map[string]bool{}
	for _, f := range files {
		b, err := os.ReadFile(f)
		if err != nil {
			continue
		}
		for _, block := range strings.Split(string(b), "WARNING: DATA RACE")[1:] {
			reports++
			// split into the two access stacks
			secs := regexp.MustCompile(`(?m)^(Write|Read|Previous write|Previous read|Atomic write|Atomic read|Previous atomic write|Previous atomic read) (at|of) `).Split(block, -1)
			if len(secs) < 3 {
				continue
			}
			inProduct := func(sec string) (bool, string) {
				top := ""
				hit := false
				for _, ln := range strings.Split(sec, "\n") {
					if strings.HasPrefix(strings.TrimSpace(ln), "Goroutine ") {
						break
					}
					m := frameRe.FindStringSubmatch(ln)
					if m == nil {
						continue
					}
					if strings.HasPrefix(m[1], repoRoot()+"/internal/") && !strings.HasSuffix(m[1], "_test.go") {
						if top == "" {
							top = m[1]
						}
						hit = true
					}
				}
				return hit, top
			}
			a, fa := inProduct(secs[1])
			bb, fb := inProduct(secs[2])
			if a && bb {
				key := fa + "|" + fb
				if seen[key] {
					continue
				}
				seen[key] = true
				product++
				c.Violation(Signature{"class": "data_race", "a": strings.TrimPrefix(fa, repoRoot()+"/"), "b": strings.TrimPrefix(fb, repoRoot()+"/")},
					fmt.Sprintf("data race between %s and %s", fa, fb), map[string]any{"report": "WARNING: DATA RACE" + truncate(block, 6000)})
			} else {
				c.Inconclusive("race report outside product code (harness bug?): " + truncate(block, 1500))
			}
		}
	}
	c.Set("race_reports", reports)
	c.Set("race_reports_in_product_code", product)
}

// repoRoot: the tree under test (/repo unless a background sweep set VERIF_REPO).
func repoRoot() string {
	if r := strings.TrimRight(os.Getenv("VERIF_REPO"), "/"); r != "" {
		return r
	}
	return "/repo"
}

func truncate(s string, n int) string {
	if len(s) <= n {
		return s
	}
	return s[:n] + "…"
}
