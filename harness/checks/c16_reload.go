package checks

import (
	"context"
	"fmt"
	"io"
	"net"
	"net/http"
	"net/http/httptest"
	"strings"
	"sync"
	"time"

	"github.com/nuetzliches/hookaido/internal/queue"
	"github.com/nuetzliches/hookaido/verifharness/l2"
	"github.com/nuetzliches/hookaido/verifharness/vlib"
)

// c16ReloadEdits: the dispatcher and its egress policy are built once at
// start-up. One egress setting of the file changes (a host rule gains or loses
// its "*." prefix, a rule is added, removed, replaced, reordered, a switch is
// flipped) and the process reloads. Whatever configuration the process then
// reports as running, every delivery must obey the egress policy of THAT
// configuration: the next pushes (apex host, sub-domain, unrelated host) must
// end as they do after a fresh start of the file reported as running.
func c16ReloadEdits(c *vlib.Ctx) {
	dir := c.Scratch()
	var mu sync.Mutex
	hits := map[string]int{}
	sink := httptest.NewServer(http.HandlerFunc(func(w http.ResponseWriter, r *http.Request) {
		_, _ = io.Copy(io.Discard, r.Body)
		mu.Lock()
		hits[r.Header.Get("X-Probe")]++
		mu.Unlock()
		w.WriteHeader(204)
	}))
	defer sink.Close()
	sinkAddr := strings.TrimPrefix(sink.URL, "http://")
	_, port, _ := net.SplitHostPort(sinkAddr)
	client := func() *http.Client {
		// every host name resolves to the sink: the policy decides, not the resolver
		return &http.Client{Transport: &http.Transport{DisableKeepAlives: true, DialContext: func(ctx context.Context, network, _ string) (net.Conn, error) {
			var d net.Dialer
			return d.DialContext(ctx, network, sinkAddr)
		}}}
	}
	cfg := func(egress string) string {
		return fmt.Sprintf(`ingress { listen 127.0.0.1:0 }
pull_api { listen 127.0.0.2:0
 auth token raw:tok }
admin_api { listen 127.0.0.3:0 }
defaults { egress {
 https_only off
 redirects off
 dns_rebind_protection off
%s
 } }
/apex { queue { backend memory }
 deliver "http://internal.test:%[2]s/hook" {
  timeout 2s
  retry exponential max 1 base 10ms cap 10ms jitter 0
 } }
/sub { queue { backend memory }
 deliver "http://api.internal.test:%[2]s/hook" {
  timeout 2s
  retry exponential max 1 base 10ms cap 10ms jitter 0
 } }
/deep { queue { backend memory }
 deliver "http://a.b.internal.test:%[2]s/hook" {
  timeout 2s
  retry exponential max 1 base 10ms cap 10ms jitter 0
 } }
/other { queue { backend memory }
 deliver "http://other.test:%[2]s/hook" {
  timeout 2s
  retry exponential max 1 base 10ms cap 10ms jitter 0
 } }
`, egress, port)
	}
	pairs := []struct{ name, from, to string }{
		{"deny_apex_to_wildcard", ` deny "internal.test"`, ` deny "*.internal.test"`},
		{"deny_wildcard_to_apex", ` deny "*.internal.test"`, ` deny "internal.test"`},
		{"allow_apex_to_wildcard", ` allow "internal.test"`, ` allow "*.internal.test"`},
		{"allow_wildcard_to_apex", ` allow "*.internal.test"`, ` allow "internal.test"`},
		{"deny_host_renamed", ` deny "internal.test"`, ` deny "other.test"`},
		{"deny_added", ``, ` deny "*.internal.test"`},
		{"deny_removed", ` deny "other.test"`, ``},
		{"allow_added", ``, ` allow "other.test"`},
		{"second_rule_wildcard", " deny \"other.test\"\n deny \"internal.test\"", " deny \"other.test\"\n deny \"*.internal.test\""},
		{"deny_sub_to_wildcard_of_sub", ` deny "b.internal.test"`, ` deny "*.b.internal.test"`},
		{"deny_host_to_cidr", ` deny "internal.test"`, ` deny "127.0.0.0/8"`},
		{"host_case_only", ` deny "internal.test"`, ` deny "INTERNAL.test"`},
		{"unrelated_route_added", ` deny "*.internal.test"`, ` deny "*.internal.test"` + "\n#"},
	}
	seq := 0
	probe := func(a *l2.App) string {
		var out []string
		for _, route := range []string{"/apex", "/sub", "/deep", "/other"} {
			seq++
			id := fmt.Sprintf("eg-%d", seq)
			req := l2.JSONReq("POST", a.Compiled.AdminAPI.Prefix+"/messages/publish", map[string]any{"items": []map[string]any{{"id": id, "route": route, "payload_b64": "eA==", "headers": map[string]string{"X-Probe": id}}}}, "")
			req.Header.Set("X-Hookaido-Audit-Reason", "verif")
			if resp := l2.Do(a.Admin, req); resp.Status != 200 {
				out = append(out, fmt.Sprintf("%s: publish %d", route, resp.Status))
				continue
			}
			res := "unsettled within 15s"
			for w := 0; w < 3000; w++ {
				mu.Lock()
				n := hits[id]
				mu.Unlock()
				lk, _ := a.Store.LookupMessages(queue.MessageLookupRequest{IDs: []string{id}})
				st, reason := "absent", ""
				if len(lk.Items) == 1 {
					st = string(lk.Items[0].State)
				}
				if st == string(queue.StateDead) {
					if dl, err := a.Store.ListDead(queue.DeadListRequest{Limit: 1000}); err == nil {
						for _, e := range dl.Items {
							if e.ID == id {
								reason = e.DeadReason
							}
						}
					}
				}
				if n > 0 && (st == "absent" || st == string(queue.StateDelivered)) {
					res = "delivered"
					break
				}
				if st == string(queue.StateDead) {
					res = fmt.Sprintf("dead-lettered %s after %d request(s)", reason, n)
					break
				}
				time.Sleep(5 * time.Millisecond)
			}
			out = append(out, route+": "+res)
		}
		return strings.Join(out, "; ")
	}
	for _, p := range pairs {
		oldText, newText := cfg(p.from), cfg(p.to)
		if p.name == "unrelated_route_added" {
			newText = oldText + "/extra { queue { backend memory }\n pull { path /pull/extra } }\n"
		}
		a, err := l2.Start(dir, oldText, nil, nil)
		if err != nil {
			c.Inconclusive("egress reload base (" + p.name + ") did not start: " + err.Error())
			continue
		}
		d := a.StartDispatcher(client())
		before := probe(a)
		_ = a.WriteConfig(newText)
		ok := a.Reload()
		after := probe(a)
		d.Drain(2 * time.Second)
		a.Close()
		runningText := oldText
		if ok {
			runningText = newText
		}
		ref, err := l2.Start(dir, runningText, nil, nil)
		if err != nil {
			c.Violation(vlib.Signature{"class": "invalid_reload_applied", "edit": "egress:" + p.name}, "the file reported as running does not start: "+err.Error(), map[string]any{"file": runningText})
			continue
		}
		rd := ref.StartDispatcher(client())
		want := probe(ref)
		rd.Drain(2 * time.Second)
		ref.Close()
		c.Count("evaluations", 1)
		c.Count("egress_reload_trials", 1)
		c.Distinct("nontrivial", fmt.Sprintf("egress_reload:%s:applied=%v:changes_outcome=%v", p.name, ok, before != want || before != after))
		wit := map[string]any{"edit": p.name, "egress_before": p.from, "egress_after": p.to, "reload_reported_ok": ok, "pushes_before": before, "pushes_after_reload": after, "pushes_after_fresh_start_of_running_file": want}
		if c.Counter("egress_reload_trials") <= 2 {
			c.Sample(wit)
		}
		if strings.Contains(before+after+want, "unsettled") || strings.Contains(before+after+want, "publish ") {
			c.Inconclusive(fmt.Sprintf("egress reload %s: a probe delivery did not settle (%s | %s | %s)", p.name, before, after, want))
			continue
		}
		if after != want {
			c.Violation(vlib.Signature{"class": "egress_policy_not_the_running_one", "edit": p.name, "applied": fmt.Sprint(ok)},
				fmt.Sprintf("egress edit %s, reload reported ok=%v: deliveries end as [%s] where a fresh start of the configuration reported as running gives [%s]", p.name, ok, after, want), wit)
		}
	}
}
