package checks

import (
	"fmt"
	"strconv"
	"strings"
	"sync"
	"time"

	"github.com/nuetzliches/hookaido/internal/dispatcher"
	"github.com/nuetzliches/hookaido/verifharness/pushcheck"
	"github.com/nuetzliches/hookaido/verifharness/vlib"
)

func parallel(n, workers int, fn func(i int)) {
	jobs := make(chan int)
	var wg sync.WaitGroup
	for w := 0; w < workers; w++ {
		wg.Add(1)
		go func() {
			defer wg.Done()
			for i := range jobs {
				fn(i)
			}
		}()
	}
	for i := 0; i < n; i++ {
		jobs <- i
	}
	close(jobs)
	wg.Wait()
}

// c06Table enumerates the classification table completely: every status
// 100-599 and every error kind, with a target that always answers that way, for
// retry.max 1 and 3, so that every attempt number 1..max+1 is visited.
func c06Table(c *vlib.Ctx) {
	type job struct {
		be  string
		max int
		lo  int
	}
	var jobs []job
	for _, be := range []string{"memory", "sqlite"} {
		for _, mx := range []int{1, 3} {
			for lo := 100; lo < 600; lo += 125 {
				jobs = append(jobs, job{be, mx, lo})
			}
		}
	}
	parallel(len(jobs), 8, func(i int) {
		j := jobs[i]
		target := "https://sink.example/hook"
		routes := []dispatcher.RouteConfig{{Route: "/t", Concurrency: 4, Targets: []dispatcher.TargetConfig{{URL: target, Timeout: 15 * time.Millisecond,
			Retry: dispatcher.RetryConfig{Type: "exponential", Max: j.max, Base: time.Second, Cap: 4 * time.Second, Jitter: 0.2}}}}}
		var msgs []pushcheck.Message
		for code := j.lo; code < j.lo+125 && code < 600; code++ {
			msgs = append(msgs, pushcheck.Message{ID: fmt.Sprintf("code-%d", code), Route: "/t", Target: target})
		}
		if j.lo == 100 {
			for _, e := range []string{"net", "timeout", "policy"} {
				msgs = append(msgs, pushcheck.Message{ID: "err-" + e, Route: "/t", Target: target})
			}
		}
		pushcheck.Run(c, pushcheck.Scenario{
			Label: fmt.Sprintf("C06/table/%s/max%d/from%d", j.be, j.max, j.lo), Backend: j.be, Routes: routes, Messages: msgs,
			Script: func(msg, _ string, _ int) pushcheck.Behaviour {
				if strings.HasPrefix(msg, "err-") {
					return pushcheck.Behaviour{Err: strings.TrimPrefix(msg, "err-")}
				}
				n, _ := strconv.Atoi(strings.TrimPrefix(msg, "code-"))
				return pushcheck.Behaviour{Status: n}
			},
		})
	})
}

var c06Pool = []pushcheck.Behaviour{{Status: 200}, {Status: 204}, {Status: 299}, {Status: 500}, {Status: 503}, {Status: 599}, {Status: 429}, {Status: 408}, {Status: 404}, {Status: 400}, {Status: 409},
	{Status: 301}, {Status: 304}, {Status: 100}, {Status: 199}, {Err: "net"}, {Err: "timeout"}, {Err: "policy"}}

var c06Retryable = []pushcheck.Behaviour{{Status: 500}, {Status: 503}, {Status: 599}, {Status: 429}, {Status: 408}, {Err: "net"}, {Err: "timeout"}}

// c06Random: per-target behaviour sequences, multi-target routes, concurrency,
// DLQ requeue cycles, generated retry configs, injected store failures.
func c06Random(c *vlib.Ctx) {
	n := c.N(80, 3000)
	parallel(n, 8, func(i int) {
		r := vlib.Derive(c.Seed, "C06", i)
		be := []string{"memory", "sqlite"}[i%2]
		nTargets := r.Range(1, 3)
		var targets []dispatcher.TargetConfig
		for t := 0; t < nTargets; t++ {
			base := time.Duration(r.Range(1, 3000)) * time.Millisecond
			capd := base * time.Duration(r.Range(1, 20))
			targets = append(targets, dispatcher.TargetConfig{URL: fmt.Sprintf("https://t%d.example/hook", t), Timeout: time.Duration(r.Range(5, 20)) * time.Millisecond,
				Retry: dispatcher.RetryConfig{Type: "exponential", Max: r.Range(1, 12), Base: base, Cap: capd, Jitter: vlib.Pick(r, []float64{0, 0.2, 0.5, 1})}})
		}
		routes := []dispatcher.RouteConfig{{Route: "/p", Concurrency: r.Range(1, 8), Targets: targets}}
		var msgs []pushcheck.Message
		plan := map[string][]pushcheck.Behaviour{}
		for m := 0; m < r.Range(3, 14); m++ {
			for _, t := range targets { // fan-out: one envelope per target, as ingress stores them
				id := fmt.Sprintf("m%02d-%s", m, t.URL[8:10])
				msgs = append(msgs, pushcheck.Message{ID: id, Route: "/p", Target: t.URL})
				var seq []pushcheck.Behaviour
				// failures, then (maybe) recovery
				fails := r.Intn(t.Retry.Max + 3)
				for k := 0; k < fails; k++ {
					seq = append(seq, vlib.Pick(r, c06Pool[3:]))
				}
				seq = append(seq, vlib.Pick(r, c06Pool))
				plan[id] = seq
			}
		}
		failEvery := 0
		if r.Chance(0.15) {
			failEvery = r.Range(3, 9)
		}
		pushcheck.Run(c, pushcheck.Scenario{
			Label: fmt.Sprintf("C06/random/%s/%d", be, i), Backend: be, Routes: routes, Messages: msgs, RequeueDead: r.Chance(0.4), FailEvery: failEvery,
			Script: func(msg, _ string, nth int) pushcheck.Behaviour {
				seq := plan[msg]
				if nth-1 < len(seq) {
					return seq[nth-1]
				}
				return seq[len(seq)-1]
			},
		})
	})
}

// c06Deep: large retry.max with a target that never recovers: every attempt
// number up to max+1 is reached, including those where base*2^(attempt-1)
// exceeds the cap by hundreds of binary orders of magnitude (beyond int64
// nanoseconds and beyond float64 precision).
func c06Deep(c *vlib.Ctx) {
	type cfg struct {
		max       int
		base, cap time.Duration
		jitter    float64
	}
	cfgs := []cfg{
		{70, 50 * time.Millisecond, 100 * time.Millisecond, 0}, {70, 2 * time.Second, time.Hour, 0}, {48, time.Hour, 24 * time.Hour, 0},
		{90, time.Millisecond, time.Millisecond, 0.5}, {1100, time.Nanosecond, time.Second, 0}, {64, time.Second, 2 * time.Second, 1},
	}
	if c.Thorough() {
		for i := 0; i < 24; i++ {
			r := vlib.Derive(c.Seed, "C06deep", i)
			base := time.Duration(r.Range(1, 5000)) * vlib.Pick(r, []time.Duration{time.Nanosecond, time.Millisecond, time.Second, time.Minute})
			max := r.Range(30, 1200)
			capd := base * time.Duration(r.Range(1, 50))
			// the whole retry history must fit into the representable time range
			// (UnixNano ends in 2262): at most 100 years of virtual time per scenario
			if limit := 100 * 365 * 24 * time.Hour / time.Duration(2*max); capd > limit {
				capd = limit
				if base > capd {
					base = capd
				}
			}
			cfgs = append(cfgs, cfg{max, base, capd, vlib.Pick(r, []float64{0, 0.2, 1})})
		}
	}
	parallel(len(cfgs), 6, func(i int) {
		k := cfgs[i]
		be := []string{"memory", "sqlite"}[i%2]
		url := "https://deep.example/hook"
		routes := []dispatcher.RouteConfig{{Route: "/deep", Concurrency: 1, Targets: []dispatcher.TargetConfig{{URL: url, Timeout: 10 * time.Millisecond,
			Retry: dispatcher.RetryConfig{Type: "exponential", Max: k.max, Base: k.base, Cap: k.cap, Jitter: k.jitter}}}}}
		pushcheck.Run(c, pushcheck.Scenario{Label: fmt.Sprintf("C06/deep/%s/max%d-base%s-cap%s-j%v", be, k.max, k.base, k.cap, k.jitter), Backend: be, Routes: routes,
			Messages: []pushcheck.Message{{ID: "deep", Route: "/deep", Target: url}},
			Script:   func(_, _ string, nth int) pushcheck.Behaviour { return c06Retryable[nth%len(c06Retryable)] }})
	})
}

// C06: push delivery classification, bounded retry with backoff, DLQ.
func C06(c *vlib.Ctx) {
	c.Rule("the real PushDispatcher runs against a recording store wrapper (memory and SQLite, virtual clock jumped to the next due instant whenever the dispatcher is idle) and a scripted deliverer. (1) table sweep: every status 100-599 and the error kinds net/timeout/policy, retry.max 1 and 3, every attempt 1..max+1 (the finite classification table, enumerated completely: see table_cells); (2) generated per-target behaviour sequences with recovery, 1-3 targets, concurrency 1-8, generated retry configs (max 1-12, base<=cap, jitter 0/0.2/0.5/1), DLQ requeue cycles, injected lease-mutation failures; (2b) generated configuration files (defaults.deliver.retry and per-deliver retry directives with any subset of max/base/cap/jitter, 1-3 routes of 1-3 deliver blocks) compiled and mapped to dispatcher routes by the production code, each target judged by the retry configuration derived from the text alone; (2c) retry settings edited (max raised / lowered in the deliver block or in defaults.deliver, directive added / removed, base and cap) and reloaded through the production wiring with its dispatcher: a message to a target answering 503 must see the number of requests and the DLQ reason of a fresh start of the configuration reported as running; (3) a real-HTTP sample of HTTPDeliverer against local servers. Each delivery's settlement, nack delay, next offer time and attempt record are compared with an independent table. distinct_nontrivial = distinct (result, attempt-vs-max, expected action) classes.")
	c.Assume("the attempt bound and the terminal-state clause are asserted only in scenarios without injected store failures, as the quantifier says")
	c06Table(c)
	c06Random(c)
	c06Deep(c)
	c06Compiled(c)
	c06RetryReload(c)
	c06HTTP(c)
	c06Wire(c)
	c06WireProduction(c)
	c06PolicyFlip(c)
	// an egress-policy denial raised at a redirect hop is still a policy denial:
	// dead-lettered policy_denied after one attempt, not retried to max_retries
	for _, be := range []string{"memory", "sqlite"} {
		c16DispatcherRedirects(c, be)
	}
}
