package checks

import (
	"fmt"
	"os"
	"path/filepath"
	"strings"
	"time"

	"github.com/nuetzliches/hookaido/internal/app"
	"github.com/nuetzliches/hookaido/internal/dispatcher"
	"github.com/nuetzliches/hookaido/verifharness/pushcheck"
	"github.com/nuetzliches/hookaido/verifharness/vlib"
)

// c06Compiled: the retry configuration reaches the dispatcher from a file:
// built-in defaults, overridden field by field in defaults { deliver { retry } },
// overridden field by field again in each deliver block. Generated files with
// 1-3 routes of 1-3 deliver blocks, each with no, a partial or a full retry
// directive, are compiled and mapped to dispatcher routes by the production
// code; the dispatcher runs them, and the oracle judges every target by the
// retry configuration derived here from the generated text alone.
func c06Compiled(c *vlib.Ctx) {
	n := c.N(40, 1200)
	dir := c.Scratch()
	type rspec struct {
		max           int
		base, capd    time.Duration
		jitter        float64
		sMax, sBase   bool
		sCap, sJitter bool
		present       bool
	}
	durs := []time.Duration{5 * time.Millisecond, 40 * time.Millisecond, 150 * time.Millisecond, 700 * time.Millisecond, 2 * time.Second, 9 * time.Second, 45 * time.Second, 3 * time.Minute}
	gen := func(r *vlib.Rand, eff dispatcher.RetryConfig) (rspec, dispatcher.RetryConfig) {
		var s rspec
		if r.Chance(0.4) {
			return s, eff
		}
		s.present = true
		s.sMax, s.sBase, s.sCap, s.sJitter = r.Chance(0.6), r.Chance(0.5), r.Chance(0.4), r.Chance(0.4)
		s.max, s.base, s.capd, s.jitter = r.Range(1, 7), vlib.Pick(r, durs), vlib.Pick(r, durs), vlib.Pick(r, []float64{0, 0.1, 0.5, 1})
		if s.sMax {
			eff.Max = s.max
		}
		if s.sBase {
			eff.Base = s.base
		}
		if s.sCap {
			eff.Cap = s.capd
		}
		if s.sJitter {
			eff.Jitter = s.jitter
		}
		if eff.Base > eff.Cap { // keep the file acceptable: base <= cap
			s.sCap, s.capd = true, eff.Base*time.Duration(r.Range(1, 6))
			eff.Cap = s.capd
		}
		return s, eff
	}
	text := func(s rspec) string {
		if !s.present {
			return ""
		}
		t := "retry exponential"
		if s.sMax {
			t += fmt.Sprintf(" max %d", s.max)
		}
		if s.sBase {
			t += " base " + s.base.String()
		}
		if s.sCap {
			t += " cap " + s.capd.String()
		}
		if s.sJitter {
			t += fmt.Sprintf(" jitter %v", s.jitter)
		}
		return t
	}
	parallel(n, 8, func(i int) {
		r := vlib.Derive(c.Seed, "C06/compiled", i)
		be := []string{"memory", "sqlite"}[i%2]
		builtin := dispatcher.RetryConfig{Type: "exponential", Max: 8, Base: 2 * time.Second, Cap: 2 * time.Minute, Jitter: 0.2}
		dspec, defEff := gen(r, builtin)
		var b strings.Builder
		b.WriteString("pull_api { auth token \"raw:t\" }\n")
		fmt.Fprintf(&b, "defaults {\n deliver {\n  timeout 15ms\n  %s\n }\n}\n", text(dspec))
		var oracle []dispatcher.RouteConfig
		shape := ""
		for ri := 0; ri < r.Range(1, 3); ri++ {
			route := fmt.Sprintf("/push%d", ri)
			fmt.Fprintf(&b, "%q {\n", route)
			orc := dispatcher.RouteConfig{Route: route}
			for ti := 0; ti < r.Range(1, 3); ti++ {
				ts, eff := gen(r, defEff)
				u := fmt.Sprintf("https://t%d.r%d.example/hook", ti, ri)
				fmt.Fprintf(&b, " deliver %q {\n  %s\n }\n", u, text(ts))
				orc.Targets = append(orc.Targets, dispatcher.TargetConfig{URL: u, Retry: eff})
				switch {
				case !ts.present:
					shape += "n"
				case ts.sMax && ts.sBase && ts.sCap && ts.sJitter:
					shape += "f"
				default:
					shape += "p"
				}
			}
			shape += "/"
			b.WriteString("}\n")
			oracle = append(oracle, orc)
		}
		path := filepath.Join(dir, fmt.Sprintf("c06-compiled-%d.hookaido", i))
		if err := os.WriteFile(path, []byte(b.String()), 0o644); err != nil {
			c.Inconclusive("c06 compiled: " + err.Error())
			return
		}
		compiled, err := app.VerifCompile(path)
		_ = os.Remove(path)
		if err != nil {
			c.Violation(vlib.Signature{"class": "acceptable_retry_config_refused"}, "a file whose every effective retry configuration has max>0, 0<base<=cap and jitter in [0,1] was refused: "+err.Error(), map[string]any{"config": b.String()})
			return
		}
		routes := app.VerifDispatchRoutes(compiled)
		// everything but the retry configuration is taken from the compiled routes
		for oi := range oracle {
			for _, rt := range routes {
				if rt.Route != oracle[oi].Route {
					continue
				}
				oracle[oi].Concurrency = rt.Concurrency
				for ti := range oracle[oi].Targets {
					for _, t := range rt.Targets {
						if t.URL == oracle[oi].Targets[ti].URL {
							ref := oracle[oi].Targets[ti].Retry
							oracle[oi].Targets[ti] = t
							oracle[oi].Targets[ti].Retry = ref
						}
					}
				}
			}
		}
		var msgs []pushcheck.Message
		plan := map[string][]pushcheck.Behaviour{}
		for _, orc := range oracle {
			for ti, t := range orc.Targets {
				for m := 0; m < 3; m++ {
					id := fmt.Sprintf("m%d-%s-t%d", m, orc.Route[1:], ti)
					msgs = append(msgs, pushcheck.Message{ID: id, Route: orc.Route, Target: t.URL})
					var seq []pushcheck.Behaviour
					fails := t.Retry.Max + 3 // m==0: never recovers: reaches max+1
					if m > 0 {
						fails = r.Intn(t.Retry.Max + 2)
					}
					for k := 0; k < fails; k++ {
						seq = append(seq, vlib.Pick(r, []pushcheck.Behaviour{{Status: 500}, {Status: 503}, {Status: 429}, {Status: 408}, {Err: "net"}}))
					}
					seq = append(seq, vlib.Pick(r, []pushcheck.Behaviour{{Status: 200}, {Status: 204}, {Status: 404}, {Status: 503}}))
					plan[id] = seq
				}
			}
		}
		c.Count("compiled_files", 1)
		c.Distinct("compiled_route_shapes", shape)
		if c.Counter("compiled_files") <= 2 {
			c.Sample(map[string]any{"part": "compiled", "config": b.String(), "oracle": fmt.Sprintf("%+v", oracle)})
		}
		pushcheck.Run(c, pushcheck.Scenario{
			Label: fmt.Sprintf("C06/compiled/%s/%d [%s] config:\n%s", be, i, shape, b.String()), Backend: be, Routes: routes, Oracle: oracle, Messages: msgs,
			Script: func(msg, _ string, nth int) pushcheck.Behaviour {
				seq := plan[msg]
				if nth-1 < len(seq) {
					return seq[nth-1]
				}
				return seq[len(seq)-1]
			},
		})
	})
}
