package checks

import (
	"fmt"
	"github.com/nuetzliches/hookaido/verifharness/leasecheck"
	"time"

	"github.com/nuetzliches/hookaido/internal/queue"
	"github.com/nuetzliches/hookaido/verifharness/storecheck"
	"github.com/nuetzliches/hookaido/verifharness/vlib"
)

// voidedLeaseProbe presents the old lease of every message that an operator
// mutation just canceled: it must be refused and must change nothing.
func voidedLeaseProbe(rs *storecheck.RunState, op storecheck.Op, results []storecheck.Res) {
	if op.Kind != storecheck.KCancel && op.Kind != storecheck.KCancelF {
		return
	}
	for i, a := range rs.Actors {
		for id, r0 := range rs.Prev[i] {
			r1, ok := rs.Snaps[i][id]
			if !ok || r0.State != queue.StateLeased || r1.State != queue.StateCanceled || r0.LeaseID == "" {
				continue
			}
			rs.C.Count("voided_lease_probes", 1)
			before := rs.Snaps[i]
			var err error
			switch rs.C.Counter("voided_lease_probes") % 4 {
			case 0:
				err = a.H.Store.Ack(r0.LeaseID)
			case 1:
				err = a.H.Store.Nack(r0.LeaseID, 0)
			case 2:
				err = a.H.Store.Extend(r0.LeaseID, 1e9)
			default:
				err = a.H.Store.MarkDead(r0.LeaseID, "probe")
			}
			if e := rs.Observe(i); e != nil {
				rs.C.Inconclusive("probe snapshot: " + e.Error())
				return
			}
			add, rem, chg := vlib.Diff(before, rs.Snaps[i])
			if err == nil || len(add)+len(rem)+len(chg) > 0 {
				rs.Report(storecheck.Obs{Prop: "C14", Sig: vlib.Signature{"class": "canceled_lease_still_works", "backend": a.H.Backend, "op": string(op.Kind)},
					What: fmt.Sprintf("lease %s of canceled message %s: err=%v changed=%v removed=%v", r0.LeaseID, id, err, chg, rem)})
			}
		}
	}
}

func c14Store(c *vlib.Ctx) {
	w := map[storecheck.Kind]int{
		storecheck.KEnqueue: 14, storecheck.KEnqueueBatch: 8, storecheck.KDequeue: 10, storecheck.KAck: 2, storecheck.KNack: 3,
		storecheck.KDead: 6, storecheck.KDeadBatch: 4, storecheck.KCancel: 8, storecheck.KRequeue: 8, storecheck.KResume: 6,
		storecheck.KCancelF: 10, storecheck.KRequeueF: 10, storecheck.KResumeF: 8, storecheck.KRequeueDead: 5, storecheck.KDeleteDead: 5,
		storecheck.KAdvance: 6, storecheck.KList: 1,
	}
	seqs := c.N(40, 900)
	cfgs := []vlib.StoreCfg{{}, {MaxDepth: 6, DropPolicy: "reject"}, {DeliveredRetention: 3600e9}, {PruneInterval: 1, DLQMaxDepth: 4}}
	for _, be := range []string{"memory", "sqlite"} {
		for ci, sc := range cfgs {
			for s := 0; s < seqs; s++ {
				r := vlib.Derive(c.Seed, "C14", be, ci, s)
				g := storecheck.GenCfg{NIDs: r.Range(8, 40), Routes: stdRoutes, Targets: stdTargets, Ties: true, OutOfOrder: r.Bool(), Weights: w, FarInstants: true}
				storecheck.RunSequence(c, r, storecheck.RunCfg{
					Backends: []string{be}, Store: sc, Gen: g, Steps: r.Range(50, 110),
					Label: fmt.Sprintf("C14/%s/cfg%d/seq%d", be, ci, s),
					Props: map[string]bool{"C14": true}, AfterStep: voidedLeaseProbe,
				})
			}
		}
	}
}

// c14Big exercises the 1000 cap and the default limit on a population above 1000.
func c14Big(c *vlib.Ctx) {
	for _, be := range []string{"memory", "sqlite"} {
		r := vlib.Derive(c.Seed, "C14big", be)
		var script []storecheck.Op
		// 1230 messages in states dead / canceled / queued with received_at ties in groups of 3
		for b := 0; b < 41; b++ {
			op := storecheck.Op{Kind: storecheck.KEnqueueBatch}
			for i := 0; i < 30; i++ {
				n := b*30 + i
				st := queue.StateDead
				if n%5 == 0 {
					st = queue.StateQueued
				}
				e := queue.Envelope{ID: fmt.Sprintf("b%04d", n), Route: stdRoutes[n%2], Target: "pull", State: st, DeadReason: "seed",
					ReceivedAt: vlib.Epoch.Add(-time.Duration(n/3) * time.Second), Payload: []byte("x")}
				op.Envs = append(op.Envs, e)
			}
			script = append(script, op)
		}
		f := func(k storecheck.Kind, limit int, route string, st queue.State, preview bool) storecheck.Op {
			return storecheck.Op{Kind: k, Filter: &queue.MessageManageFilterRequest{Limit: limit, Route: route, State: st, PreviewOnly: preview}}
		}
		script = append(script,
			f(storecheck.KCancelF, 1001, "", "", true),
			f(storecheck.KCancelF, 1001, "", "", false), // capped at 1000, newest first
			f(storecheck.KRequeueF, 0, "", "", true),
			f(storecheck.KRequeueF, 0, "", "", false), // default 100
			f(storecheck.KResumeF, 5000, stdRoutes[r.Intn(2)], queue.StateCanceled, false),
			f(storecheck.KRequeueF, 1000, "", queue.StateDead, false),
			f(storecheck.KCancelF, -5, "", queue.StateQueued, false),
		)
		storecheck.RunSequence(c, r, storecheck.RunCfg{Backends: []string{be}, Script: script, Label: "C14/big/" + be, Props: map[string]bool{"C14": true}})
	}
}

// C14: operator queue mutations touch exactly what they name.
func C14(c *vlib.Ctx) {
	c.Rule("generated populations (8-40 ids; one 1230-message population for the 1000 cap) over routes/targets/all five states with deliberate received_at ties; id lists with unknown, duplicate, blank and wrong-state ids; filters with absent/contradictory criteria, limits {0,-1,1,2,3,100,1000,1001}, cursors on tie timestamps. An independent selection (filter, order received_at desc / id desc, limit) is compared with the snapshot diff and with the reported counts; previews must change nothing and report the count of the real run. After every cancel the old lease of each canceled leased message is presented and must be refused without effect. Admin HTTP and MCP surfaces are sampled on top (MCP both on the SQLite file and, for a memory backend, through the Admin API of the production wiring on a loopback listener, with route and application/endpoint selectors, with and without preview_only); every fifth Admin HTTP population holds 1800-2000 messages (well over 100 matches per route and operation) and is driven with by-filter calls whose limits are absent, 100, 101, 1000, 1001, 5000 and 2^31 (admin_filter_limit_vs_matches lists the limit-class x match-count classes seen). distinct_nontrivial = distinct (backend, operation, result class, observed transitions) tuples.")
	c14Store(c)
	c14Big(c)
	c14Admin(c)
	c14MCPProxyFaults(c)
	// "voiding the lease of a leased message they cancel", with the lease holders
	// settling concurrently (batch forms; on SQLite the operator works through a
	// second handle on the same file, as hookaido mcp does): the lease-register
	// model of C04 on operator-heavy histories
	leaseHistories(c, "C14", leasecheck.ModeFencing, c.N(16, 400), 0.5)
}
