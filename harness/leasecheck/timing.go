package leasecheck

import (
	"fmt"
	"time"

	"github.com/nuetzliches/hookaido/internal/queue"
	"github.com/nuetzliches/hookaido/verifharness/vlib"
)

// TimingProbe: every duration a consumer sends through a transport (lease_ttl,
// nack delay, extend_by; single and batch forms; direct Store calls, Pull HTTP,
// Worker gRPC) must arrive at the store unchanged: after the call the row holds
// exactly now+duration, the message stays hidden until that instant and is
// offered at it. One sequential caller, frozen virtual clock, one message per
// case, so that every observation is unambiguous.
func TimingProbe(c *vlib.Ctx, r *vlib.Rand, backend, label string) {
	w, err := NewWorld(c, Cfg{Backend: backend, Label: label})
	if err != nil {
		c.Inconclusive("timing probe world: " + err.Error())
		return
	}
	defer w.Close()
	durs := []time.Duration{time.Nanosecond, time.Millisecond, 50 * time.Millisecond, 500 * time.Millisecond, 750 * time.Millisecond, 999999999 * time.Nanosecond, time.Second, 1500 * time.Millisecond,
		2500 * time.Millisecond, 10*time.Second + 1, 59*time.Second + 999*time.Millisecond, 90 * time.Second, time.Duration(r.Range(1, 5000)) * time.Millisecond, time.Duration(r.Range(1, 1<<31)) * time.Nanosecond}
	seq := 0
	row := func(id string) (vlib.Row, bool) {
		snap, err := w.h.Snap()
		if err != nil {
			return vlib.Row{}, false
		}
		rw, ok := snap[id]
		return rw, ok
	}
	viol := func(class, tr, what string, wit map[string]any) {
		c.Violation(vlib.Signature{"class": class, "transport": tr, "backend": backend}, what, wit)
	}
	for _, tr := range []string{"direct", "http", "grpc"} {
		for _, d := range durs {
			for _, form := range []string{"lease_ttl", "nack_delay", "nack_delay_batch", "extend_by", "extend_by_twice"} {
				seq++
				id := fmt.Sprintf("t%04d", seq)
				if err := w.h.Store.Enqueue(queue.Envelope{ID: id, Route: route, Target: "pull", Payload: []byte(id)}); err != nil {
					c.Inconclusive("timing probe enqueue: " + err.Error())
					return
				}
				ttl := 30 * time.Second
				if form == "lease_ttl" {
					ttl = d
				}
				now := w.clock.NowNS()
				items, err := w.dequeue(tr, 1, ttl)
				if err != nil || len(items) != 1 || items[0].Msg != id {
					c.Inconclusive(fmt.Sprintf("timing probe %s: dequeue of %s via %s returned %d items, err %v", label, id, tr, len(items), err))
					return
				}
				lease := items[0].Lease
				c.Count("evaluations", 1)
				c.Count("timing_probes", 1)
				c.Distinct("nontrivial", fmt.Sprintf("timing:%s:%s:%s:%s", backend, tr, form, durClass(d)))
				wit := map[string]any{"label": label, "transport": tr, "form": form, "duration": d.String(), "message": id}
				var want int64 // instant at which the message must become visible again
				switch form {
				case "lease_ttl":
					want = now + int64(d)
					if rw, ok := row(id); !ok || rw.LeaseUntil != want {
						viol("duration_not_honoured", tr, fmt.Sprintf("dequeue with lease_ttl %s via %s: lease_until is now+%s", d, tr, time.Duration(rw.LeaseUntil-now)), wit)
					}
				case "nack_delay", "nack_delay_batch":
					res, an := w.settle(tr, EvNack, []string{lease}, d, form == "nack_delay_batch")
					if an != "" || !res[lease] {
						c.Inconclusive(fmt.Sprintf("timing probe %s: nack via %s failed: %s", label, tr, an))
						return
					}
					want = now + int64(d)
					if rw, ok := row(id); !ok || rw.State != queue.StateQueued || rw.NextRunAt != want {
						viol("duration_not_honoured", tr, fmt.Sprintf("%s %s via %s: next_run_at is now+%s (state %s)", form, d, tr, time.Duration(rw.NextRunAt-now), rw.State), wit)
					}
				case "extend_by":
					res, an := w.settle(tr, EvExtend, []string{lease}, d, false)
					if an != "" || !res[lease] {
						c.Inconclusive(fmt.Sprintf("timing probe %s: extend via %s failed: %s", label, tr, an))
						return
					}
					want = now + int64(30*time.Second) + int64(d)
					if rw, ok := row(id); !ok || rw.LeaseUntil != want {
						viol("duration_not_honoured", tr, fmt.Sprintf("extend_by %s via %s: lease_until moved by %s", d, tr, time.Duration(rw.LeaseUntil-now-int64(30*time.Second))), wit)
					}
				case "extend_by_twice":
					// a worker's heartbeat: the same extend_by again a little later; both are
					// confirmed, so the lease must run to the end of the second extension
					res, an := w.settle(tr, EvExtend, []string{lease}, d, false)
					if an != "" || !res[lease] {
						c.Inconclusive(fmt.Sprintf("timing probe %s: extend via %s failed: %s", label, tr, an))
						return
					}
					w.clock.Advance(vlib.Pick(r, []time.Duration{0, time.Millisecond, time.Second, 20 * time.Second}))
					res, an = w.settle(tr, EvExtend, []string{lease}, d, false)
					if an != "" || !res[lease] {
						viol("live_lease_extend_refused", tr, fmt.Sprintf("second extend_by %s via %s of a live lease was refused: %s", d, tr, an), wit)
						_ = w.h.Store.Ack(lease)
						continue
					}
					want = now + int64(30*time.Second) + 2*int64(d)
					if rw, ok := row(id); !ok || rw.LeaseUntil != want {
						viol("duration_not_honoured", tr, fmt.Sprintf("extend_by %s twice via %s (both confirmed): lease_until moved by %s in total", d, tr, time.Duration(rw.LeaseUntil-now-int64(30*time.Second))), wit)
					}
				}
				// hidden until the instant, offered at it (SQLite sweeps expired leases at most
				// once per 10ms of store clock: allow that granularity for lease expiry)
				w.clock.AdvanceTo(time.Unix(0, want-1))
				if got, err := w.dequeue("direct", 10, time.Minute); err == nil && len(got) > 0 {
					viol("visible_too_early", tr, fmt.Sprintf("%s %s via %s: message %s was offered 1ns before it is due", form, d, tr, got[0].Msg), wit)
					_ = w.h.Store.Ack(got[0].Lease)
					continue
				}
				w.clock.AdvanceTo(time.Unix(0, want))
				if form == "lease_ttl" || form == "extend_by" || form == "extend_by_twice" {
					w.clock.Advance(10 * time.Millisecond)
				}
				got, err := w.dequeue("direct", 10, time.Minute)
				if err != nil || len(got) != 1 || got[0].Msg != id {
					viol("not_offered_when_due", tr, fmt.Sprintf("%s %s via %s: message %s is not offered at the instant it is due (%d items)", form, d, tr, id, len(got)), wit)
				}
				for _, g := range got {
					_ = w.h.Store.Ack(g.Lease)
				}
				w.clock.Advance(20 * time.Millisecond)
			}
		}
	}
}

func durClass(d time.Duration) string {
	switch {
	case d < time.Millisecond:
		return "sub_ms"
	case d < time.Second:
		return "sub_second"
	case d%time.Second == 0:
		return "whole_seconds"
	}
	return "fractional_seconds"
}

// HugeDurationProbe: durations near the top of what a duration can hold (285-292 years). If the
// transport accepts such a lease_ttl / nack delay / extend_by, the message must stay hidden for
// that long: it is looked for right away, one second, one year and five years later (the
// virtual clock itself stays far below the end of the representable time range). A transport or
// store that refuses the duration outright is fine.
func HugeDurationProbe(c *vlib.Ctx, r *vlib.Rand, backend, label string) {
	w, err := NewWorld(c, Cfg{Backend: backend, Label: label})
	if err != nil {
		c.Inconclusive("huge duration probe world: " + err.Error())
		return
	}
	defer w.Close()
	seq := 0
	for _, tr := range []string{"direct", "http", "grpc"} {
		for _, d := range []time.Duration{2500000 * time.Hour, 2562047 * time.Hour} {
			for _, form := range []string{"lease_ttl", "nack_delay", "nack_delay_batch", "extend_by"} {
				seq++
				id := fmt.Sprintf("h%04d", seq)
				if err := w.h.Store.Enqueue(queue.Envelope{ID: id, Route: route, Target: "pull", Payload: []byte(id)}); err != nil {
					c.Inconclusive("huge duration probe enqueue: " + err.Error())
					return
				}
				ttl := 30 * time.Second
				if form == "lease_ttl" {
					ttl = d
				}
				start := w.clock.NowNS()
				items, err := w.dequeue(tr, 1, ttl)
				if err != nil || len(items) != 1 || items[0].Msg != id {
					// refused, or capped away: nothing to observe for this form
					c.Count("huge_duration_refused", 1)
					for _, it := range items {
						_ = w.h.Store.Ack(it.Lease)
					}
					_, _ = w.h.Store.CancelMessages(queue.MessageCancelRequest{IDs: []string{id}})
					continue
				}
				lease := items[0].Lease
				accepted := true
				switch form {
				case "nack_delay", "nack_delay_batch":
					res, _ := w.settle(tr, EvNack, []string{lease}, d, form == "nack_delay_batch")
					accepted = res[lease]
				case "extend_by":
					res, _ := w.settle(tr, EvExtend, []string{lease}, d, false)
					accepted = res[lease]
				}
				c.Count("evaluations", 1)
				c.Distinct("nontrivial", fmt.Sprintf("huge:%s:%s:%s:accepted=%v", backend, tr, form, accepted))
				if !accepted {
					c.Count("huge_duration_refused", 1)
					_ = w.h.Store.Ack(lease)
					_, _ = w.h.Store.CancelMessages(queue.MessageCancelRequest{IDs: []string{id}})
					continue
				}
				c.Count("huge_duration_accepted", 1)
				wit := map[string]any{"label": label, "transport": tr, "form": form, "duration": d.String(), "message": id}
				// a lease_ttl may be capped by the store's max lease; nack delay and extend_by have no documented cap
				for _, step := range []time.Duration{0, time.Second, 365 * 24 * time.Hour, 5 * 365 * 24 * time.Hour} {
					w.clock.AdvanceTo(time.Unix(0, start+int64(step)))
					got, err := w.dequeue("direct", 10, time.Minute)
					if err == nil && len(got) > 0 {
						if form != "lease_ttl" {
							c.Violation(vlib.Signature{"class": "visible_too_early", "transport": tr, "backend": backend, "case": "huge_duration", "form": form},
								fmt.Sprintf("%s %s via %s was accepted, but message %s is offered again %s later", form, d, tr, got[0].Msg, step), wit)
						} else {
							c.Count("huge_lease_ttl_capped", 1)
						}
						for _, g := range got {
							_ = w.h.Store.Ack(g.Lease)
						}
						break
					}
				}
				// take the message out of the way of the next case
				_, _ = w.h.Store.CancelMessages(queue.MessageCancelRequest{IDs: []string{id}})
				w.clock.AdvanceTo(time.Unix(0, start))
			}
		}
	}
}
