package checks

import (
	"fmt"
	"strings"
	"sync"
	"sync/atomic"
	"time"

	"github.com/nuetzliches/hookaido/internal/queue"
	"github.com/nuetzliches/hookaido/verifharness/l2"
	"github.com/nuetzliches/hookaido/verifharness/vlib"
)

// c11Concurrent: authorized and unauthorized callers on one endpoint at the
// same time. Four goroutines poll with the valid token while twelve present
// near-miss tokens of the same length (last / first / middle character
// changed, case variant, another route's token cut or padded to the length) on
// the global allowlist, a per-route allowlist and the Admin API. No near-miss
// request may be answered anything but 401, whatever runs next to it.
func c11Concurrent(c *vlib.Ctx, dir string) {
	perWorker := c.N(1500, 40000)
	for ci := 0; ci < 2; ci++ {
		r := vlib.Derive(c.Seed, "C11conc", ci)
		glob := fmt.Sprintf("Gtok-%016x%016x", r.U64(), r.U64())
		own := fmt.Sprintf("Rtok-%016x%016x", r.U64(), r.U64())
		adm := fmt.Sprintf("Atok-%016x%016x", r.U64(), r.U64())
		cfg := fmt.Sprintf("ingress { listen 127.0.0.1:0 }\npull_api { listen 127.0.0.2:0\n auth token raw:%s\n}\nadmin_api { listen 127.0.0.3:0\n auth token raw:%s\n}\n"+
			"/in0 {\n queue { backend memory }\n pull { path /e0 } }\n/in1 {\n queue { backend memory }\n pull { path /e1\n  auth token raw:%s\n } }\n", glob, adm, own)
		a, err := l2.Start(dir, cfg, nil, vlib.NewVClock(vlib.Epoch))
		if err != nil {
			c.Inconclusive("C11 concurrent config: " + err.Error())
			return
		}
		for k := 0; k < 400; k++ {
			_ = a.Store.Enqueue(queue.Envelope{ID: fmt.Sprintf("c0-%d", k), Route: "/in0", Target: "pull", Payload: []byte("p")})
			_ = a.Store.Enqueue(queue.Envelope{ID: fmt.Sprintf("c1-%d", k), Route: "/in1", Target: "pull", Payload: []byte("p")})
		}
		nearMisses := func(valid, other string) []string {
			b := []byte(valid)
			mid := len(b) / 2
			fit := other
			for len(fit) < len(valid) {
				fit += "x"
			}
			out := []string{
				valid[:len(valid)-1] + "~", "~" + valid[1:], valid[:mid] + "~" + valid[mid+1:], strings.ToUpper(valid), fit[:len(valid)],
			}
			var keep []string
			for _, o := range out {
				if o != valid {
					keep = append(keep, o)
				}
			}
			return keep
		}
		type surface struct {
			name   string
			valid  string
			misses []string
			call   func(token string) int
		}
		pull := func(ep string) func(string) int {
			return func(token string) int {
				req := l2.JSONReq("POST", a.Compiled.PullAPI.Prefix+ep+"/dequeue", map[string]any{"batch": 1, "lease_ttl": "1s"}, "")
				req.Header.Set("Authorization", "Bearer "+token)
				return l2.Do(a.Pull, req).Status
			}
		}
		surfaces := []surface{
			{"pull_global_allowlist", glob, nearMisses(glob, own), pull("/e0")},
			{"pull_route_allowlist", own, nearMisses(own, glob), pull("/e1")},
			{"admin", adm, nearMisses(adm, glob), func(token string) int {
				req := l2.JSONReq("GET", a.Compiled.AdminAPI.Prefix+"/messages?limit=1", nil, "")
				req.Header.Set("Authorization", "Bearer "+token)
				return l2.Do(a.Admin, req).Status
			}},
		}
		for _, s := range surfaces {
			var wg sync.WaitGroup
			var stop atomic.Bool
			var intruded, validOK, missCalls atomic.Int64
			var firstBad atomic.Value
			for g := 0; g < 4; g++ {
				wg.Add(1)
				go func() {
					defer wg.Done()
					for !stop.Load() {
						if st := s.call(s.valid); st != 401 {
							validOK.Add(1)
						}
					}
				}()
			}
			var mw sync.WaitGroup
			for g := 0; g < 12; g++ {
				mw.Add(1)
				tok := s.misses[g%len(s.misses)]
				go func(tok string) {
					defer mw.Done()
					for k := 0; k < perWorker && intruded.Load() == 0; k++ {
						missCalls.Add(1)
						if st := s.call(tok); st != 401 {
							intruded.Add(1)
							firstBad.CompareAndSwap(nil, fmt.Sprintf("token %q (valid one is %q) answered %d", tok, s.valid, st))
						}
					}
				}(tok)
			}
			done := make(chan struct{})
			go func() { mw.Wait(); close(done) }()
			select {
			case <-done:
			case <-time.After(120 * time.Second):
				c.Inconclusive("C11 concurrent: near-miss workers did not finish within 120s")
			}
			stop.Store(true)
			wg.Wait()
			c.Count("evaluations", missCalls.Load())
			c.Count("concurrent_near_miss_requests", missCalls.Load())
			c.Count("concurrent_valid_requests_next_to_them", validOK.Load())
			c.Distinct("nontrivial", fmt.Sprintf("concurrent_near_miss:%s:intruded=%v", s.name, intruded.Load() > 0))
			if intruded.Load() > 0 {
				c.Violation(vlib.Signature{"class": "unauthorized_not_rejected", "surface": s.name, "op": "concurrent", "credential": "near_miss_same_length"},
					fmt.Sprintf("%s: with authorized callers running next to it, a near-miss token was let through after %d near-miss requests: %v", s.name, missCalls.Load(), firstBad.Load()), map[string]any{"config": cfg})
			}
			if validOK.Load() == 0 {
				c.Inconclusive("C11 concurrent: no authorized request completed next to the near-miss ones (" + s.name + ")")
			}
		}
		a.Close()
	}
}
