package checks

import (
	"fmt"
	"github.com/nuetzliches/hookaido/internal/verifhook"
	"io"
	"net/http"
	"sort"
	"strconv"
	"strings"
	"sync"
	"time"

	"github.com/nuetzliches/hookaido/internal/ingress"
	"github.com/nuetzliches/hookaido/verifharness/l2"
	"github.com/nuetzliches/hookaido/verifharness/vlib"
)

type nonceObs struct {
	Nonce    string
	TS       int64 // signed timestamp (unix seconds)
	Arrival  int64 // clock at arrival (ns)
	Accepted bool
	Tag      string
}

// nonceLedger: for every pair of accepted requests carrying one nonce the later
// one must arrive after the first one's timestamp has left the tolerance window.
func nonceLedger(c *vlib.Ctx, layer string, tol time.Duration, obs []nonceObs, ctx map[string]any) {
	by := map[string][]nonceObs{}
	for _, o := range obs {
		if o.Accepted {
			by[o.Nonce] = append(by[o.Nonce], o)
		}
	}
	for n, os := range by {
		sort.SliceStable(os, func(i, j int) bool { return os[i].Arrival < os[j].Arrival })
		for i := 0; i < len(os); i++ {
			for j := i + 1; j < len(os); j++ {
				limit := os[i].TS*1e9 + int64(tol)
				// the same signed request (same nonce, same timestamp) honoured twice is a
				// refutation wherever the second arrival lies: beyond ts+tolerance the
				// request is not acceptable at all, inside it the nonce must be remembered
				sameRequest := os[j].TS == os[i].TS
				if os[j].Arrival <= limit || sameRequest {
					rel := "inside_window"
					if os[j].Arrival == limit {
						rel = "exactly_ts_plus_tolerance"
					} else if os[j].Arrival > limit {
						rel = "same_request_after_window"
					}
					sig := vlib.Signature{"class": "replay_accepted", "layer": layer, "when": rel, "between": os[j].Tag}
					w := map[string]any{"nonce": n, "first": os[i], "second": os[j], "tolerance": tol.String()}
					for k, v := range ctx {
						w[k] = v
					}
					c.Violation(sig, fmt.Sprintf("[%s] nonce %s accepted twice: first arrival %s (ts %d), again at %s while ts+tolerance = %s (%s; %s)", layer, n,
						time.Unix(0, os[i].Arrival).UTC().Format(time.RFC3339Nano), os[i].TS, time.Unix(0, os[j].Arrival).UTC().Format(time.RFC3339Nano),
						time.Unix(0, limit).UTC().Format(time.RFC3339Nano), rel, os[j].Tag), w)
					return
				}
			}
		}
	}
}

func signedReq(secret, route string, ts int64, nonce string, body []byte) *http.Request {
	req, _ := l2.NewRequest("POST", route, body, "")
	tsStr := strconv.FormatInt(ts, 10)
	req.Header.Set("X-Timestamp", tsStr)
	req.Header.Set("X-Nonce", nonce)
	req.Header.Set("X-Signature", signInbound(secret, "POST", route, tsStr, body))
	return req
}

// c09L1: ingress.HMACAuth under a virtual clock.
func c09L1(c *vlib.Ctx) {
	n := c.N(800, 20000)
	for i := 0; i < n; i++ {
		r := vlib.Derive(c.Seed, "C09L1", i)
		tol := vlib.Pick(r, []time.Duration{time.Second, 30 * time.Second, 5 * time.Minute})
		if i%970 == 1 {
			tol = 5 * time.Minute
		}
		clock := vlib.NewVClock(c08T0)
		auth := ingress.NewHMACAuth([][]byte{[]byte("k1")})
		auth.Tolerance = tol
		auth.Now = clock.Now
		ts := c08T0.Unix()
		tsNS := ts * 1e9
		var obs []nonceObs
		send := func(nonce string, ts int64, good bool, tag string) bool {
			body := []byte("payload-" + nonce)
			secret := "k1"
			if !good {
				secret = "wrong"
			}
			req := signedReq(secret, "/r", ts, nonce, body)
			err := auth.Verify(req, "/r", body)
			obs = append(obs, nonceObs{Nonce: nonce, TS: ts, Arrival: clock.NowNS(), Accepted: err == nil, Tag: tag})
			return err == nil
		}
		// original somewhere in [ts-tol, ts+tol]
		first := tsNS + int64(vlib.Pick(r, []time.Duration{-tol, -tol / 2, 0, tol / 2, tol - time.Nanosecond, tol}))
		if i < 4 {
			first = tsNS // directed: replay at exactly ts+tolerance happens on every run
		}
		clock.Set(time.Unix(0, first))
		send("N", ts, true, "original")
		// replay instants
		instants := []int64{first, first + 1, tsNS + int64(tol) - 1, tsNS + int64(tol), tsNS + int64(tol), tsNS + int64(tol) + 1, tsNS + int64(tol) + int64(time.Second),
			tsNS + int64(tol) + int64(400*time.Millisecond), tsNS + int64(tol) + int64(time.Second) - 1, tsNS + int64(tol) + int64(time.Second) + 1, tsNS + int64(tol) + int64(90*time.Second)}
		for k := 0; k < 6; k++ {
			instants = append(instants, first+int64(r.Intn(int(2*tol/time.Millisecond)+1))*int64(time.Millisecond))
		}
		sort.Slice(instants, func(a, b int) bool { return instants[a] < instants[b] })
		others := vlib.Pick(r, []int{0, 0, 3, 50, 1000})
		if i%97 == 0 {
			others = 5000
		}
		if i%970 == 1 {
			// cache occupancy: thousands of other live nonces between original and replay
			// (every insertion sweeps the whole cache, so this case is quadratic: one per 970)
			others = 12000
		}
		for _, at := range instants {
			if at < clock.NowNS() {
				continue
			}
			clock.Set(time.Unix(0, at))
			// other nonces in between (cleanup path)
			for k := 0; k < others/len(instants)+1 && others > 0; k++ {
				send(fmt.Sprintf("o-%d-%d", at, k), time.Unix(0, at).Unix(), r.Chance(0.9), "other")
			}
			if r.Chance(0.2) {
				send("N", ts, false, "bad_signature_same_nonce")
			}
			send("N", ts, true, "replay")
			if r.Chance(0.15) {
				// same nonce under a later timestamp (a different signed request re-using the nonce)
				send("N", time.Unix(0, at).Unix(), true, "same_nonce_new_ts")
			}
		}
		c.Count("evaluations", int64(len(obs)))
		c.Distinct("nontrivial", fmt.Sprintf("l1:tol=%s:first=%s:others=%d", tol, time.Duration(first-tsNS), others))
		nonceLedger(c, "L1", tol, obs, map[string]any{"case": i})
		if i < 2 {
			c.Sample(map[string]any{"tolerance": tol.String(), "observations": obs[:minInt(len(obs), 8)]})
		}
	}
}

// c09Concurrent: identical signed requests from 16 goroutines at one instant.
func c09Concurrent(c *vlib.Ctx) {
	n := c.N(150, 1600)
	for i := 0; i < n; i++ {
		clock := vlib.NewVClock(c08T0)
		auth := ingress.NewHMACAuth([][]byte{[]byte("k1")})
		auth.Now = clock.Now
		var mu sync.Mutex
		var obs []nonceObs
		var wg sync.WaitGroup
		start := make(chan struct{})
		// every fourth round: a cache that already remembers thousands of live nonces
		// (every insertion sweeps it) and background traffic with fresh nonces while
		// the duplicates arrive
		if i%4 == 0 {
			for k := 0; k < 3000; k++ {
				body := []byte("fill")
				_ = auth.Verify(signedReq("k1", "/r", c08T0.Unix(), fmt.Sprintf("fill-%d-%d", i, k), body), "/r", body)
			}
			c.Count("concurrent_rounds_with_populated_cache", 1)
			for b := 0; b < 4; b++ {
				wg.Add(1)
				go func(b int) {
					defer wg.Done()
					<-start
					for k := 0; k < 12; k++ {
						body := []byte("bg")
						_ = auth.Verify(signedReq("k1", "/r", c08T0.Unix(), fmt.Sprintf("bg-%d-%d-%d", i, b, k), body), "/r", body)
					}
				}(b)
			}
		}
		for g := 0; g < 16; g++ {
			wg.Add(1)
			go func(g int) {
				defer wg.Done()
				<-start
				for k := 0; k < 3; k++ {
					nonce := fmt.Sprintf("dup-%d", k)
					body := []byte("same")
					req := signedReq("k1", "/r", c08T0.Unix(), nonce, body)
					err := auth.Verify(req, "/r", body)
					mu.Lock()
					obs = append(obs, nonceObs{Nonce: nonce, TS: c08T0.Unix(), Arrival: clock.NowNS(), Accepted: err == nil, Tag: "concurrent_duplicate"})
					mu.Unlock()
				}
			}(g)
		}
		close(start)
		wg.Wait()
		c.Count("evaluations", int64(len(obs)))
		c.Count("concurrent_duplicate_groups", 3)
		acc := map[string]int{}
		for _, o := range obs {
			if o.Accepted {
				acc[o.Nonce]++
			}
		}
		for nn, k := range acc {
			if k > 1 {
				c.Violation(vlib.Signature{"class": "replay_accepted", "layer": "L1", "when": "concurrent", "between": "concurrent_duplicate"},
					fmt.Sprintf("nonce %s accepted %d times among 16 concurrent identical requests", nn, k), map[string]any{"round": i})
			}
		}
		c.Distinct("nontrivial", fmt.Sprintf("concurrent:accepted=%d", len(acc)))
		if len(acc) != 3 {
			c.Violation(vlib.Signature{"class": "valid_request_never_accepted", "layer": "L1"}, "none of 16 identical valid requests was accepted", nil)
		}
	}
}

// c09Reload: original, reload (unchanged / changed file / management mutation), replay.
func c09Reload(c *vlib.Ctx) {
	dir := c.Scratch()
	n := c.N(24, 300)
	for i := 0; i < n; i++ {
		r := vlib.Derive(c.Seed, "C09L2", i)
		tol := 5 * time.Minute
		// the route's secret in every form the configuration language has: inline shorthand,
		// inline block, and a versioned secret from the secrets block (secret_ref)
		authForm := []string{" auth hmac raw:topsecret\n", " auth hmac {\n  secret raw:topsecret\n }\n", " auth hmac {\n  secret_ref \"S1\"\n }\n", " auth hmac {\n  secret_ref \"S1\"\n  tolerance 5m\n }\n"}[(i/4)%4]
		secretsBlock := ""
		if strings.Contains(authForm, "secret_ref") {
			secretsBlock = "secrets {\n secret \"S1\" {\n  value raw:topsecret\n  valid_from \"2020-01-01T00:00:00Z\"\n }\n}\n"
		}
		mk := func(extra string) string {
			return "ingress { listen 127.0.0.1:0 }\npull_api { listen 127.0.0.2:0\n auth token raw:tok }\nadmin_api { listen 127.0.0.3:0 }\n" + secretsBlock +
				"/signed { queue { backend memory }\n" + authForm + " pull { path /pull/s } }\n" +
				"/managed { queue { backend memory }\n application app1\n endpoint_name ep1\n pull { path /pull/m } }\n" + extra
		}
		clock := vlib.NewVClock(c08T0)
		a, err := l2.Start(dir, mk(""), nil, clock)
		if err != nil {
			c.Inconclusive("C09 L2 config did not start: " + err.Error())
			return
		}
		var obs []nonceObs
		send := func(nonce, tag string) {
			body := []byte("b-" + nonce)
			resp := l2.Do(a.Ingress, signedReq("topsecret", "/signed", c08T0.Unix(), nonce, body))
			obs = append(obs, nonceObs{Nonce: nonce, TS: c08T0.Unix(), Arrival: clock.NowNS(), Accepted: resp.Status == 202, Tag: tag})
		}
		kind := []string{"reload_unchanged_file", "reload_changed_file", "management_mutation", "two_reloads"}[i%4]
		send("R", "original")
		clock.Advance(time.Duration(r.Range(0, 200)) * time.Second)
		switch kind {
		case "reload_unchanged_file":
			if !a.Reload() {
				c.Inconclusive("C09: reload of an unchanged file failed")
			}
		case "reload_changed_file":
			_ = a.WriteConfig(mk("/extra { queue { backend memory }\n pull { path /pull/x } }\n"))
			if !a.Reload() {
				c.Inconclusive("C09: reload of a changed file failed")
			}
		case "two_reloads":
			a.Reload()
			_ = a.WriteConfig(mk("/extra2 { queue { backend memory }\n pull { path /pull/x2 } }\n"))
			a.Reload()
		case "management_mutation":
			// PUT the managed endpoint onto another route through the Admin API
			_ = a.WriteConfig(mk("/spare { queue { backend memory }\n pull { path /pull/sp } }\n"))
			a.Reload()
			req := l2.JSONReq("PUT", "/applications/app1/endpoints/ep2", map[string]any{"route": "/spare"}, "")
			req.Header.Set("X-Hookaido-Audit-Reason", "verif")
			resp := l2.Do(a.Admin, req)
			c.Distinct("management_status", fmt.Sprint(resp.Status))
			if resp.Status >= 300 {
				c.Count("management_mutation_refused", 1)
			}
		}
		send("R", "replay_after_"+kind)
		// a signed request that is still uploading its body while a reload lands:
		// whichever authenticator verifies it, its nonce must be remembered afterwards
		{
			nonce := "U"
			body := []byte("b-" + nonce)
			req := signedReq("topsecret", "/signed", c08T0.Unix(), nonce, body)
			pr, pw := io.Pipe()
			req.Body = pr
			req.ContentLength = int64(len(body))
			before := verifhook.Hits()["ingress.after_resolve"]
			done := make(chan l2.Resp, 1)
			go func() { done <- l2.Do(a.Ingress, req) }()
			_, _ = pw.Write(body[:1])
			for w := 0; w < 2000 && verifhook.Hits()["ingress.after_resolve"] == before; w++ {
				time.Sleep(100 * time.Microsecond) // until the handler has resolved the route and waits for the body
			}
			time.Sleep(200 * time.Microsecond)
			if kind == "reload_changed_file" {
				_ = a.WriteConfig(mk("/extra3 { queue { backend memory }\n pull { path /pull/x3 } }\n"))
			}
			a.Reload()
			_, _ = pw.Write(body[1:])
			_ = pw.Close()
			resp := <-done
			obs = append(obs, nonceObs{Nonce: nonce, TS: c08T0.Unix(), Arrival: clock.NowNS(), Accepted: resp.Status == 202, Tag: "upload_spanning_reload"})
			send(nonce, "replay_after_upload_spanning_reload")
			send(nonce, "second_replay_after_upload_spanning_reload")
			c.Count("uploads_spanning_a_reload", 1)
		}
		send("fresh", "fresh_after_"+kind)
		c.Count("evaluations", int64(len(obs)))
		c.Count("reload_trials", 1)
		c.Distinct("nontrivial", fmt.Sprintf("l2:%s:form%d", kind, (i/4)%4))
		nonceLedger(c, "L2", tol, obs, map[string]any{"kind": kind, "auth_form": authForm})
		if !obs[0].Accepted || !obs[len(obs)-1].Accepted {
			c.Violation(vlib.Signature{"class": "valid_request_never_accepted", "layer": "L2"}, fmt.Sprintf("valid signed request rejected (%s): %+v", kind, obs), nil)
		}
		a.Close()
	}
}

// c09ToleranceReload: the reload between original and replay changes the
// tolerance of the route. A raised tolerance makes old timestamps acceptable
// again; whatever was honoured under the old tolerance must not be honoured a
// second time under the new one, whether the reload comes before or after the
// instant at which the old window closed.
func c09ToleranceReload(c *vlib.Ctx) {
	dir := c.Scratch()
	mk := func(tol string) string {
		return "ingress { listen 127.0.0.1:0 }\npull_api { listen 127.0.0.2:0\n auth token raw:tok }\nadmin_api { listen 127.0.0.3:0 }\n" +
			"/signed { queue { backend memory }\n auth hmac {\n  secret raw:topsecret\n  tolerance " + tol + "\n }\n pull { path /pull/s } }\n"
	}
	type step struct {
		adv    time.Duration
		reload string // "" = none, else the new tolerance
		replay bool   // send the captured request again
		others int    // other signed requests (fresh nonces, current timestamps): cleanup path
	}
	cases := []struct {
		name  string
		start string
		steps []step
	}{
		{"raised_after_old_window_closed", "5m", []step{{adv: 6 * time.Minute, others: 3}, {reload: "30m"}, {adv: 4 * time.Minute, replay: true}, {adv: 19 * time.Minute, replay: true}}},
		{"raised_before_old_window_closed", "5m", []step{{adv: time.Minute, reload: "30m"}, {adv: 9 * time.Minute, others: 3}, {replay: true}, {adv: 20 * time.Minute, others: 2, replay: true}}},
		{"raised_replay_inside_old_window", "5m", []step{{adv: time.Minute, reload: "30m"}, {adv: time.Minute, others: 2, replay: true}}},
		{"raised_twice", "1m", []step{{adv: 30 * time.Second, reload: "5m"}, {adv: 2 * time.Minute, others: 2, replay: true}, {reload: "1h"}, {adv: 20 * time.Minute, others: 2, replay: true}}},
		{"lowered", "30m", []step{{adv: time.Minute, reload: "5m"}, {adv: 2 * time.Minute, others: 2, replay: true}}},
		{"lowered_then_raised", "30m", []step{{adv: time.Minute, reload: "5m"}, {adv: 7 * time.Minute, others: 3}, {reload: "30m"}, {adv: time.Minute, replay: true}}},
		{"raised_by_two_reloads_of_other_settings", "5m", []step{{adv: 6 * time.Minute, others: 2}, {reload: "5m"}, {reload: "20m"}, {adv: time.Minute, others: 1, replay: true}}},
	}
	for ci, k := range cases {
		clock := vlib.NewVClock(c08T0)
		a, err := l2.Start(dir, mk(k.start), nil, clock)
		if err != nil {
			c.Inconclusive("C09 tolerance config did not start: " + err.Error())
			return
		}
		var obs []nonceObs
		seq := 0
		send := func(nonce string, ts int64, tag string) bool {
			body := []byte("b-" + nonce)
			resp := l2.Do(a.Ingress, signedReq("topsecret", "/signed", ts, nonce, body))
			obs = append(obs, nonceObs{Nonce: nonce, TS: ts, Arrival: clock.NowNS(), Accepted: resp.Status == 202, Tag: tag})
			return resp.Status == 202
		}
		t0 := c08T0.Unix()
		if !send("CAPTURED", t0, "original") {
			c.Inconclusive("C09 tolerance: the original request was not accepted")
			a.Close()
			continue
		}
		for si, st := range k.steps {
			clock.Advance(st.adv)
			if st.reload != "" {
				_ = a.WriteConfig(mk(st.reload))
				if !a.Reload() {
					// refusing to change the tolerance of a running route is a legitimate answer:
					// the old tolerance stays in force and the replay must still be refused
					c.Count("tolerance_reloads_refused", 1)
				}
			}
			for o := 0; o < st.others; o++ {
				seq++
				send(fmt.Sprintf("other-%d-%d", ci, seq), clock.Now().Unix(), "other")
			}
			if st.replay {
				send("CAPTURED", t0, fmt.Sprintf("replay_%s_step%d", k.name, si))
			}
		}
		seq++
		freshOK := send(fmt.Sprintf("fresh-%d-%d", ci, seq), clock.Now().Unix(), "fresh_current_timestamp")
		c.Count("evaluations", int64(len(obs)))
		c.Count("tolerance_reload_trials", 1)
		c.Distinct("nontrivial", "l2:tolerance:"+k.name)
		// the captured request honoured twice is a refutation under any tolerance
		nonceLedger(c, "L2", 0, obs, map[string]any{"kind": "tolerance_" + k.name, "start_tolerance": k.start})
		if !freshOK {
			c.Violation(vlib.Signature{"class": "valid_request_never_accepted", "layer": "L2", "kind": "tolerance"}, fmt.Sprintf("a freshly signed request with the current timestamp was rejected after tolerance reloads (%s)", k.name), obs)
		}
		if ci < 2 {
			c.Sample(map[string]any{"tolerance_case": k.name, "observations": obs})
		}
		a.Close()
	}
}

// c09RunningClock: a real clock never returns the same reading twice. Every read of the injected
// clock advances it by a small step, so the readings one request takes (timestamp check, replay
// cache) differ; the replay arrives a few steps before, at and after ts+tolerance. The captured
// request honoured a second time is a refutation wherever the individual readings fell.
func c09RunningClock(c *vlib.Ctx) {
	steps := []time.Duration{time.Nanosecond, 50 * time.Nanosecond, time.Microsecond, time.Millisecond, 400 * time.Millisecond}
	for _, tol := range []time.Duration{time.Second, 30 * time.Second, 5 * time.Minute} {
		for _, step := range steps {
			for k := -1; k <= 6; k++ {
				for _, others := range []int{0, 3} {
					clock := vlib.NewVClock(c08T0)
					auth := ingress.NewHMACAuth([][]byte{[]byte("k1")})
					auth.Tolerance = tol
					auth.Now = clock.Now
					clock.SetAfterRead(func() { clock.Advance(step) })
					ts := c08T0.Unix()
					limit := ts*1e9 + int64(tol)
					var obs []nonceObs
					send := func(nonce string, ts int64, tag string) {
						body := []byte("payload-" + nonce)
						req := signedReq("k1", "/r", ts, nonce, body)
						at := clock.NowNS()
						err := auth.Verify(req, "/r", body)
						obs = append(obs, nonceObs{Nonce: nonce, TS: ts, Arrival: at, Accepted: err == nil, Tag: tag})
					}
					send("N", ts, "original")
					// the replay's first clock reading is k steps before ts+tolerance
					clock.Set(time.Unix(0, limit-int64(k)*int64(step)))
					for o := 0; o < others; o++ {
						at := clock.NowNS()
						clock.SetAfterRead(nil)
						send(fmt.Sprintf("o%d", o), time.Unix(0, at).Unix(), "other")
						clock.SetAfterRead(func() { clock.Advance(step) })
					}
					send("N", ts, "replay_running_clock")
					send("N", ts, "replay_running_clock")
					clock.SetAfterRead(nil)
					c.Count("evaluations", int64(len(obs)))
					c.Count("running_clock_cases", 1)
					c.Distinct("nontrivial", fmt.Sprintf("l1run:tol=%s:step=%s:k=%d:others=%d", tol, step, k, others))
					nonceLedger(c, "L1", tol, obs, map[string]any{"case": "running_clock", "step": step.String(), "first_reading_steps_before_limit": k})
				}
			}
		}
	}
}

// C09: replay protection.
func C09(c *vlib.Ctx) {
	c.Rule("L1: ingress.HMACAuth under a virtual clock, original at ts-tol..ts+tol, replays at the same instant, +1ns, random instants, ts+tol-1ns, exactly ts+tol (twice), +1ns and beyond, with 0-5000 other nonces interleaved (cleanup path), bad-signature requests and other timestamps re-using the nonce; 16 goroutines sending identical requests at one instant (-race). L2: original, then a reload through the production path (unchanged file, changed file, two reloads, Admin management mutation; reloads that raise / lower the route's tolerance before or after the old window closed, with other signed traffic in between), then the replay. L3 (thorough): the real binary with SIGHUP. Oracle: per-nonce acceptance ledger - for every pair of accepted requests with one nonce the later arrival must be > ts_first + tolerance. distinct_nontrivial = distinct (layer, tolerance, first-arrival offset, interleaving size / reload kind) classes.")
	c.Assume("the ledger is the consequence every reading of the statement shares: weaker than 'never again for the life of the process', exactly what an expiry at ts+tolerance guarantees")
	c09L1(c)
	c09RunningClock(c)
	c09Concurrent(c)
	c09Reload(c)
	c09PartialFanout(c)
	c09ToleranceReload(c)
	c09L3(c)
	c.CollectRaces()
}

var _ = strings.TrimSpace
