// Package storecheck drives the queue.Store implementations with generated
// operation sequences under a virtual clock and evaluates the monitors of the
// store-level properties (C02 transitions/conservation, C12 admission, C13
// backend equivalence, C14 operator mutations, C05 visibility) on every step.
package storecheck

import (
	"fmt"
	"sort"
	"strings"
	"time"

	"github.com/nuetzliches/hookaido/internal/queue"
	"github.com/nuetzliches/hookaido/verifharness/vlib"
)

type Kind string

const (
	KEnqueue      Kind = "enqueue"
	KEnqueueBatch Kind = "enqueue_batch"
	KDequeue      Kind = "dequeue"
	KAck          Kind = "ack"
	KNack         Kind = "nack"
	KExtend       Kind = "extend"
	KDead         Kind = "dead"
	KAckBatch     Kind = "ack_batch"
	KNackBatch    Kind = "nack_batch"
	KDeadBatch    Kind = "dead_batch"
	KCancel       Kind = "cancel"
	KRequeue      Kind = "requeue"
	KResume       Kind = "resume"
	KCancelF      Kind = "cancel_by_filter"
	KRequeueF     Kind = "requeue_by_filter"
	KResumeF      Kind = "resume_by_filter"
	KRequeueDead  Kind = "requeue_dead"
	KDeleteDead   Kind = "delete_dead"
	KListDead     Kind = "list_dead"
	KList         Kind = "list"
	KLookup       Kind = "lookup"
	KStats        Kind = "stats"
	KAdvance      Kind = "advance"
	KRecordAtt    Kind = "record_attempt"
	KListAtt      Kind = "list_attempts"
	KTrendCap     Kind = "trend_capture"
	KTrendList    Kind = "trend_list"
	KReopen       Kind = "reopen"
	// KChurn: Count fresh messages on a route of their own are enqueued, dequeued
	// and acked one after the other (process age: id counters, order lists,
	// free lists and compaction thresholds grow as in a long-running gateway).
	KChurn Kind = "churn"
)

// LeaseRef names a lease symbolically so that the same operation can be applied
// to two backends whose generated lease ids differ.
type LeaseRef struct {
	Msg     string `json:"msg,omitempty"`     // message id
	Attempt int    `json:"attempt,omitempty"` // lease epoch = attempt number it was issued with
	Lit     string `json:"lit,omitempty"`     // literal id when Msg == ""
	Pad     string `json:"pad,omitempty"`     // "" | "both" (surrounding whitespace)
}

type Op struct {
	Kind    Kind                              `json:"kind"`
	Envs    []queue.Envelope                  `json:"envs,omitempty"`
	Deq     *queue.DequeueRequest             `json:"deq,omitempty"`
	Leases  []LeaseRef                        `json:"leases,omitempty"`
	Dur     time.Duration                     `json:"dur,omitempty"` // nack delay / extend / advance
	Reason  string                            `json:"reason,omitempty"`
	IDs     []string                          `json:"ids,omitempty"`
	Filter  *queue.MessageManageFilterRequest `json:"filter,omitempty"`
	List    *queue.MessageListRequest         `json:"list,omitempty"`
	DeadL   *queue.DeadListRequest            `json:"dead_list,omitempty"`
	Attempt *queue.DeliveryAttempt            `json:"attempt,omitempty"`
	AttL    *queue.AttemptListRequest         `json:"att_list,omitempty"`
	TrendL  *queue.BacklogTrendListRequest    `json:"trend_list,omitempty"`
	At      time.Time                         `json:"at,omitempty"`
	Forced  bool                              `json:"forced,omitempty"` // dequeue whose batch covers every eligible message
	Count   int                               `json:"count,omitempty"`  // churn
	// Pre moves the clock immediately before the call, with no observation (listing,
	// stats) of the store in between: the call itself is the first one to meet the new instant.
	Pre time.Duration `json:"pre,omitempty"`
}

// ChurnRoute is used by KChurn only; generated operations never name it.
const ChurnRoute = "/__churn"

func (o Op) String() string {
	switch o.Kind {
	case KEnqueue, KEnqueueBatch:
		ids := []string{}
		for _, e := range o.Envs {
			ids = append(ids, e.ID)
		}
		return fmt.Sprintf("%s(%s)", o.Kind, strings.Join(ids, ","))
	case KDequeue:
		if o.Pre > 0 {
			return fmt.Sprintf("dequeue(route=%q target=%q batch=%d ttl=%s, clock +%s unobserved)", o.Deq.Route, o.Deq.Target, o.Deq.Batch, o.Deq.LeaseTTL, o.Pre)
		}
		return fmt.Sprintf("dequeue(route=%q target=%q batch=%d ttl=%s)", o.Deq.Route, o.Deq.Target, o.Deq.Batch, o.Deq.LeaseTTL)
	case KAdvance:
		return fmt.Sprintf("advance(%s)", o.Dur)
	case KChurn:
		return fmt.Sprintf("churn(%d)", o.Count)
	}
	return string(o.Kind)
}

// Res is the normalised outcome of one operation on one backend.
type Res struct {
	Err      string                          `json:"err"` // error class ("ok" on success)
	RawErr   string                          `json:"raw_err,omitempty"`
	N        int                             `json:"n"`
	Matched  int                             `json:"matched"`
	Preview  bool                            `json:"preview,omitempty"`
	Items    []queue.Envelope                `json:"-"`
	ItemIDs  []string                        `json:"item_ids,omitempty"`
	Batch    *queue.LeaseBatchResult         `json:"batch,omitempty"`
	Lookup   []queue.MessageLookupItem       `json:"lookup,omitempty"`
	Stats    *queue.Stats                    `json:"stats,omitempty"`
	Attempts []queue.DeliveryAttempt         `json:"attempts,omitempty"`
	Trend    *queue.BacklogTrendListResponse `json:"trend,omitempty"`
	// Resolved lease ids presented (same order as Op.Leases).
	Presented []string `json:"presented,omitempty"`
	Now       int64    `json:"now"`
}

// Actor applies operations to one store handle and keeps its lease table.
type Actor struct {
	H      *vlib.Handle
	leases map[string]map[int]string // msg -> attempt -> lease id
	byID   map[string]LeaseRef       // lease id -> ref
	churn  int
}

func NewActor(h *vlib.Handle) *Actor {
	return &Actor{H: h, leases: map[string]map[int]string{}, byID: map[string]LeaseRef{}}
}

func (a *Actor) Resolve(r LeaseRef) string {
	id := r.Lit
	if r.Msg != "" {
		id = a.leases[r.Msg][r.Attempt]
		if id == "" {
			id = fmt.Sprintf("lease_unissued_%s_%d", r.Msg, r.Attempt)
		}
	}
	if r.Pad == "both" {
		id = " " + id + "\t"
	}
	return id
}

func (a *Actor) RefOf(leaseID string) (LeaseRef, bool) {
	r, ok := a.byID[strings.TrimSpace(leaseID)]
	return r, ok
}

func (a *Actor) remember(items []queue.Envelope) {
	for _, it := range items {
		m := a.leases[it.ID]
		if m == nil {
			m = map[int]string{}
			a.leases[it.ID] = m
		}
		m[it.Attempt] = it.LeaseID
		a.byID[it.LeaseID] = LeaseRef{Msg: it.ID, Attempt: it.Attempt}
	}
}

func cloneEnv(e queue.Envelope) queue.Envelope {
	c := e
	if e.Payload != nil {
		c.Payload = append([]byte(nil), e.Payload...)
	}
	if e.Headers != nil {
		c.Headers = map[string]string{}
		for k, v := range e.Headers {
			c.Headers[k] = v
		}
	}
	if e.Trace != nil {
		c.Trace = map[string]string{}
		for k, v := range e.Trace {
			c.Trace[k] = v
		}
	}
	return c
}

// Apply runs op against the actor's store.
func (a *Actor) Apply(op Op) Res {
	st := a.H.Store
	res := Res{Err: "ok", Now: a.H.Clock.NowNS()}
	setErr := func(err error) {
		res.Err = vlib.ErrClass(err)
		if err != nil {
			res.RawErr = err.Error()
		}
	}
	present := func() []string {
		out := make([]string, len(op.Leases))
		for i, r := range op.Leases {
			out[i] = a.Resolve(r)
		}
		res.Presented = out
		return out
	}
	switch op.Kind {
	case KEnqueue:
		err := st.Enqueue(cloneEnv(op.Envs[0]))
		setErr(err)
		if err == nil {
			res.N = 1
		}
	case KEnqueueBatch:
		be, ok := st.(queue.BatchEnqueuer)
		if !ok {
			res.Err = "unsupported"
			return res
		}
		envs := make([]queue.Envelope, len(op.Envs))
		for i := range op.Envs {
			envs[i] = cloneEnv(op.Envs[i])
		}
		n, err := be.EnqueueBatch(envs)
		setErr(err)
		res.N = n
	case KDequeue:
		resp, err := st.Dequeue(*op.Deq)
		setErr(err)
		res.Items = resp.Items
		for _, it := range resp.Items {
			res.ItemIDs = append(res.ItemIDs, it.ID)
		}
		res.N = len(resp.Items)
		a.remember(resp.Items)
	case KChurn:
		a.churn++
		for i := 0; i < op.Count; i++ {
			id := fmt.Sprintf("churn%03d-%05d", a.churn, i)
			if err := st.Enqueue(queue.Envelope{ID: id, Route: ChurnRoute, Target: "pull", Payload: []byte("c")}); err != nil {
				setErr(err)
				return res
			}
			resp, err := st.Dequeue(queue.DequeueRequest{Route: ChurnRoute, Target: "pull", Batch: 1, LeaseTTL: time.Minute})
			if err != nil || len(resp.Items) != 1 || resp.Items[0].ID != id {
				res.Err, res.RawErr = "churn_dequeue", fmt.Sprintf("churn message %s: dequeue returned %d items, err %v", id, len(resp.Items), err)
				return res
			}
			if err := st.Ack(resp.Items[0].LeaseID); err != nil {
				setErr(err)
				return res
			}
			res.N++
		}
		setErr(nil)
	case KAck:
		setErr(st.Ack(present()[0]))
	case KNack:
		setErr(st.Nack(present()[0], op.Dur))
	case KExtend:
		setErr(st.Extend(present()[0], op.Dur))
	case KDead:
		setErr(st.MarkDead(present()[0], op.Reason))
	case KAckBatch, KNackBatch, KDeadBatch:
		bs, ok := st.(queue.LeaseBatchStore)
		if !ok {
			res.Err = "unsupported"
			return res
		}
		var r queue.LeaseBatchResult
		var err error
		switch op.Kind {
		case KAckBatch:
			r, err = bs.AckBatch(present())
		case KNackBatch:
			r, err = bs.NackBatch(present(), op.Dur)
		default:
			r, err = bs.MarkDeadBatch(present(), op.Reason)
		}
		setErr(err)
		res.Batch = &r
		res.N = r.Succeeded
	case KCancel:
		r, err := st.CancelMessages(queue.MessageCancelRequest{IDs: op.IDs})
		setErr(err)
		res.N, res.Matched, res.Preview = r.Canceled, r.Matched, r.PreviewOnly
	case KRequeue:
		r, err := st.RequeueMessages(queue.MessageRequeueRequest{IDs: op.IDs})
		setErr(err)
		res.N, res.Matched, res.Preview = r.Requeued, r.Matched, r.PreviewOnly
	case KResume:
		r, err := st.ResumeMessages(queue.MessageResumeRequest{IDs: op.IDs})
		setErr(err)
		res.N, res.Matched, res.Preview = r.Resumed, r.Matched, r.PreviewOnly
	case KCancelF:
		r, err := st.CancelMessagesByFilter(*op.Filter)
		setErr(err)
		res.N, res.Matched, res.Preview = r.Canceled, r.Matched, r.PreviewOnly
	case KRequeueF:
		r, err := st.RequeueMessagesByFilter(*op.Filter)
		setErr(err)
		res.N, res.Matched, res.Preview = r.Requeued, r.Matched, r.PreviewOnly
	case KResumeF:
		r, err := st.ResumeMessagesByFilter(*op.Filter)
		setErr(err)
		res.N, res.Matched, res.Preview = r.Resumed, r.Matched, r.PreviewOnly
	case KRequeueDead:
		r, err := st.RequeueDead(queue.DeadRequeueRequest{IDs: op.IDs})
		setErr(err)
		res.N = r.Requeued
	case KDeleteDead:
		r, err := st.DeleteDead(queue.DeadDeleteRequest{IDs: op.IDs})
		setErr(err)
		res.N = r.Deleted
	case KListDead:
		r, err := st.ListDead(*op.DeadL)
		setErr(err)
		res.Items = r.Items
		res.N = len(r.Items)
		for _, it := range r.Items {
			res.ItemIDs = append(res.ItemIDs, it.ID)
		}
	case KList:
		r, err := st.ListMessages(*op.List)
		setErr(err)
		res.Items = r.Items
		res.N = len(r.Items)
		for _, it := range r.Items {
			res.ItemIDs = append(res.ItemIDs, it.ID)
		}
	case KLookup:
		r, err := st.LookupMessages(queue.MessageLookupRequest{IDs: op.IDs})
		setErr(err)
		res.Lookup = r.Items
		res.N = len(r.Items)
	case KStats:
		s, err := st.Stats()
		setErr(err)
		res.Stats = &s
	case KAdvance:
		a.H.Clock.Advance(op.Dur)
		res.Now = a.H.Clock.NowNS()
	case KRecordAtt:
		setErr(st.RecordAttempt(*op.Attempt))
	case KListAtt:
		r, err := st.ListAttempts(*op.AttL)
		setErr(err)
		res.Attempts = r.Items
		res.N = len(r.Items)
	case KTrendCap:
		ts, ok := st.(queue.BacklogTrendStore)
		if !ok {
			res.Err = "unsupported"
			return res
		}
		setErr(ts.CaptureBacklogTrendSample(op.At))
	case KTrendList:
		ts, ok := st.(queue.BacklogTrendStore)
		if !ok {
			res.Err = "unsupported"
			return res
		}
		r, err := ts.ListBacklogTrend(*op.TrendL)
		setErr(err)
		res.Trend = &r
		res.N = len(r.Items)
	case KReopen:
		if a.H.Backend == "sqlite" {
			if err := a.H.Reopen(op.Reason == "abandon"); err != nil {
				setErr(err)
			}
		}
	default:
		res.Err = "unknown_op"
	}
	return res
}

func sortedCopy(xs []string) []string {
	out := append([]string(nil), xs...)
	sort.Strings(out)
	return out
}

func normIDs(ids []string) []string {
	seen := map[string]struct{}{}
	var out []string
	for _, raw := range ids {
		id := strings.TrimSpace(raw)
		if id == "" {
			continue
		}
		if _, ok := seen[id]; ok {
			continue
		}
		seen[id] = struct{}{}
		out = append(out, id)
	}
	return out
}
