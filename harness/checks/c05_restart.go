package checks

import (
	"encoding/base64"
	"encoding/json"
	"fmt"
	"os"
	"path/filepath"
	"time"

	"github.com/nuetzliches/hookaido/verifharness/l3"
	"github.com/nuetzliches/hookaido/verifharness/vlib"
)

const c05L3Config = `ingress { listen %INGRESS% }
pull_api { listen %PULL%
 auth token raw:tok }
admin_api { listen %ADMIN% }
/p1 { pull { path /pull/p1 } }
`

// c05Restart: leases held by a process that is SIGKILLed are offered again by
// the restarted process once they expire, and not before (real binary, wall clock).
func c05Restart(c *vlib.Ctx) {
	if _, err := os.Stat(l3.Bin()); err != nil {
		c.Assume("product binary not built for this run: the real-binary restart sample of C05 was skipped (the abandon-and-reopen part covers the same clause in virtual time)")
		return
	}
	root := filepath.Join(vlib.VerifRoot(), ".run", fmt.Sprintf("c05.%d", os.Getpid()))
	_ = os.MkdirAll(root, 0o755)
	defer os.RemoveAll(root)
	trials := c.N(2, 12)
	for t := 0; t < trials; t++ {
		r := vlib.Derive(c.Seed, "C05L3", t)
		p, err := l3.New(filepath.Join(root, fmt.Sprintf("t%d", t)), c05L3Config)
		if err != nil {
			c.Inconclusive("C05 L3: " + err.Error())
			return
		}
		if err := p.StartHealthy(l3.StartOpts{}, 60*time.Second); err != nil {
			c.Inconclusive("C05 L3 start: " + err.Error())
			return
		}
		total := r.Range(5, 30)
		for i := 0; i < total; i++ {
			p.Ingress("/p1", []byte(fmt.Sprintf("mk:l3m%d:", i)), nil)
		}
		ttl := 3 * time.Second
		leasedAt := time.Now()
		resp := p.Pull("/pull/p1/dequeue", map[string]any{"batch": r.Range(1, total), "lease_ttl": ttl.String()}, "tok")
		var out struct {
			Items []struct {
				PayloadB64 string `json:"payload_b64"`
			} `json:"items"`
		}
		_ = json.Unmarshal(resp.Body, &out)
		leased := map[string]bool{}
		for _, it := range out.Items {
			b, _ := base64.StdEncoding.DecodeString(it.PayloadB64)
			leased[markerOf(b)] = true
		}
		p.Kill() // the lease holder's server dies; the worker never acks
		if err := p.StartHealthy(l3.StartOpts{}, 60*time.Second); err != nil {
			c.Violation(vlib.Signature{"class": "restart_failed"}, "C05: the process does not restart after SIGKILL with leases held: "+err.Error(), nil)
			return
		}
		seen := map[string]int{}
		early := 0
		deadline := time.Now().Add(ttl + 20*time.Second)
		for time.Now().Before(deadline) && len(seen) < total {
			resp := p.Pull("/pull/p1/dequeue", map[string]any{"batch": 100, "lease_ttl": "1h"}, "tok")
			got := time.Now()
			var o2 struct {
				Items []struct {
					PayloadB64 string `json:"payload_b64"`
				} `json:"items"`
			}
			_ = json.Unmarshal(resp.Body, &o2)
			for _, it := range o2.Items {
				b, _ := base64.StdEncoding.DecodeString(it.PayloadB64)
				mk := markerOf(b)
				seen[mk]++
				// offered clearly before the lease could have expired (lease taken after leasedAt)
				if leased[mk] && got.Before(leasedAt.Add(ttl-200*time.Millisecond)) {
					early++
				}
			}
			if len(o2.Items) == 0 {
				time.Sleep(50 * time.Millisecond)
			}
		}
		c.Count("evaluations", 1)
		c.Count("l3_restart_trials", 1)
		c.Distinct("nontrivial", fmt.Sprintf("l3restart:total%d:leased%d", total/10*10, len(leased)/5*5))
		if early > 0 {
			c.Violation(vlib.Signature{"class": "offered_before_lease_expiry_after_restart"}, fmt.Sprintf("%d messages leased before the crash were offered again before their lease_ttl (%s) could have expired", early, ttl), nil)
		}
		for mk, n := range seen {
			if n > 1 {
				c.Violation(vlib.Signature{"class": "offered_twice_after_restart"}, fmt.Sprintf("%s was offered %d times under 1h leases", mk, n), nil)
			}
		}
		if len(seen) < total {
			c.Inconclusive(fmt.Sprintf("C05 L3: %d of %d messages offered again within the watchdog (virtual-time version is decided by the abandon-and-reopen part)", len(seen), total))
		}
		p.Stop()
	}
}
