package checks

import (
	"fmt"
	"github.com/nuetzliches/hookaido/verifharness/leasecheck"
	"time"

	"github.com/nuetzliches/hookaido/internal/pullapi"
	"github.com/nuetzliches/hookaido/internal/queue"
	"github.com/nuetzliches/hookaido/verifharness/storecheck"
	"github.com/nuetzliches/hookaido/verifharness/vlib"
)

func c05Remap(o storecheck.Obs) storecheck.Obs {
	// a nack/extend/expiry that leaves a wrong next_run_at or lease_until is what
	// makes a message visible too early or too late
	if o.Prop == "C02" && o.Sig["class"] == "wrong_result_state" {
		switch o.Sig["op"] {
		case "nack", "nack_batch", "extend", "dequeue", "requeue", "resume", "requeue_dead", "requeue_by_filter", "resume_by_filter":
			o.Prop = "C05"
		}
	}
	if o.Prop == "C02" && (o.Sig["class"] == "illegal_change" || o.Sig["class"] == "change_after_error") && o.Sig["from"] == "leased" && o.Sig["to"] == "queued" {
		o.Prop = "C05" // released before lease_until (or with a wrong next_run_at)
	}
	return o
}

func c05Store(c *vlib.Ctx) {
	w := map[storecheck.Kind]int{
		storecheck.KEnqueue: 10, storecheck.KEnqueueBatch: 10, storecheck.KDequeue: 26, storecheck.KAck: 2, storecheck.KNack: 10,
		storecheck.KExtend: 6, storecheck.KNackBatch: 4, storecheck.KDead: 2, storecheck.KCancel: 1, storecheck.KRequeue: 3, storecheck.KResume: 1,
		storecheck.KRequeueDead: 2, storecheck.KAdvance: 22,
	}
	seqs := c.N(60, 1500)
	cfgs := []vlib.StoreCfg{{}, {MaxDepth: 40, DropPolicy: "reject"}, {RetentionMaxAge: time.Minute, PruneInterval: time.Second}, {DeliveredRetention: time.Hour}}
	for _, be := range []string{"memory", "sqlite"} {
		for ci, sc := range cfgs {
			for s := 0; s < seqs; s++ {
				r := vlib.Derive(c.Seed, "C05", be, ci, s)
				ww := w
				if be == "sqlite" {
					ww = map[storecheck.Kind]int{}
					for k, v := range w {
						ww[k] = v
					}
					ww[storecheck.KReopen] = 3
				}
				g := storecheck.GenCfg{NIDs: r.Range(5, 150), Routes: stdRoutes, Targets: stdTargets, Weights: ww}
				storecheck.RunSequence(c, r, storecheck.RunCfg{
					Backends: []string{be}, Store: sc, Gen: g, Steps: r.Range(50, 100),
					Label: fmt.Sprintf("C05/%s/cfg%d/seq%d", be, ci, s),
					Props: map[string]bool{"C05": true}, Remap: c05Remap,
				})
			}
		}
	}
}

// c05Dense: many dequeues less than 10ms (store clock) apart while short leases
// expire - the polling pattern of several consumers on one store. An expired
// lease must still be offered within the sweep granularity.
func c05Dense(c *vlib.Ctx) {
	w := map[storecheck.Kind]int{storecheck.KEnqueue: 8, storecheck.KDequeue: 40, storecheck.KNack: 4, storecheck.KAck: 2, storecheck.KExtend: 2, storecheck.KAdvance: 40}
	seqs := c.N(40, 800)
	for _, be := range []string{"memory", "sqlite"} {
		for s := 0; s < seqs; s++ {
			r := vlib.Derive(c.Seed, "C05dense", be, s)
			g := storecheck.GenCfg{NIDs: r.Range(4, 20), Routes: stdRoutes[:2], Targets: stdTargets[:1], Weights: w, DensePolling: true}
			storecheck.RunSequence(c, r, storecheck.RunCfg{Backends: []string{be}, Gen: g, Steps: r.Range(80, 160),
				Label: fmt.Sprintf("C05/dense/%s/seq%d", be, s), Props: map[string]bool{"C05": true}, Remap: c05Remap})
		}
	}
}

// c05LongHistory: the same visibility oracle on a store with a long past:
// between the generated operations, bursts of 1100-1400 short-lived messages
// pass through (enqueue, dequeue, ack) so that id counters, order lists and
// compaction thresholds reach the values of a long-running gateway while
// messages sit in every state, and operator requeue/resume happen afterwards.
func c05LongHistory(c *vlib.Ctx) {
	w := map[storecheck.Kind]int{storecheck.KEnqueue: 12, storecheck.KDequeue: 14, storecheck.KNack: 5, storecheck.KAck: 3, storecheck.KDead: 6, storecheck.KCancel: 6,
		storecheck.KRequeue: 6, storecheck.KResume: 5, storecheck.KRequeueDead: 4, storecheck.KRequeueF: 2, storecheck.KResumeF: 2, storecheck.KAdvance: 12, storecheck.KChurn: 5}
	seqs := c.N(6, 120)
	for _, be := range []string{"memory", "sqlite"} {
		churn := 1100
		if be == "sqlite" {
			churn = 150 // (SQLite has no in-memory order list; keep its share of the run short)
		}
		for s := 0; s < seqs; s++ {
			r := vlib.Derive(c.Seed, "C05long", be, s)
			g := storecheck.GenCfg{NIDs: r.Range(6, 24), Routes: stdRoutes[:2], Targets: stdTargets[:2], Weights: w, Churn: churn}
			storecheck.RunSequence(c, r, storecheck.RunCfg{Backends: []string{be}, Gen: g, Steps: r.Range(80, 140),
				Label: fmt.Sprintf("C05/long/%s/seq%d", be, s), Props: map[string]bool{"C05": true}, Remap: c05Remap})
		}
	}
}

// c05Pull drives pullapi.Server.Dequeue (batch capped at pull_api.max_batch).
func c05Pull(c *vlib.Ctx) {
	dir := c.Scratch()
	n := c.N(24, 400)
	for i := 0; i < n; i++ {
		r := vlib.Derive(c.Seed, "C05pull", i)
		be := vlib.Pick(r, []string{"memory", "sqlite"})
		maxBatch := vlib.Pick(r, []int{1, 5, 100, 250})
		if i < 2 {
			maxBatch = 250 // directed: the known batch-cap finding is exercised on every run
		}
		clock := vlib.NewVClock(vlib.Epoch)
		h, err := vlib.OpenStore(be, vlib.StoreCfg{}, clock, dir)
		if err != nil {
			c.Inconclusive(err.Error())
			return
		}
		srv := pullapi.NewServer(h.Store)
		srv.MaxBatch = maxBatch
		ready := vlib.Pick(r, []int{0, 1, 4, 6, 99, 100, 101, 130, 260})
		if i < 2 {
			ready = 260
		}
		var envs []queue.Envelope
		for k := 0; k < ready; k++ {
			envs = append(envs, queue.Envelope{ID: fmt.Sprintf("p%03d", k), Route: "/r0", Target: "pull", Payload: []byte("x")})
		}
		for k := 0; k < r.Intn(20); k++ { // not-yet-due and foreign-route noise
			envs = append(envs, queue.Envelope{ID: fmt.Sprintf("f%03d", k), Route: vlib.Pick(r, []string{"/r0", "/r1"}), Target: "pull", NextRunAt: clock.Now().Add(time.Hour)})
		}
		for len(envs) > 0 {
			k := minInt(90, len(envs))
			if _, err := h.Store.(queue.BatchEnqueuer).EnqueueBatch(envs[:k]); err != nil {
				c.Inconclusive("populate: " + err.Error())
				return
			}
			envs = envs[k:]
		}
		clock.Advance(time.Second)
		for round := 0; round < 4; round++ {
			batch := vlib.Pick(r, []int{0, 1, 2, 7, 100, 101, 250, 1000})
			if i < 2 {
				batch = 250
			}
			s0, err := h.Snap()
			if err != nil {
				c.Inconclusive(err.Error())
				return
			}
			now := clock.NowNS()
			out, opErr := srv.Dequeue("/r0", pullapi.DequeueParams{Batch: batch, HasLeaseTTL: true, LeaseTTL: time.Minute, HasMaxWait: true})
			s1, err2 := h.Snap()
			if opErr != nil || err2 != nil {
				c.Inconclusive(fmt.Sprintf("pull dequeue failed: %v %v", opErr, err2))
				return
			}
			eff := batch
			if eff <= 0 {
				eff = 1
			}
			if eff > maxBatch {
				eff = maxBatch
			}
			res := storecheck.Res{Err: "ok", Items: out.Items, N: len(out.Items), Now: now}
			for _, it := range out.Items {
				res.ItemIDs = append(res.ItemIDs, it.ID)
			}
			op := storecheck.Op{Kind: storecheck.KDequeue, Deq: &queue.DequeueRequest{Route: "/r0", Target: "pull", Batch: minInt(eff, 100), LeaseTTL: time.Minute}}
			st := storecheck.Step{Backend: be, S0: s0, S1: s1, Op: op, Res: res, Now: now, EffBatch: eff}
			c.Count("evaluations", 1)
			c.Count("pull_dequeues", 1)
			c.Distinct("nontrivial", fmt.Sprintf("pull:%s:max%d:batch%d:ready%d:n%d", be, maxBatch, batch, ready, len(out.Items)))
			for _, o := range storecheck.CheckStep(st) {
				if o.Prop != "C05" {
					continue
				}
				if o.Sig["class"] == "dequeue_incomplete" && o.Sig["over_100"] == "true" {
					o.Sig = vlib.Signature{"class": "batch_cap_100", "layer": "pullapi", "max_batch": ">100"}
				}
				c.Violation(o.Sig, o.What, map[string]any{"backend": be, "max_batch": maxBatch, "batch": batch, "ready": ready, "obs": o.Wit})
			}
			clock.Advance(time.Duration(r.Intn(3)) * 40 * time.Second)
		}
		p := h.Path
		h.Close()
		if p != "" {
			storecheck.RemoveDB(p)
		}
	}
}

// c05Crash: leases held by a process that died (handle abandoned without
// Close) are offered again by a fresh store on the same file once they expire.
func c05Crash(c *vlib.Ctx) {
	dir := c.Scratch()
	n := c.N(12, 150)
	for i := 0; i < n; i++ {
		r := vlib.Derive(c.Seed, "C05crash", i)
		clock := vlib.NewVClock(vlib.Epoch)
		h, err := vlib.OpenStore("sqlite", vlib.StoreCfg{}, clock, dir)
		if err != nil {
			c.Inconclusive(err.Error())
			return
		}
		total := r.Range(1, 60)
		for k := 0; k < total; k++ {
			_ = h.Store.Enqueue(queue.Envelope{ID: fmt.Sprintf("c%03d", k), Route: "/r0", Target: "pull", Payload: []byte{byte(k)}})
		}
		leased := map[string]time.Time{}
		for round := 0; round < r.Range(1, 4); round++ {
			ttl := time.Duration(r.Range(1, 90)) * time.Second
			resp, err := h.Store.Dequeue(queue.DequeueRequest{Route: "/r0", Batch: r.Range(1, 30), LeaseTTL: ttl})
			if err != nil {
				c.Inconclusive(err.Error())
				return
			}
			for _, it := range resp.Items {
				leased[it.ID] = it.LeaseUntil
			}
			clock.Advance(time.Duration(r.Intn(2000)) * time.Millisecond)
		}
		if err := h.Reopen(true); err != nil { // abandon = simulated process death
			c.Violation(vlib.Signature{"class": "reopen_failed"}, "store does not reopen after an abandoned handle: "+err.Error(), nil)
			continue
		}
		var latest time.Time
		for _, t := range leased {
			if t.After(latest) {
				latest = t
			}
		}
		// just before the last lease ends nothing leased-and-unexpired may be offered; after it everything must be
		clock.AdvanceTo(latest.Add(storecheck.SweepGranularity))
		got := map[string]int{}
		for k := 0; k < 4; k++ {
			resp, err := h.Store.Dequeue(queue.DequeueRequest{Route: "/r0", Batch: 100, LeaseTTL: time.Hour})
			if err != nil {
				c.Inconclusive(err.Error())
				return
			}
			for _, it := range resp.Items {
				got[it.ID]++
			}
			if len(resp.Items) == 0 {
				break
			}
		}
		c.Count("evaluations", 1)
		c.Count("crash_reopen_trials", 1)
		c.Distinct("nontrivial", fmt.Sprintf("crash:total%d:leased%d", total, len(leased)))
		for k := 0; k < total; k++ {
			id := fmt.Sprintf("c%03d", k)
			if got[id] != 1 {
				c.Violation(vlib.Signature{"class": "not_offered_after_crash", "times": fmt.Sprint(got[id])},
					fmt.Sprintf("message %s (leased before the crash: %v) was offered %d times after reopen past lease expiry", id, !leased[id].IsZero(), got[id]),
					map[string]any{"total": total, "leased": len(leased)})
				break
			}
		}
		p := h.Path
		h.Close()
		storecheck.RemoveDB(p)
	}
}

// C05: at-least-once redelivery and visibility.
func C05(c *vlib.Ctx) {
	c.Rule("single-client histories on memory and SQLite (5-150 messages in mixed readiness: future next_run_at, nacked with delays, staggered lease TTLs, extended leases; batches {0,1,2,3,5,100,101,250}; clock steps to every lease/schedule boundary -1ns/0/+1ns/+10ms) checked against an independent ready-set model: min(b,|must|) <= returned <= min(b,|must|+|may|), nothing before next_run_at / nack delay / lease_until; pull layer with max_batch {1,5,100,250}; SQLite handle abandoned while leases are held and reopened past expiry. distinct_nontrivial = distinct (backend, operation, result class, transitions) tuples plus distinct pull-layer and crash-trial classes.")
	c.Assume("liveness restated as bounded progress on the store clock: a message due at T is returned by the first dequeue at or after T (+10ms sweep granularity for expired leases on SQLite)")
	c.Assume("a due message that a retention prune may remove inside the same dequeue call counts as 'may', not 'must'")
	c05Store(c)
	c05Dense(c)
	for i, be := range []string{"memory", "sqlite"} {
		leasecheck.TimingProbe(c, vlib.Derive(c.Seed, "C05timing", i), be, "C05/timing/"+be)
		leasecheck.HugeDurationProbe(c, vlib.Derive(c.Seed, "C05huge", i), be, "C05/huge/"+be)
	}
	c05LongHistory(c)
	c05Pull(c)
	c05Crash(c)
	c05Restart(c)
}
