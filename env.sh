# Sourced by every script in /verif: offline Go toolchain that can build /repo.
# /repo needs go >= 1.25.7; /usr/bin/go is older and GOSUMDB=off defeats the
# automatic toolchain switch, so the cached toolchain is put first on PATH.
_vt=/root/go/pkg/mod/golang.org/toolchain@v0.0.1-go1.25.7.linux-amd64/bin
if [ -x "$_vt/go" ]; then
  export PATH="$_vt:$PATH"
elif [ -x /opt/veriftools/go1.26.8/bin/go ]; then
  export PATH="/opt/veriftools/go1.26.8/bin:$PATH"
fi
unset _vt
export GOTOOLCHAIN=local GOFLAGS=-mod=mod GOPROXY=off GOSUMDB=off GONOSUMDB='*' GONOSUMCHECK=1 GOFLAGS=-mod=mod
