package storecheck

import (
	"fmt"
	"sort"
	"time"

	"github.com/nuetzliches/hookaido/internal/queue"
	"github.com/nuetzliches/hookaido/verifharness/vlib"
)

type GenCfg struct {
	NIDs    int
	Routes  []string
	Targets []string
	// FarInstants: some `before` cursors lie outside the years 1678-2262
	FarInstants bool
	// ForcedOnly: only issue dequeues whose batch covers every eligible message
	// (used where the choice among eligible messages must not matter).
	ForcedOnly bool
	// GeneratedIDs allows envelopes without an id (the store generates one).
	GeneratedIDs bool
	// OutOfOrder allows explicit received_at values that are not monotone.
	OutOfOrder bool
	// Ties makes explicit received_at values collide on purpose.
	Ties bool
	// PaddedLeases allows lease ids with surrounding whitespace.
	PaddedLeases bool
	Reopen       bool
	Aux          bool // attempts / trend operations
	// DensePolling: the clock only moves in steps below the 10ms sweep
	// granularity and leases are short, as with many consumers polling one store.
	DensePolling bool
	// FusedAdvance is the chance that a forced dequeue carries an unobserved
	// clock step (Op.Pre).
	FusedAdvance float64
	// Churn > 0 enables KChurn operations of Churn..Churn+300 messages (only for
	// stores without depth limits and without delivered retention).
	Churn   int
	Weights map[Kind]int
}

func DefaultWeights() map[Kind]int {
	return map[Kind]int{
		KEnqueue: 14, KEnqueueBatch: 6, KDequeue: 14, KAck: 5, KNack: 5, KExtend: 3, KDead: 4,
		KAckBatch: 3, KNackBatch: 3, KDeadBatch: 2, KCancel: 3, KRequeue: 3, KResume: 2,
		KCancelF: 2, KRequeueF: 2, KResumeF: 2, KRequeueDead: 2, KDeleteDead: 2,
		KListDead: 2, KList: 3, KLookup: 1, KStats: 2, KAdvance: 12,
	}
}

type Gen struct {
	R   *vlib.Rand
	Cfg GenCfg
	seq int
	// lastDequeueNS is the instant of the most recent dequeue (SQLite throttles
	// its expired-lease sweep to once per 10ms of store clock).
	lastDequeueNS int64
	lastRecv      int64
	kinds         []Kind
	total         int
	pending       []Op
	capSeen       map[int64]bool
}

func NewGen(r *vlib.Rand, cfg GenCfg) *Gen {
	g := &Gen{R: r, Cfg: cfg}
	w := cfg.Weights
	if w == nil {
		w = DefaultWeights()
	}
	ks := make([]string, 0, len(w))
	for k := range w {
		ks = append(ks, string(k))
	}
	sort.Strings(ks)
	for _, k := range ks {
		n := w[Kind(k)]
		for i := 0; i < n; i++ {
			g.kinds = append(g.kinds, Kind(k))
		}
	}
	return g
}

func (g *Gen) id() string { return fmt.Sprintf("m%02d", g.R.Intn(g.Cfg.NIDs)) }

func (g *Gen) env(now time.Time) queue.Envelope {
	r := g.R
	g.seq++
	e := queue.Envelope{
		ID:     g.id(),
		Route:  vlib.Pick(r, g.Cfg.Routes),
		Target: vlib.Pick(r, g.Cfg.Targets),
	}
	if g.Cfg.GeneratedIDs && r.Chance(0.1) {
		e.ID = ""
	}
	switch r.Intn(4) {
	case 0:
		e.Payload = nil
	case 1:
		e.Payload = []byte{}
	default:
		e.Payload = append([]byte(fmt.Sprintf("p%d:", g.seq)), r.Bytes(r.Intn(24))...)
	}
	if r.Chance(0.5) {
		e.Headers = map[string]string{"X-Seq": fmt.Sprint(g.seq)}
		if r.Bool() {
			e.Headers["Content-Type"] = "application/json"
		}
	} else if r.Chance(0.2) {
		e.Headers = map[string]string{}
	}
	if r.Chance(0.4) {
		e.Trace = map[string]string{"path": e.Route, "remote_addr": "10.0.0.1:1"}
	}
	// received_at: usually left to the store clock.
	switch {
	case r.Chance(0.55):
	case g.Cfg.Ties && r.Chance(0.5):
		e.ReceivedAt = time.Unix(0, now.UnixNano()-int64(r.Intn(3))*int64(time.Second)).UTC().Truncate(time.Second)
	case g.Cfg.OutOfOrder && r.Chance(0.5):
		e.ReceivedAt = now.Add(-time.Duration(r.Intn(7200)) * time.Second)
	default:
		// explicit but monotone
		t := now.UnixNano()
		if t <= g.lastRecv {
			t = g.lastRecv + 1
		}
		e.ReceivedAt = time.Unix(0, t).UTC()
	}
	if !e.ReceivedAt.IsZero() && e.ReceivedAt.UnixNano() > g.lastRecv {
		g.lastRecv = e.ReceivedAt.UnixNano()
	}
	if now.UnixNano() > g.lastRecv {
		g.lastRecv = now.UnixNano()
	}
	switch r.Intn(8) {
	case 0:
		e.NextRunAt = now.Add(time.Duration(r.Range(1, 3000)) * time.Millisecond)
	case 1:
		e.NextRunAt = now.Add(-time.Duration(r.Range(1, 3000)) * time.Millisecond)
	case 2:
		e.NextRunAt = now
	}
	if r.Chance(0.04) {
		e.State = queue.StateDead
		e.DeadReason = "seeded_dead"
	}
	if r.Chance(0.05) {
		e.Attempt = r.Intn(4)
	}
	return e
}

var advanceSteps = []time.Duration{
	time.Nanosecond, time.Millisecond, 9 * time.Millisecond, 10 * time.Millisecond, 11 * time.Millisecond,
	50 * time.Millisecond, 500 * time.Millisecond, time.Second, 2 * time.Second, 30 * time.Second, time.Minute, 10 * time.Minute, time.Hour,
}

var ttlChoices = []time.Duration{0, -time.Second, 50 * time.Millisecond, time.Second, 2 * time.Second, 30 * time.Second}

func eligible(snap vlib.Snapshot, route, target string, now int64) int {
	n := 0
	for _, r := range snap {
		if route != "" && r.Route != route {
			continue
		}
		if target != "" && r.Target != target {
			continue
		}
		if r.State == queue.StateQueued && r.NextRunAt <= now {
			n++
		}
		if r.State == queue.StateLeased && r.LeaseUntil != 0 && r.LeaseUntil <= now {
			n++
		}
	}
	return n
}

func idsIn(snap vlib.Snapshot, pred func(vlib.Row) bool) []string {
	var out []string
	for id, r := range snap {
		if pred(r) {
			out = append(out, id)
		}
	}
	sort.Strings(out)
	return out
}

func (g *Gen) leaseRef(snap vlib.Snapshot, a *Actor) LeaseRef {
	r := g.R
	live := idsIn(snap, func(x vlib.Row) bool { return x.State == queue.StateLeased })
	var ref LeaseRef
	switch k := r.Intn(20); {
	case k < 11 && len(live) > 0:
		m := vlib.Pick(r, live)
		ref = LeaseRef{Msg: m, Attempt: snap[m].Attempt}
	case k < 16:
		// any lease ever issued (stale epochs included)
		var all []LeaseRef
		msgs := make([]string, 0, len(a.leases))
		for m := range a.leases {
			msgs = append(msgs, m)
		}
		sort.Strings(msgs)
		for _, m := range msgs {
			atts := make([]int, 0)
			for at := range a.leases[m] {
				atts = append(atts, at)
			}
			sort.Ints(atts)
			for _, at := range atts {
				all = append(all, LeaseRef{Msg: m, Attempt: at})
			}
		}
		if len(all) > 0 {
			ref = vlib.Pick(r, all)
		} else {
			ref = LeaseRef{Lit: "lease_unknown"}
		}
	case k < 17:
		ref = LeaseRef{Lit: ""}
	case k < 18:
		ref = LeaseRef{Lit: "   "}
	default:
		ref = LeaseRef{Lit: fmt.Sprintf("lease_%016x", r.U64())}
	}
	if g.Cfg.PaddedLeases && r.Chance(0.08) {
		ref.Pad = "both"
	}
	return ref
}

func (g *Gen) idList(snap vlib.Snapshot, prefer func(vlib.Row) bool) []string {
	r := g.R
	n := r.Range(0, 5)
	pool := idsIn(snap, prefer)
	any := snap.IDs()
	var out []string
	for i := 0; i < n; i++ {
		switch k := r.Intn(10); {
		case k < 5 && len(pool) > 0:
			out = append(out, vlib.Pick(r, pool))
		case k < 8 && len(any) > 0:
			out = append(out, vlib.Pick(r, any))
		case k < 9:
			out = append(out, g.id())
		default:
			out = append(out, vlib.Pick(r, []string{"", "  ", "nope", " m00 "}))
		}
	}
	if len(out) > 0 && r.Chance(0.2) {
		out = append(out, out[0]) // duplicate
	}
	if len(out) > 0 && r.Chance(0.1) {
		out[len(out)-1] = " " + out[len(out)-1] + " "
	}
	return out
}

var limitChoices = []int{0, -1, 1, 2, 3, 100, 1000, 1001}

func (g *Gen) filter(snap vlib.Snapshot, now time.Time) *queue.MessageManageFilterRequest {
	r := g.R
	f := &queue.MessageManageFilterRequest{Limit: vlib.Pick(r, limitChoices), PreviewOnly: r.Chance(0.3)}
	if r.Chance(0.6) {
		f.Route = vlib.Pick(r, g.Cfg.Routes)
	}
	if r.Chance(0.3) {
		f.Target = vlib.Pick(r, g.Cfg.Targets)
	}
	if r.Chance(0.5) {
		f.State = vlib.Pick(r, vlib.AllStates)
	}
	if r.Chance(0.4) {
		f.Before = g.cursor(snap, now)
	}
	return f
}

func (g *Gen) cursor(snap vlib.Snapshot, now time.Time) time.Time {
	r := g.R
	if g.Cfg.FarInstants && r.Chance(0.08) {
		// valid instants an operator can type that lie outside what an int64 of nanoseconds holds (1678-2262)
		return vlib.Pick(r, []time.Time{time.Date(2300, 1, 1, 0, 0, 0, 0, time.UTC), time.Date(9999, 12, 31, 23, 59, 59, 0, time.UTC), time.Date(1600, 1, 1, 0, 0, 0, 0, time.UTC), time.Date(1, 1, 2, 0, 0, 0, 0, time.UTC)})
	}
	ids := snap.IDs()
	if len(ids) > 0 && r.Chance(0.7) {
		t := snap[vlib.Pick(r, ids)].ReceivedAt
		switch r.Intn(3) {
		case 0:
			t--
		case 1:
			t++
		}
		return time.Unix(0, t).UTC()
	}
	return now.Add(-time.Duration(r.Intn(4000)) * time.Millisecond)
}

// Next produces the next operation given the primary backend's latest
// snapshot and lease table.
func (g *Gen) Next(snap vlib.Snapshot, a *Actor, now time.Time) Op {
	if len(g.pending) > 0 {
		op := g.pending[0]
		g.pending = g.pending[1:]
		return op
	}
	r := g.R
	k := vlib.Pick(r, g.kinds)
	nowNS := now.UnixNano()
	switch k {
	case KEnqueue:
		return Op{Kind: KEnqueue, Envs: []queue.Envelope{g.env(now)}}
	case KEnqueueBatch:
		n := r.Range(1, 6)
		if r.Chance(0.1) {
			n = r.Range(7, 14)
		}
		envs := make([]queue.Envelope, 0, n)
		for i := 0; i < n; i++ {
			envs = append(envs, g.env(now))
		}
		if r.Chance(0.15) && len(envs) > 1 {
			envs[len(envs)-1].ID = envs[0].ID // duplicate inside the batch
		}
		return Op{Kind: KEnqueueBatch, Envs: envs}
	case KDequeue:
		d := &queue.DequeueRequest{LeaseTTL: vlib.Pick(r, ttlChoices)}
		if g.Cfg.DensePolling {
			d.LeaseTTL = vlib.Pick(r, []time.Duration{12 * time.Millisecond, 20 * time.Millisecond, 50 * time.Millisecond})
		}
		if r.Chance(0.6) {
			d.Route = vlib.Pick(r, g.Cfg.Routes)
		}
		if r.Chance(0.3) {
			d.Target = vlib.Pick(r, g.Cfg.Targets)
		}
		d.Batch = vlib.Pick(r, []int{0, 1, 1, 2, 3, 5, 100, 101, 250, -3})
		op := Op{Kind: KDequeue, Deq: d}
		if g.Cfg.ForcedOnly {
			// SQLite sweeps expired leases at most once per 10ms of store clock;
			// keep distinct dequeue instants >= 10ms apart so that the sweep
			// always runs when the clock moved (the sub-10ms window is C05's).
			if delta := nowNS - g.lastDequeueNS; delta > 0 && delta < int64(10*time.Millisecond) {
				adv := time.Duration(int64(10*time.Millisecond) - delta)
				g.pending = append(g.pending, op)
				g.fixForced(op.Deq, snap, nowNS+int64(adv))
				g.pending[0].Forced = true
				g.lastDequeueNS = nowNS + int64(adv)
				return Op{Kind: KAdvance, Dur: adv}
			}
			if g.Cfg.FusedAdvance > 0 && r.Chance(g.Cfg.FusedAdvance) {
				// the dequeue is the first call to meet the new instant (no listing in between)
				op.Pre = vlib.Pick(r, []time.Duration{10 * time.Millisecond, 50 * time.Millisecond, time.Second, 2 * time.Second, 5 * time.Second, 30 * time.Second, time.Minute, 10 * time.Minute})
				nowNS += int64(op.Pre)
			}
			g.fixForced(d, snap, nowNS)
			op.Forced = true
		}
		g.lastDequeueNS = nowNS
		return op
	case KAck:
		return Op{Kind: KAck, Leases: []LeaseRef{g.leaseRef(snap, a)}}
	case KNack:
		return Op{Kind: KNack, Leases: []LeaseRef{g.leaseRef(snap, a)}, Dur: vlib.Pick(r, []time.Duration{0, time.Nanosecond, time.Second, -time.Second, 90 * time.Second})}
	case KExtend:
		return Op{Kind: KExtend, Leases: []LeaseRef{g.leaseRef(snap, a)}, Dur: vlib.Pick(r, []time.Duration{0, -time.Second, time.Nanosecond, time.Second, time.Minute})}
	case KDead:
		return Op{Kind: KDead, Leases: []LeaseRef{g.leaseRef(snap, a)}, Reason: vlib.Pick(r, []string{"no_retry", "max_retries", "operator", ""})}
	case KAckBatch, KNackBatch, KDeadBatch:
		n := r.Range(1, 5)
		refs := make([]LeaseRef, 0, n+1)
		for i := 0; i < n; i++ {
			refs = append(refs, g.leaseRef(snap, a))
		}
		if r.Chance(0.2) {
			refs = append(refs, refs[0])
		}
		op := Op{Kind: k, Leases: refs}
		if k == KNackBatch {
			op.Dur = vlib.Pick(r, []time.Duration{0, time.Second, -time.Second})
		}
		if k == KDeadBatch {
			op.Reason = vlib.Pick(r, []string{"no_retry", "batch_dead"})
		}
		return op
	case KCancel:
		return Op{Kind: k, IDs: g.idList(snap, func(x vlib.Row) bool {
			return x.State == queue.StateQueued || x.State == queue.StateLeased || x.State == queue.StateDead
		})}
	case KRequeue:
		return Op{Kind: k, IDs: g.idList(snap, func(x vlib.Row) bool { return x.State == queue.StateDead || x.State == queue.StateCanceled })}
	case KResume:
		return Op{Kind: k, IDs: g.idList(snap, func(x vlib.Row) bool { return x.State == queue.StateCanceled })}
	case KRequeueDead, KDeleteDead:
		return Op{Kind: k, IDs: g.idList(snap, func(x vlib.Row) bool { return x.State == queue.StateDead })}
	case KCancelF, KRequeueF, KResumeF:
		return Op{Kind: k, Filter: g.filter(snap, now)}
	case KListDead:
		d := &queue.DeadListRequest{Limit: vlib.Pick(r, limitChoices), IncludePayload: r.Bool(), IncludeHeaders: r.Bool(), IncludeTrace: r.Bool()}
		if r.Chance(0.5) {
			d.Route = vlib.Pick(r, g.Cfg.Routes)
		}
		if r.Chance(0.4) {
			d.Before = g.cursor(snap, now)
		}
		return Op{Kind: k, DeadL: d}
	case KList:
		l := &queue.MessageListRequest{Limit: vlib.Pick(r, limitChoices), IncludePayload: r.Bool(), IncludeHeaders: r.Bool(), IncludeTrace: r.Bool()}
		l.Order = vlib.Pick(r, []string{"", "desc", "asc", " ASC ", "newest"})
		if r.Chance(0.5) {
			l.Route = vlib.Pick(r, g.Cfg.Routes)
		}
		if r.Chance(0.3) {
			l.Target = vlib.Pick(r, g.Cfg.Targets)
		}
		if r.Chance(0.5) {
			l.State = vlib.Pick(r, vlib.AllStates)
		}
		if r.Chance(0.4) {
			l.Before = g.cursor(snap, now)
		}
		return Op{Kind: k, List: l}
	case KLookup:
		return Op{Kind: k, IDs: g.idList(snap, func(vlib.Row) bool { return true })}
	case KStats:
		return Op{Kind: k}
	case KChurn:
		if g.Cfg.Churn <= 0 {
			return Op{Kind: KStats}
		}
		return Op{Kind: k, Count: g.Cfg.Churn + r.Intn(300)}
	case KAdvance:
		if g.Cfg.DensePolling {
			return Op{Kind: KAdvance, Dur: vlib.Pick(r, []time.Duration{time.Nanosecond, time.Millisecond, 3 * time.Millisecond, 4 * time.Millisecond, 7 * time.Millisecond, 9 * time.Millisecond, 9*time.Millisecond + 999*time.Microsecond})}
		}
		// Either a fixed step or a jump to a lease / schedule boundary.
		if r.Chance(0.5) {
			var bounds []int64
			for _, row := range snap {
				if row.State == queue.StateLeased && row.LeaseUntil > nowNS {
					bounds = append(bounds, row.LeaseUntil)
				}
				if row.State == queue.StateQueued && row.NextRunAt > nowNS {
					bounds = append(bounds, row.NextRunAt)
				}
			}
			if len(bounds) > 0 {
				sort.Slice(bounds, func(i, j int) bool { return bounds[i] < bounds[j] })
				b := bounds[r.Intn(len(bounds))] + vlib.Pick(r, []int64{-1, 0, 1, int64(10 * time.Millisecond), int64(10*time.Millisecond) - 1})
				if b > nowNS {
					return Op{Kind: KAdvance, Dur: time.Duration(b - nowNS)}
				}
			}
		}
		return Op{Kind: KAdvance, Dur: vlib.Pick(r, advanceSteps)}
	case KRecordAtt:
		at := &queue.DeliveryAttempt{EventID: g.id(), Route: vlib.Pick(r, g.Cfg.Routes), Target: vlib.Pick(r, g.Cfg.Targets),
			Attempt: r.Range(1, 4), StatusCode: vlib.Pick(r, []int{0, 200, 500, 404}), Outcome: vlib.Pick(r, []queue.AttemptOutcome{"", queue.AttemptOutcomeAcked, queue.AttemptOutcomeRetry, queue.AttemptOutcomeDead})}
		g.seq++
		at.ID = fmt.Sprintf("att_%04d", g.seq)
		if r.Bool() {
			at.Error = " boom "
		}
		if at.Outcome == queue.AttemptOutcomeDead {
			at.DeadReason = "no_retry"
		}
		return Op{Kind: k, Attempt: at}
	case KListAtt:
		l := &queue.AttemptListRequest{Limit: vlib.Pick(r, limitChoices)}
		if r.Bool() {
			l.Route = vlib.Pick(r, g.Cfg.Routes)
		}
		if r.Chance(0.3) {
			l.EventID = g.id()
		}
		if r.Chance(0.3) {
			l.Outcome = vlib.Pick(r, []queue.AttemptOutcome{queue.AttemptOutcomeAcked, queue.AttemptOutcomeRetry, queue.AttemptOutcomeDead})
		}
		if r.Chance(0.3) {
			l.Before = now.Add(-time.Duration(r.Intn(3000)) * time.Millisecond)
		}
		return Op{Kind: k, AttL: l}
	case KTrendCap:
		// Two captures at one identical instant are not generated: SQLite replaces the
		// earlier sample (primary key captured_at), memory keeps both. The product
		// captures once a minute, so that input is not reachable (DESIGN.md C13).
		op := Op{Kind: k, At: now}
		if r.Bool() {
			op.At = now.Add(-time.Duration(r.Intn(100)) * time.Second)
		}
		if g.capSeen == nil {
			g.capSeen = map[int64]bool{}
		}
		if g.capSeen[op.At.UnixNano()] {
			return Op{Kind: KStats}
		}
		g.capSeen[op.At.UnixNano()] = true
		return op
	case KTrendList:
		l := &queue.BacklogTrendListRequest{Limit: vlib.Pick(r, []int{0, 1, 2, 1000})}
		if r.Bool() {
			l.Route = vlib.Pick(r, g.Cfg.Routes)
		}
		if r.Chance(0.3) {
			l.Target = vlib.Pick(r, g.Cfg.Targets)
		}
		if r.Chance(0.3) {
			l.Since = now.Add(-time.Duration(r.Intn(200)) * time.Second)
		}
		if r.Chance(0.3) {
			l.Until = now.Add(-time.Duration(r.Intn(50)) * time.Second)
		}
		return Op{Kind: k, TrendL: l}
	case KReopen:
		return Op{Kind: k, Reason: vlib.Pick(r, []string{"close", "abandon"})}
	}
	return Op{Kind: KStats}
}

// fixForced raises the batch so that it covers every eligible message, or
// narrows the request when more than 100 are eligible.
func (g *Gen) fixForced(d *queue.DequeueRequest, snap vlib.Snapshot, nowNS int64) {
	n := eligible(snap, d.Route, d.Target, nowNS)
	if n > 100 {
		// fall back to a request that cannot return anything ambiguous
		d.Route = "/no-such-route"
		d.Batch = 1
		return
	}
	eff := d.Batch
	if eff <= 0 {
		eff = 1
	}
	if eff > 100 {
		eff = 100
	}
	if eff < n {
		d.Batch = n
	}
}
