package checks

import (
	"crypto/hmac"
	"crypto/sha256"
	"encoding/hex"
	"fmt"
	"io"
	"net/http"
	"net/http/httptest"
	"strings"
	"sync"
	"time"

	"github.com/nuetzliches/hookaido/internal/queue"
	"github.com/nuetzliches/hookaido/verifharness/l2"
	"github.com/nuetzliches/hookaido/verifharness/vlib"
)

// deliverEdits: the push dispatcher is built once at start-up. One
// delivery-relevant setting of the file changes (signing secret windows, ids,
// refs, selection rule, signature header, target URL, method-independent deliver
// options, egress switches) and the process reloads. Whatever it decides must be
// whole: refused => the next push looks as before; applied => the next push
// looks as after a fresh start of the new file (same signing version, same
// headers, same target). Runs under C17 (signing clause) and C18 (reload clause).
func deliverEdits(c *vlib.Ctx) {
	dir := c.Scratch()
	type hit struct {
		path string
		hdr  http.Header
		body []byte
	}
	var mu sync.Mutex
	var hits []hit
	sink := httptest.NewServer(http.HandlerFunc(func(w http.ResponseWriter, r *http.Request) {
		b, _ := io.ReadAll(r.Body)
		mu.Lock()
		hits = append(hits, hit{r.URL.Path, r.Header.Clone(), b})
		mu.Unlock()
		w.WriteHeader(204)
	}))
	defer sink.Close()
	now := time.Now().UTC().Truncate(time.Second)
	ts := func(d time.Duration) string { return now.Add(d).Format(time.RFC3339) }
	secrets := map[string]string{"S1": "secret-one", "S2": "secret-two", "S3": "secret-three"}
	base := fmt.Sprintf(`ingress { listen 127.0.0.1:0 }
pull_api { listen 127.0.0.2:0
 auth token raw:tok }
admin_api { listen 127.0.0.3:0 }
defaults { egress { https_only off
 dns_rebind_protection off } }
secrets {
 secret "S1" {
  value raw:secret-one
  valid_from %q
  valid_until %q
 }
 secret "S2" {
  value raw:secret-two
  valid_from %q
 }
 secret "S3" {
  value raw:secret-three
  valid_from %q
  valid_until %q
 }
}
/out { queue { backend memory }
 deliver %q {
  timeout 2s
  sign hmac secret_ref "S1"
  sign hmac secret_ref "S2"
  sign hmac secret_ref "S3"
  sign secret_selection oldest_valid
 } }
`, ts(-48*time.Hour), ts(48*time.Hour), ts(-24*time.Hour), ts(-12*time.Hour), ts(72*time.Hour), sink.URL+"/t1")
	rep := func(old, new string) func(string) string {
		return func(t string) string { return strings.Replace(t, old, new, 1) }
	}
	edits := []struct {
		name string
		f    func(string) string
	}{
		{"s1_valid_until_moved_to_the_past", rep(fmt.Sprintf("valid_until %q", ts(48*time.Hour)), fmt.Sprintf("valid_until %q", ts(-time.Hour)))},
		{"s1_valid_until_extended", rep(fmt.Sprintf("valid_until %q", ts(48*time.Hour)), fmt.Sprintf("valid_until %q", ts(480*time.Hour)))},
		{"s1_valid_until_removed", rep(fmt.Sprintf("  valid_until %q\n", ts(48*time.Hour)), "")},
		{"s1_valid_from_moved_to_the_future", rep(fmt.Sprintf("valid_from %q", ts(-48*time.Hour)), fmt.Sprintf("valid_from %q", ts(time.Hour)))},
		{"s1_value_changed", rep("raw:secret-one", "raw:secret-three")},
		{"s2_valid_until_added_in_the_past", rep(fmt.Sprintf("  valid_from %q\n }\n secret \"S3\"", ts(-24*time.Hour)), fmt.Sprintf("  valid_from %q\n  valid_until %q\n }\n secret \"S3\"", ts(-24*time.Hour), ts(-time.Hour)))},
		{"selection_newest_valid", rep("secret_selection oldest_valid", "secret_selection newest_valid")},
		{"secret_ref_removed", rep("  sign hmac secret_ref \"S1\"\n", "")},
		{"signature_header", rep("  sign secret_selection oldest_valid\n", "  sign secret_selection oldest_valid\n  sign signature_header \"X-Other-Sig\"\n")},
		{"target_url", rep(sink.URL+"/t1", sink.URL+"/t2")},
		{"deliver_timeout", rep("timeout 2s", "timeout 3s")},
		{"unrelated_route_added", func(t string) string { return t + "/extra { queue { backend memory }\n pull { path /pull/extra } }\n" }},
	}
	seq := 0
	push := func(a *l2.App) string {
		seq++
		id := fmt.Sprintf("de-%d", seq)
		mu.Lock()
		n0 := len(hits)
		mu.Unlock()
		// whatever target the running route table resolves for /out
		targets := a.Compiled.Routes
		_ = targets
		req := l2.JSONReq("POST", a.Compiled.AdminAPI.Prefix+"/messages/publish", map[string]any{"items": []map[string]any{{"id": id, "route": "/out", "payload_b64": "eA=="}}}, "")
		req.Header.Set("X-Hookaido-Audit-Reason", "verif")
		if resp := l2.Do(a.Admin, req); resp.Status != 200 {
			return fmt.Sprintf("publish %d", resp.Status)
		}
		for w := 0; w < 400; w++ {
			mu.Lock()
			if len(hits) > n0 {
				h := hits[len(hits)-1]
				mu.Unlock()
				sigH, tsH := "X-Hookaido-Signature", "X-Hookaido-Timestamp"
				if h.hdr.Get("X-Other-Sig") != "" {
					sigH = "X-Other-Sig"
				}
				sig, tsv := h.hdr.Get(sigH), h.hdr.Get(tsH)
				by := "nobody"
				sum := sha256.Sum256(h.body)
				for _, sid := range []string{"S1", "S2", "S3"} {
					m := hmac.New(sha256.New, []byte(secrets[sid]))
					m.Write([]byte("POST\n" + h.path + "\n" + tsv + "\n" + hex.EncodeToString(sum[:])))
					if strings.EqualFold(hex.EncodeToString(m.Sum(nil)), sig) {
						by = sid
					}
				}
				if sig == "" {
					by = "unsigned"
				}
				return fmt.Sprintf("delivered to %s, signature header %s by %s", h.path, sigH, by)
			}
			mu.Unlock()
			time.Sleep(5 * time.Millisecond)
		}
		return "not delivered within 2s"
	}
	for _, e := range edits {
		next := e.f(base)
		if next == base {
			c.Inconclusive("deliver edit " + e.name + " did not change the text")
			continue
		}
		a, err := l2.Start(dir, base, nil, nil)
		if err != nil {
			c.Inconclusive("deliver edits base did not start: " + err.Error())
			return
		}
		d := a.StartDispatcher(&http.Client{})
		before := push(a)
		_ = a.WriteConfig(next)
		ok := a.Reload()
		after := push(a)
		d.Drain(2 * time.Second)
		a.Close()
		c.Count("evaluations", 1)
		c.Count("deliver_edit_trials", 1)
		c.Distinct("nontrivial", fmt.Sprintf("deliver_edit:%s:applied=%v", e.name, ok))
		wit := map[string]any{"edit": e.name, "reload_reported_ok": ok, "push_before": before, "push_after": after, "new_file": next}
		if c.Counter("deliver_edit_trials") <= 2 {
			c.Sample(map[string]any{"part": "deliver_edit", "edit": e.name, "reload_reported_ok": ok, "push_before": before, "push_after": after})
		}
		if strings.HasPrefix(before, "not delivered") || strings.HasPrefix(before, "publish") {
			c.Inconclusive(fmt.Sprintf("deliver edit %s: the probe delivery did not arrive (%s)", e.name, before))
			continue
		}
		if !ok {
			if before != after {
				c.Violation(vlib.Signature{"class": "behaviour_changed_by_failed_reload", "failure": "deliver:" + e.name, "probe": "push"},
					fmt.Sprintf("reload changing %s was refused but the next push differs: %q -> %q", e.name, before, after), wit)
			}
			continue
		}
		ref, err := l2.Start(dir, next, nil, nil)
		if err != nil {
			c.Violation(vlib.Signature{"class": "invalid_reload_applied", "failure": "deliver:" + e.name}, "reload applied a file that does not start: "+err.Error(), wit)
			continue
		}
		rd := ref.StartDispatcher(&http.Client{})
		want := push(ref)
		rd.Drain(2 * time.Second)
		ref.Close()
		wit["fresh_start_push"] = want
		if want != after {
			c.Violation(vlib.Signature{"class": "reload_differs_from_fresh_start", "setting": "deliver:" + e.name, "probe": "push"},
				fmt.Sprintf("reload changing %s reported success, but the next push is %q where a fresh start of the same file gives %q (the dispatcher still runs the start-up configuration)", e.name, after, want), wit)
		}
	}
	_ = queue.StateQueued
}
