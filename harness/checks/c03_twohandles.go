package checks

import (
	"fmt"
	"sync"
	"sync/atomic"
	"time"

	"github.com/nuetzliches/hookaido/internal/queue"
	"github.com/nuetzliches/hookaido/verifharness/vlib"
)

// c03LateSettleTwoHandles: two handles on one SQLite file (two processes sharing a queue file).
// Worker A's lease has just run out and has not been swept. A settles late (ack / nack / extend /
// dead-letter); at the k-th time the store reads its clock during that call - an existing suspension
// point, reached through the injected clock function, no hook in the product - a consumer on the
// second handle dequeues: the sweep releases A's expired lease and hands the message to B. Whatever A
// is told, B now holds the only live lease: a further dequeue at the same instant must not return the
// message, B's lease must still be listed, and B's own ack must succeed. The second dequeue may run
// into A's write lock (then it fails with "busy" after the store's timeout and nothing is observed
// for that k); that costs a few seconds and is never a verdict.
func c03LateSettleTwoHandles(c *vlib.Ctx) {
	dir := c.Scratch()
	// the trials are independent (own file, own clock) and run side by side: a second consumer that
	// runs into worker A's write lock waits out the store's busy timeout (about 15 s)
	var wg sync.WaitGroup
	defer wg.Wait()
	for _, op := range []string{"ack", "nack", "extend", "dead"} {
		for k := 1; k <= 3; k++ {
			wg.Add(1)
			go c03LateSettleTrial(c, &wg, dir, op, k)
		}
	}
}

func c03LateSettleTrial(c *vlib.Ctx, wg *sync.WaitGroup, dir, op string, k int) {
	defer wg.Done()
	{
		{
			clock := vlib.NewVClock(vlib.Epoch)
			h, err := vlib.OpenStore("sqlite", vlib.StoreCfg{}, clock, dir)
			if err != nil {
				c.Inconclusive("C03 two handles: " + err.Error())
				return
			}
			second, err := h.SecondHandle()
			if err != nil {
				c.Inconclusive("C03 two handles: second handle: " + err.Error())
				h.Close()
				return
			}
			id := fmt.Sprintf("th-%s-%d", op, k)
			_ = h.Store.Enqueue(queue.Envelope{ID: id, Route: "/r0", Target: "pull", Payload: []byte(id)})
			ra, err := h.Store.Dequeue(queue.DequeueRequest{Route: "/r0", Target: "pull", Batch: 1, LeaseTTL: time.Second})
			if err != nil || len(ra.Items) != 1 {
				c.Inconclusive(fmt.Sprintf("C03 two handles: first dequeue returned %d items, err %v", len(ra.Items), err))
				h.Close()
				return
			}
			leaseA := ra.Items[0].LeaseID
			clock.Advance(time.Second + 50*time.Millisecond) // A's lease has run out, nothing swept it yet
			var reads atomic.Int32
			var leaseB string
			var bErr error
			bRan := false
			clock.SetAfterRead(func() {
				if int(reads.Add(1)) != k {
					return
				}
				clock.SetAfterRead(nil)
				bRan = true
				rb, err := second.Dequeue(queue.DequeueRequest{Route: "/r0", Target: "pull", Batch: 1, LeaseTTL: time.Minute})
				bErr = err
				if err == nil && len(rb.Items) == 1 {
					leaseB = rb.Items[0].LeaseID
				}
			})
			var aErr error
			switch op {
			case "ack":
				aErr = h.Store.Ack(leaseA)
			case "nack":
				aErr = h.Store.Nack(leaseA, 0)
			case "extend":
				aErr = h.Store.Extend(leaseA, time.Minute)
			case "dead":
				aErr = h.Store.MarkDead(leaseA, "late")
			}
			clock.SetAfterRead(nil)
			c.Count("evaluations", 1)
			c.Count("two_handle_late_settles", 1)
			c.Distinct("nontrivial", fmt.Sprintf("two_handles:%s:read%d:b_ran=%v:b_leased=%v:a_err=%v", op, k, bRan, leaseB != "", aErr != nil))
			if leaseB != "" {
				c.Count("two_handle_second_consumer_leased_during_settle", 1)
				wit := map[string]any{"operation": op, "clock_read": k, "lease_a": leaseA, "lease_b": leaseB, "a_result": fmt.Sprint(aErr)}
				// B holds a live lease (one minute) - nobody else may get the message now
				rc, err := h.Store.Dequeue(queue.DequeueRequest{Route: "/r0", Target: "pull", Batch: 1, LeaseTTL: time.Minute})
				if err == nil && len(rc.Items) > 0 {
					c.Violation(vlib.Signature{"class": "two_live_leases", "backend": "sqlite", "case": "late_settle_two_handles", "op": op},
						fmt.Sprintf("message %s was leased to a second consumer (lease %s, one minute) while worker A's late %s of its expired lease was in progress; a third dequeue at the same instant got the message again (lease %s, attempt %d)", id, leaseB, op, rc.Items[0].LeaseID, rc.Items[0].Attempt), wit)
				} else if err := second.Ack(leaseB); err != nil {
					c.Violation(vlib.Signature{"class": "live_lease_voided", "backend": "sqlite", "case": "late_settle_two_handles", "op": op},
						fmt.Sprintf("the second consumer's live lease %s on %s was voided by worker A's late %s of an expired lease: its ack answers %v", leaseB, id, op, err), wit)
				}
			} else if bRan && bErr != nil {
				c.Count("two_handle_second_consumer_blocked", 1)
			}
			_ = second.Close()
			h.Close()
		}
	}
}
