package checks

import (
	"fmt"
	"time"

	"github.com/nuetzliches/hookaido/internal/queue"
	"github.com/nuetzliches/hookaido/verifharness/l2"
	"github.com/nuetzliches/hookaido/verifharness/vlib"
)

// c18TrendReload: ingress admission under adaptive backpressure depends on how
// the backlog trend samples are read (defaults.trend_signals) - a decision
// that is cached between requests. The file's trend_signals (or the
// adaptive_backpressure switches) change and the process reloads with a warm
// cache. Once the reload is reported as applied, the very next request must be
// admitted or refused as by a fresh start of the new file on the same backlog.
func c18TrendReload(c *vlib.Ctx) {
	dir := c.Scratch()
	mk := func(enabled, growth string, consecutive, minDelta int) string {
		return fmt.Sprintf(`ingress { listen 127.0.0.1:0 }
pull_api { listen 127.0.0.2:0
 auth token raw:tok }
admin_api { listen 127.0.0.3:0 }
defaults {
 adaptive_backpressure {
  enabled %s
  min_total 1
  queued_percent 90
  ready_lag 1h
  oldest_queued_age 1h
  sustained_growth %s
 }
 trend_signals {
  window 15m
  expected_capture_interval 1m
  sustained_growth_consecutive %d
  sustained_growth_min_samples 5
  sustained_growth_min_delta %d
 }
}
/hook { queue { backend memory }
 pull { path /e } }
`, enabled, growth, consecutive, minDelta)
	}
	strict, lenient := mk("on", "on", 3, 10), mk("on", "on", 1000, 1000000)
	growthOff, disabled := mk("on", "off", 3, 10), mk("off", "on", 3, 10)
	// a backlog that grew 2,4,6,8,10 over the last five minutes, nearly all of it
	// leased: only the trend can trigger backpressure
	store := func() *queue.MemoryStore {
		st := queue.NewMemoryStore()
		base := time.Now().UTC().Add(-5 * time.Minute)
		n := 0
		for i := 0; i < 5; i++ {
			for j := 0; j < 2; j++ {
				n++
				_ = st.Enqueue(queue.Envelope{ID: fmt.Sprintf("evt_%d", n), Route: "/hook", Target: "pull"})
			}
			_ = st.CaptureBacklogTrendSample(base.Add(time.Duration(i) * time.Minute))
		}
		_, _ = st.Dequeue(queue.DequeueRequest{Route: "/hook", Target: "pull", Batch: 9, LeaseTTL: time.Hour})
		return st
	}
	post := func(a *l2.App) int {
		req, _ := l2.NewRequest("POST", "/hook", []byte("x"), "")
		return l2.Do(a.Ingress, req).Status
	}
	fresh := map[string]int{}
	for name, txt := range map[string]string{"strict": strict, "lenient": lenient, "growth_off": growthOff, "disabled": disabled} {
		a, err := l2.Start(dir, txt, store(), nil)
		if err != nil {
			c.Inconclusive("C18 trend config " + name + " did not start: " + err.Error())
			return
		}
		fresh[name] = post(a)
		a.Close()
	}
	if fresh["strict"] == fresh["lenient"] {
		c.Inconclusive(fmt.Sprintf("C18 trend: strict and lenient trend_signals admit alike on a fresh start (%d): the backlog does not separate them", fresh["strict"]))
		return
	}
	texts := map[string]string{"strict": strict, "lenient": lenient, "growth_off": growthOff, "disabled": disabled}
	for _, e := range [][2]string{{"strict", "lenient"}, {"lenient", "strict"}, {"strict", "growth_off"}, {"growth_off", "strict"}, {"strict", "disabled"}, {"disabled", "strict"}} {
		for _, warm := range []int{1, 3} {
			a, err := l2.Start(dir, texts[e[0]], store(), nil)
			if err != nil {
				c.Inconclusive("C18 trend: " + err.Error())
				return
			}
			var before []int
			for k := 0; k < warm; k++ { // warm the cached verdict
				before = append(before, post(a))
			}
			_ = a.WriteConfig(texts[e[1]])
			ok := a.Reload()
			var after []int
			for k := 0; k < 3; k++ {
				after = append(after, post(a))
			}
			a.Close()
			c.Count("evaluations", 1)
			c.Count("trend_reload_trials", 1)
			c.Distinct("nontrivial", fmt.Sprintf("trend_reload:%s->%s:warm%d:applied=%v", e[0], e[1], warm, ok))
			want := fresh[e[0]]
			if ok {
				want = fresh[e[1]]
			}
			wit := map[string]any{"from": e[0], "to": e[1], "requests_before_reload": before, "reload_reported_ok": ok, "requests_after_reload": after, "fresh_start_answers": fresh}
			if c.Counter("trend_reload_trials") <= 2 {
				c.Sample(wit)
			}
			for k, got := range after {
				if got != want {
					cls := "reload_differs_from_fresh_start"
					if !ok {
						cls = "behaviour_changed_by_failed_reload"
					}
					c.Violation(vlib.Signature{"class": cls, "setting": "trend_signals/adaptive_backpressure:" + e[0] + "->" + e[1], "probe": "ingress_admission"},
						fmt.Sprintf("reload %s -> %s reported ok=%v; request %d after it was answered %d where a fresh start of the configuration in force answers %d (same backlog and trend samples)", e[0], e[1], ok, k+1, got, want), wit)
					break
				}
			}
		}
	}
}
