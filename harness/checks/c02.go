// Package checks holds one entry point per property.
package checks

import (
	"fmt"
	"os"

	"github.com/nuetzliches/hookaido/verifharness/storecheck"
	"github.com/nuetzliches/hookaido/verifharness/vlib"
)

var stdRoutes = []string{"/r0", "/r1", "/r2"}
var stdTargets = []string{"pull", "https://t1.example/hook", "https://t2.example/hook"}

// C02: conservation and legal state transitions.
func C02(c *vlib.Ctx) {
	c.Rule("PRNG operation sequences (40-120 steps) over 6-30 ids, 3 routes x 3 targets, on memory and SQLite under a virtual clock, for every entry of the limits/retention matrix; after every operation a full snapshot is diffed against the previous one by the transition monitor. distinct_nontrivial = distinct (backend, operation, result class, set of observed state transitions) tuples.")
	c.Assume("snapshots: memory = paginated ListMessages over all five states; SQLite = read-only SQL dump on a second connection after the same API listing")
	c.Assume("retention prune and release of expired leases are treated as legal background transitions at every step")
	if os.Getenv("VERIF_PART") == "concurrent" {
		// thorough tier, second pass under the race detector
		c02Concurrent(c, 40)
		c.CollectRaces()
		return
	}
	c02Concurrent(c, c.N(6, 24))
	for _, d := range storecheck.DirectedScenarios() {
		for _, be := range []string{"memory", "sqlite"} {
			if d.MemoryOnly && be != "memory" {
				continue
			}
			storecheck.RunSequence(c, vlib.Derive(c.Seed, "C02d", d.Name, be), storecheck.RunCfg{
				Backends: []string{be}, Store: d.Cfg, Script: d.Script, Label: "C02/directed/" + be + "/" + d.Name, Props: map[string]bool{"C02": true},
			})
		}
	}
	// long history (see C05): conservation across order-list compaction and id churn
	wl := storecheck.DefaultWeights()
	wl[storecheck.KChurn] = 5
	for _, be := range []string{"memory", "sqlite"} {
		churn := 1050
		if be == "sqlite" {
			churn = 150
		}
		for s := 0; s < c.N(4, 80); s++ {
			r := vlib.Derive(c.Seed, "C02long", be, s)
			g := storecheck.GenCfg{NIDs: r.Range(6, 24), Routes: stdRoutes[:2], Targets: stdTargets[:2], PaddedLeases: true, Weights: wl, Churn: churn}
			storecheck.RunSequence(c, r, storecheck.RunCfg{Backends: []string{be}, Gen: g, Steps: r.Range(60, 100),
				Label: fmt.Sprintf("C02/long/%s/seq%d", be, s), Props: map[string]bool{"C02": true}})
		}
	}
	seqs := c.N(18, 120)
	cfgs := storecheck.ConfigMatrix()
	for _, be := range []string{"memory", "sqlite"} {
		for ci, sc := range cfgs {
			for s := 0; s < seqs; s++ {
				r := vlib.Derive(c.Seed, "C02", be, ci, s)
				g := storecheck.GenCfg{NIDs: r.Range(6, 30), Routes: stdRoutes, Targets: stdTargets, GeneratedIDs: true, OutOfOrder: r.Chance(0.3), Ties: r.Chance(0.3), PaddedLeases: true}
				storecheck.RunSequence(c, r, storecheck.RunCfg{
					Backends: []string{be}, Store: sc, Gen: g, Steps: r.Range(40, 120),
					Label: fmt.Sprintf("C02/%s/cfg%d/seq%d", be, ci, s),
					Props: map[string]bool{"C02": true},
				})
			}
		}
	}
}
