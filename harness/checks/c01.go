package checks

import (
	"crypto/sha256"
	"encoding/base64"
	"encoding/hex"
	"encoding/json"
	"fmt"
	"os"
	"path/filepath"
	"sort"
	"strings"
	"sync"
	"sync/atomic"
	"time"

	"github.com/nuetzliches/hookaido/verifharness/l3"
	"github.com/nuetzliches/hookaido/verifharness/vlib"
)

const c01Config = `ingress { listen %INGRESS% }
pull_api { listen %PULL%
 auth token raw:tok }
admin_api { listen %ADMIN% }
defaults { egress { https_only off
 dns_rebind_protection off } }
/p1 { pull { path /pull/p1 } }
/p2 { pull { path /pull/p2 } }
/fan {
 deliver "http://127.0.0.1:1/a" { retry exponential max 20 base 1h cap 2h
  timeout 1s }
 deliver "http://127.0.0.1:1/b" { retry exponential max 20 base 1h cap 2h
  timeout 1s }
 deliver "http://127.0.0.1:1/c" { retry exponential max 20 base 1h cap 2h
  timeout 1s }
}
`

var c01FanTargets = []string{"http://127.0.0.1:1/a", "http://127.0.0.1:1/b", "http://127.0.0.1:1/c"}

// crash points armed through VERIF_POINTS (kill@n)
var c01Points = []string{
	"ingress.before_ack", "ingress.fanout.between", "ingress.after_resolve",
	"sqlite.enqueue.after_commit", "sqlite.commit.before", "sqlite.commit.after",
	"sqlite.batch.between_inserts", "sqlite.batch.before_commit", "sqlite.batch.after_commit",
	"sqlite.lease.after_mutate", "sqlite.checkpoint.before", "sqlite.checkpoint.after",
	"admin.publish.before_enqueue", "admin.publish.before_ack", "pull.ack.before_reply", "pull.nack.before_reply",
}

type ledgerMsg struct {
	Marker  string
	Route   string
	Targets []string
	SHA     string
	Enq     string // acked | open | refused
	CutOff  bool   // the upload never completed (fewer body bytes than announced)
	mu      sync.Mutex
	Events  []ledgerEv
}

type ledgerEv struct {
	Kind   string // ack | nack | dead
	Status string // acked | open | refused
}

type c01Ledger struct {
	mu    sync.Mutex
	msgs  map[string]*ledgerMsg
	lease map[string]string // lease id -> marker
	held  []string
	stale []string // leases of earlier generations (the processes that issued them are gone)
}

func c01Body(marker string, r *vlib.Rand) []byte {
	pad := r.Bytes(r.Intn(200))
	return append([]byte("mk:"+marker+":"), pad...)
}

func markerOf(payload []byte) string {
	s := string(payload)
	if !strings.HasPrefix(s, "mk:") {
		return ""
	}
	s = s[3:]
	if i := strings.IndexByte(s, ':'); i >= 0 {
		return s[:i]
	}
	return s
}

func sha16(b []byte) string {
	h := sha256.Sum256(b)
	return hex.EncodeToString(h[:8])
}

type c01Crash struct {
	Kind  string // point | external | none
	Point string
	Hit   int
	After int
}

func (k c01Crash) String() string {
	if k.Kind == "point" {
		return fmt.Sprintf("%s@%d", k.Point, k.Hit)
	}
	return fmt.Sprintf("%s@op%d", k.Kind, k.After)
}

// c01Traffic runs the pre-crash workload; it returns when all clients are done
// or the process died.
func c01Traffic(p *l3.Proc, r *vlib.Rand, led *c01Ledger, gen int, crash c01Crash, opsPerClient int) {
	var opCount atomic.Int64
	var wg sync.WaitGroup
	for cl := 0; cl < 4; cl++ {
		wg.Add(1)
		cr := vlib.NewRand(r.U64())
		go func(cl int) {
			defer wg.Done()
			for i := 0; i < opsPerClient; i++ {
				if p.Exited() {
					return
				}
				n := int(opCount.Add(1))
				if crash.Kind == "external" && n == crash.After {
					p.Kill()
					return
				}
				marker := fmt.Sprintf("g%dc%dn%d", gen, cl, i)
				status := func(resp l3.Resp, okCodes ...int) string {
					if resp.Err != nil {
						return "open"
					}
					for _, c := range okCodes {
						if resp.Status == c {
							return "acked"
						}
					}
					return "refused"
				}
				switch x := cr.Intn(100); {
				case x < 30: // ingress to a pull route
					route := vlib.Pick(cr, []string{"/p1", "/p2"})
					body := c01Body(marker, cr)
					m := &ledgerMsg{Marker: marker, Route: route, Targets: []string{"pull"}, SHA: sha16(body), Enq: "open"}
					led.mu.Lock()
					led.msgs[marker] = m
					led.mu.Unlock()
					st := status(p.Ingress(route, body, map[string]string{"X-Verif-Marker": marker}), 202)
					m.mu.Lock()
					m.Enq = st
					m.mu.Unlock()
				case x < 34: // an upload that is cut off: fewer body bytes than announced
					// (sender crash, proxy dropping the upstream connection). Nobody sent this
					// message: whatever the server answers, nothing may be stored for it - and
					// if it says 202 the stored payload would have to be the full body.
					route := vlib.Pick(cr, []string{"/p1", "/p2", "/fan"})
					body := c01Body(marker, cr)
					for len(body) < 40 {
						body = append(body, 'x')
					}
					targets := []string{"pull"}
					if route == "/fan" {
						targets = c01FanTargets
					}
					m := &ledgerMsg{Marker: marker, Route: route, Targets: targets, SHA: sha16(body), Enq: "open", CutOff: true}
					led.mu.Lock()
					led.msgs[marker] = m
					led.mu.Unlock()
					sendN := vlib.Pick(cr, []int{0, 1, len(body) / 2, len(body) - 1})
					resp := p.IngressCutOff(route, body, sendN, map[string]string{"X-Verif-Marker": marker}, cr.Chance(0.7))
					st := "refused"
					if resp.Err == nil && resp.Status == 202 {
						st = "acked"
					}
					m.mu.Lock()
					m.Enq = st
					m.mu.Unlock()
					c01CutOffUploads.Add(1)
				case x < 40: // fan-out
					body := c01Body(marker, cr)
					m := &ledgerMsg{Marker: marker, Route: "/fan", Targets: c01FanTargets, SHA: sha16(body), Enq: "open"}
					led.mu.Lock()
					led.msgs[marker] = m
					led.mu.Unlock()
					st := status(p.Ingress("/fan", body, map[string]string{"X-Verif-Marker": marker}), 202)
					m.mu.Lock()
					m.Enq = st
					m.mu.Unlock()
				case x < 52: // publish batch
					k := cr.Range(1, 20)
					route := vlib.Pick(cr, []string{"/p1", "/p2"})
					var items []map[string]any
					var ms []*ledgerMsg
					for j := 0; j < k; j++ {
						mk := fmt.Sprintf("%sp%d", marker, j)
						body := c01Body(mk, cr)
						m := &ledgerMsg{Marker: mk, Route: route, Targets: []string{"pull"}, SHA: sha16(body), Enq: "open"}
						ms = append(ms, m)
						items = append(items, map[string]any{"id": mk, "route": route, "payload_b64": base64.StdEncoding.EncodeToString(body), "headers": map[string]string{"X-Verif-Marker": mk}})
					}
					led.mu.Lock()
					for _, m := range ms {
						led.msgs[m.Marker] = m
					}
					led.mu.Unlock()
					st := status(p.Admin("POST", "/messages/publish", map[string]any{"items": items}), 200)
					for _, m := range ms {
						m.mu.Lock()
						m.Enq = st
						m.mu.Unlock()
					}
				case x < 75: // dequeue
					route := vlib.Pick(cr, []string{"p1", "p2"})
					resp := p.Pull("/pull/"+route+"/dequeue", map[string]any{"batch": cr.Range(1, 6), "lease_ttl": "1s"}, "tok")
					if resp.Err == nil && resp.Status == 200 {
						var out struct {
							Items []struct {
								LeaseID    string `json:"lease_id"`
								PayloadB64 string `json:"payload_b64"`
							} `json:"items"`
						}
						if json.Unmarshal(resp.Body, &out) == nil {
							led.mu.Lock()
							for _, it := range out.Items {
								b, _ := base64.StdEncoding.DecodeString(it.PayloadB64)
								led.lease[it.LeaseID] = markerOf(b)
								led.held = append(led.held, it.LeaseID)
							}
							led.mu.Unlock()
						}
					}
				default: // settle
					// 8%: a worker repeating a batch settle with lease ids of earlier generations
					// (or never issued). Nearly always every id is a conflict - but a lease the
					// drain took just before a graceful stop lives for another second in the
					// next generation, so the answer is recorded like any other settle.
					staleBatch := cr.Chance(0.08)
					led.mu.Lock()
					var leases []string
					if staleBatch {
						for n := cr.Range(2, 4); n > 0; n-- {
							if len(led.stale) > 0 && cr.Bool() {
								leases = append(leases, led.stale[cr.Intn(len(led.stale))])
							} else {
								leases = append(leases, fmt.Sprintf("lease_%016x", cr.U64()))
							}
						}
					} else {
						k := 1
						if cr.Chance(0.3) {
							k = cr.Range(2, 4)
						}
						for j := 0; j < k && len(led.held) > 0; j++ {
							idx := cr.Intn(len(led.held))
							leases = append(leases, led.held[idx])
							led.held = append(led.held[:idx], led.held[idx+1:]...)
						}
					}
					markers := map[string]string{}
					for _, l := range leases {
						markers[l] = led.lease[l]
					}
					led.mu.Unlock()
					if len(leases) == 0 {
						continue
					}
					kind := vlib.Pick(cr, []string{"ack", "ack", "nack", "dead"})
					if staleBatch {
						kind = vlib.Pick(cr, []string{"ack", "nack"})
						c01StaleBatches.Add(1)
					}
					var body map[string]any
					if len(leases) == 1 {
						body = map[string]any{"lease_id": leases[0]}
					} else {
						body = map[string]any{"lease_ids": leases}
					}
					op := "ack"
					switch kind {
					case "nack":
						op, body["delay"] = "nack", "0s"
					case "dead":
						op, body["dead"], body["reason"] = "nack", true, "verif_dead"
					}
					// the route in the URL does not matter for the lease; use p1
					var dupResp *l3.Resp
					var dupWG sync.WaitGroup
					if len(leases) == 1 && cr.Chance(0.35) {
						// a client retry racing the original: the same request again 1-3ms later;
						// whichever answer says "done" is an acknowledgement like any other
						dupWG.Add(1)
						delay := time.Duration(cr.Range(1, 3)) * time.Millisecond
						go func() {
							defer dupWG.Done()
							time.Sleep(delay)
							r2 := p.Pull("/pull/p1/"+op, body, "tok")
							dupResp = &r2
						}()
					}
					resp := p.Pull("/pull/p1/"+op, body, "tok")
					dupWG.Wait()
					if dupResp != nil {
						c01DupSettles.Add(1)
						if dupResp.Err == nil && (dupResp.Status == 204 || dupResp.Status == 200) && !(resp.Err == nil && (resp.Status == 204 || resp.Status == 200)) {
							resp = *dupResp // the duplicate was told "done"
						}
					}
					perLease := map[string]string{}
					switch {
					case resp.Err != nil:
						for _, l := range leases {
							perLease[l] = "open"
						}
					case resp.Status == 204 || resp.Status == 200:
						for _, l := range leases {
							perLease[l] = "acked"
						}
					case resp.Status == 409 && len(leases) > 1:
						var out struct {
							Conflicts []struct {
								LeaseID string `json:"lease_id"`
							} `json:"conflicts"`
						}
						_ = json.Unmarshal(resp.Body, &out)
						conf := map[string]bool{}
						for _, c := range out.Conflicts {
							conf[c.LeaseID] = true
						}
						for _, l := range leases {
							if conf[l] {
								perLease[l] = "refused"
							} else {
								perLease[l] = "acked"
							}
						}
					default:
						for _, l := range leases {
							perLease[l] = "refused"
						}
					}
					led.mu.Lock()
					for _, l := range leases {
						if m := led.msgs[markers[l]]; m != nil {
							m.mu.Lock()
							m.Events = append(m.Events, ledgerEv{kind, perLease[l]})
							m.mu.Unlock()
						}
					}
					led.mu.Unlock()
				}
			}
		}(cl)
	}
	wg.Wait()
}

var c01DupSettles, c01StaleBatches, c01CutOffUploads atomic.Int64

// c01Audit compares the post-restart listing with the ledger.
func c01Audit(c *vlib.Ctx, label string, crash c01Crash, led *c01Ledger, msgs []l3.Message) {
	type key struct{ marker, target string }
	rows := map[key][]l3.Message{}
	for _, m := range msgs {
		b, _ := base64.StdEncoding.DecodeString(m.PayloadB64)
		mk := markerOf(b)
		if mk == "" {
			mk = m.Headers["X-Verif-Marker"]
		}
		rows[key{mk, m.Target}] = append(rows[key{mk, m.Target}], m)
	}
	viol := func(class, what string, extra map[string]string, wit any) {
		sig := vlib.Signature{"class": class, "crash": crash.Kind}
		if crash.Kind == "point" {
			sig["point"] = crash.Point
		}
		for k, v := range extra {
			sig[k] = v
		}
		c.Violation(sig, fmt.Sprintf("[%s, crash %s] %s", label, crash, what), wit)
	}
	led.mu.Lock()
	defer led.mu.Unlock()
	for k, rs := range rows {
		m := led.msgs[k.marker]
		if m == nil {
			viol("message_nobody_sent", fmt.Sprintf("a message with marker %q (target %s) exists after restart but was never sent", k.marker, k.target), nil, rs)
			continue
		}
		okTarget := false
		for _, t := range m.Targets {
			if t == k.target {
				okTarget = true
			}
		}
		if !okTarget {
			viol("message_on_wrong_target", fmt.Sprintf("marker %s stored for target %s which its route does not have", k.marker, k.target), nil, rs)
		}
		if len(rs) > 1 {
			viol("duplicate_after_restart", fmt.Sprintf("marker %s target %s exists %d times", k.marker, k.target, len(rs)), nil, rs)
		}
		for _, row := range rs {
			// "is offered for delivery again": nothing in this traffic asks for a delay
			// beyond one second (lease_ttl 1s, nack delay 0s, no scheduled publishes), so a
			// pull row that is not due within the next hour will not be offered (push targets
			// are rescheduled by the dispatcher's backoff)
			if k.target == "pull" && (row.State == "queued" || row.State == "leased") && row.NextRunAt.After(time.Now().Add(time.Hour)) {
				viol("not_due_for_redelivery", fmt.Sprintf("marker %s (%s) is %s after restart but scheduled for %s: it will not be offered again", k.marker, k.target, row.State, row.NextRunAt.UTC().Format(time.RFC3339)), nil, row)
			}
			b, _ := base64.StdEncoding.DecodeString(row.PayloadB64)
			if sha16(b) != m.SHA {
				viol("payload_differs_after_restart", fmt.Sprintf("marker %s: payload sha %s != sent %s (%d bytes)", k.marker, sha16(b), m.SHA, len(b)), nil, nil)
			}
			if m.Enq == "refused" {
				viol("refused_request_stored", fmt.Sprintf("marker %s was refused by the server but is stored", k.marker), nil, row)
			}
		}
	}
	for _, m := range led.msgs {
		c.Count("ledger_messages", 1)
		if m.Enq != "acked" {
			if m.Enq == "open" {
				c.Count("open_enqueues", 1)
			}
			continue
		}
		ackAcked, ackOpen, deadAcked, deadOpen := false, false, false, false
		for _, e := range m.Events {
			switch {
			case e.Kind == "ack" && e.Status == "acked":
				ackAcked = true
			case e.Kind == "ack" && e.Status == "open":
				ackOpen = true
			case e.Kind == "dead" && e.Status == "acked":
				deadAcked = true
			case e.Kind == "dead" && e.Status == "open":
				deadOpen = true
			}
		}
		for _, t := range m.Targets {
			rs := rows[key{m.Marker, t}]
			switch {
			case ackAcked:
				if len(rs) != 0 {
					viol("acknowledged_ack_undone", fmt.Sprintf("marker %s was acked (204) before the crash but is back after restart (state %s)", m.Marker, rs[0].State), nil, rs)
				}
			case ackOpen:
			case len(rs) == 0:
				viol("acknowledged_message_lost", fmt.Sprintf("marker %s target %s was acknowledged (%s) but is gone after restart", m.Marker, t, m.Route), map[string]string{"route_kind": routeKind(m.Route)}, m.Events)
			default:
				st := rs[0].State
				switch {
				case deadAcked && st != "dead":
					viol("acknowledged_dead_letter_undone", fmt.Sprintf("marker %s was dead-lettered (acknowledged) but is %s after restart", m.Marker, st), nil, rs)
				case !deadAcked && !deadOpen && st != "queued" && st != "leased":
					viol("unexpected_state_after_restart", fmt.Sprintf("marker %s is %s after restart, expected queued or leased", m.Marker, st), nil, rs)
				}
			}
		}
	}
}

func routeKind(r string) string {
	if r == "/fan" {
		return "fanout"
	}
	return "pull"
}

// c01DropOldest: the acknowledgement of a publish under drop_oldest at a full
// queue. One sequential client, so between an acknowledgement and the SIGKILL
// that follows it no other enqueue can have evicted anything: every item of a
// batch answered 200 must be listed after the restart, a batch answered 503
// must have left nothing. Situations: item older than everything queued,
// every active message leased, batch larger than the room eviction can make.
func c01DropOldest(c *vlib.Ctx, root string) {
	const depth = 6
	cfg := c01Config + fmt.Sprintf("queue_limits { max_depth %d\n drop_policy drop_oldest }\n", depth)
	type sit struct {
		name    string
		leased  int // messages leased before the publish
		items   int
		oldItem bool
	}
	sits := []sit{{"item_older_than_queue", 0, 1, true}, {"all_active_leased", depth, 1, false}, {"all_active_leased_batch", depth, 3, false}, {"batch_larger_than_room", depth - 2, 4, false},
		{"batch_larger_than_depth", 0, depth + 3, false}, {"plain_full_queue", 0, 2, false}, {"old_item_all_leased", depth, 2, true}}
	parallel(len(sits), 4, func(i int) {
		k := sits[i]
		dir := filepath.Join(root, "dropoldest-"+k.name)
		defer os.RemoveAll(dir)
		p, err := l3.New(dir, cfg)
		if err != nil {
			c.Inconclusive("C01 drop_oldest: " + err.Error())
			return
		}
		env := []string{"VERIF_SQLITE_CHECKPOINT_INTERVAL=40ms"}
		if err := p.StartHealthy(l3.StartOpts{Env: env}, 60*time.Second); err != nil {
			c.Inconclusive("C01 drop_oldest: start: " + err.Error())
			p.Kill()
			return
		}
		for n := 0; n < depth; n++ {
			p.Ingress("/p1", []byte(fmt.Sprintf("mk:fill%d:", n)), nil)
		}
		if k.leased > 0 {
			p.Pull("/pull/p1/dequeue", map[string]any{"batch": k.leased, "lease_ttl": "10m"}, "tok")
		}
		var items []map[string]any
		var ids []string
		for n := 0; n < k.items; n++ {
			id := fmt.Sprintf("do-%s-%d", k.name, n)
			it := map[string]any{"id": id, "route": "/p1", "payload_b64": base64.StdEncoding.EncodeToString([]byte("mk:" + id + ":"))}
			if k.oldItem {
				it["received_at"] = time.Now().Add(-48 * time.Hour).UTC().Format(time.RFC3339Nano)
			}
			items = append(items, it)
			ids = append(ids, id)
		}
		resp := p.Admin("POST", "/messages/publish", map[string]any{"items": items})
		p.Kill()
		if resp.Err != nil && resp.Status == 0 {
			c.Inconclusive("C01 drop_oldest: publish got no answer: " + resp.Err.Error())
			return
		}
		if err := p.StartHealthy(l3.StartOpts{Env: env}, 60*time.Second); err != nil {
			if p.Exited() {
				c.Violation(vlib.Signature{"class": "restart_failed", "crash": "external"}, fmt.Sprintf("[drop_oldest %s] the process does not come up after the kill: %v", k.name, err), nil)
			}
			p.Kill()
			return
		}
		msgs, lerr := p.ListAll()
		p.Stop()
		if !p.Exited() {
			p.Kill()
		}
		if lerr != nil {
			c.Inconclusive("C01 drop_oldest: listing: " + lerr.Error())
			return
		}
		have := map[string]int{}
		for _, m := range msgs {
			have[m.ID]++
		}
		c.Count("evaluations", 1)
		c.Count("drop_oldest_publish_trials", 1)
		c.Distinct("nontrivial", fmt.Sprintf("drop_oldest:%s:status=%d", k.name, resp.Status))
		wit := map[string]any{"situation": k.name, "status": resp.Status, "response": string(resp.Body), "listed_after_restart": len(msgs)}
		for _, id := range ids {
			switch {
			case resp.Status == 200 && have[id] != 1:
				c.Violation(vlib.Signature{"class": "acked_message_lost", "route": "publish", "crash": "external", "situation": "drop_oldest"},
					fmt.Sprintf("[drop_oldest %s] publish answered 200 for %s but it is listed %d times after kill and restart (no other enqueue happened in between)", k.name, id, have[id]), wit)
			case resp.Status != 200 && have[id] != 0:
				c.Violation(vlib.Signature{"class": "refused_publish_stored", "crash": "external", "situation": "drop_oldest"},
					fmt.Sprintf("[drop_oldest %s] publish answered %d but %s is in the queue after restart", k.name, resp.Status, id), wit)
			}
		}
	})
}

// c01StartupCrashes enumerates the crash points of a first start completely:
// on a fresh database the process is killed at the h-th occurrence of each
// store-level point for h = 1, 2, ... until a start gets healthy without the
// point having fired (schema creation, migrations, first checkpoint). After
// each kill a restart without armed points must come up on that database,
// accept a message with 202 and list it; the same database is then killed and
// restarted once more at the same point (crash during the recovery start).
func c01StartupCrashes(c *vlib.Ctx, root string) {
	points := []string{"sqlite.commit.before", "sqlite.commit.after", "sqlite.checkpoint.before", "sqlite.checkpoint.after"}
	type job struct {
		point string
		hit   int
	}
	for _, pt := range points {
		exhausted := false
		for base := 1; base <= 24 && !exhausted; base += 4 {
			var mu sync.Mutex
			parallel(4, 4, func(k int) {
				h := base + k
				dir := filepath.Join(root, fmt.Sprintf("startup-%s-%d", strings.ReplaceAll(pt, ".", "_"), h))
				defer os.RemoveAll(dir)
				p, err := l3.New(dir, c01Config)
				if err != nil {
					c.Inconclusive("C01 startup: " + err.Error())
					return
				}
				killLog := filepath.Join(dir, "kill.log")
				env := []string{"VERIF_SQLITE_CHECKPOINT_INTERVAL=40ms", fmt.Sprintf("VERIF_POINTS=%s=kill@%d", pt, h), "VERIF_POINTS_LOG=" + killLog}
				err = p.StartHealthy(l3.StartOpts{Env: env}, 60*time.Second)
				if err == nil {
					// healthy with the point still armed: the first start has fewer than h occurrences
					p.Kill()
					mu.Lock()
					exhausted = true
					mu.Unlock()
					return
				}
				if _, rerr := os.ReadFile(killLog); rerr != nil || !p.Exited() {
					c.Inconclusive(fmt.Sprintf("C01 startup: start with %s@%d neither healthy nor killed: %v", pt, h, err))
					p.Kill()
					return
				}
				c.Count("evaluations", 1)
				c.Count("startup_crash_points", 1)
				c.Distinct("nontrivial", fmt.Sprintf("startup_kill:%s@%d", pt, h))
				c.Distinct("points_killed_at", pt)
				for round := 0; round < 2; round++ {
					if err := p.StartHealthy(l3.StartOpts{Env: []string{"VERIF_SQLITE_CHECKPOINT_INTERVAL=40ms"}}, 60*time.Second); err != nil {
						if p.Exited() {
							c.Violation(vlib.Signature{"class": "restart_failed", "crash": "startup"}, fmt.Sprintf("the process does not come up on the database left by a kill at %s@%d during the first start (round %d): %v", pt, h, round, err),
								map[string]any{"point": pt, "hit": h, "stderr_tail": p.LogTail(20)})
						} else {
							c.Inconclusive("C01 startup: restart not healthy within 60s: " + err.Error())
						}
						p.Kill()
						return
					}
					mk := fmt.Sprintf("st%dr%d", h, round)
					resp := p.Ingress("/p1", []byte("mk:"+mk+":"), map[string]string{"X-Verif-Marker": mk})
					if resp.Status != 202 {
						c.Violation(vlib.Signature{"class": "restart_refuses_traffic", "crash": "startup"}, fmt.Sprintf("after a kill at %s@%d during the first start the restarted process answers %d to a valid request", pt, h, resp.Status), nil)
					}
					p.Kill()
					// crash once more, now during a start on the existing database
					if round == 0 {
						_ = os.Remove(killLog)
						if err := p.StartHealthy(l3.StartOpts{Env: env}, 60*time.Second); err == nil {
							p.Kill()
						}
					}
				}
				// final clean start: both acknowledged markers must be there
				if err := p.StartHealthy(l3.StartOpts{Env: []string{"VERIF_SQLITE_CHECKPOINT_INTERVAL=40ms"}}, 60*time.Second); err != nil {
					if p.Exited() {
						c.Violation(vlib.Signature{"class": "restart_failed", "crash": "startup"}, fmt.Sprintf("the process does not come up after repeated kills at %s@%d: %v", pt, h, err), nil)
					}
					p.Kill()
					return
				}
				msgs, lerr := p.ListAll()
				if lerr == nil {
					have := map[string]bool{}
					for _, m := range msgs {
						have[m.Headers["X-Verif-Marker"]] = true
					}
					for round := 0; round < 2; round++ {
						if mk := fmt.Sprintf("st%dr%d", h, round); !have[mk] {
							c.Violation(vlib.Signature{"class": "acked_message_lost", "route": "pull", "crash": "startup"}, fmt.Sprintf("marker %s was acknowledged with 202 but is gone after kills at %s@%d", mk, pt, h), nil)
						}
					}
				}
				p.Stop()
				if !p.Exited() {
					p.Kill()
				}
			})
		}
	}
}

// c01Trial: start, traffic, crash, restart, audit, drain; up to `gens` generations on one database.
func c01Trial(c *vlib.Ctx, root string, idx int, crashes []c01Crash) {
	r := vlib.Derive(c.Seed, "C01", idx)
	dir := filepath.Join(root, fmt.Sprintf("t%d", idx))
	defer os.RemoveAll(dir)
	cfgText := c01Config
	if idx%2 == 1 {
		// a pruner that runs every second with limits far beyond the trial's
		// lifetime: nothing acknowledged here may ever be pruned
		cfgText += "queue_retention { max_age 1h\n prune_interval 1s }\ndlq_retention { max_age 1h\n max_depth 100000 }\n"
		c.Distinct("nontrivial", "config:retention_1h_prune_1s")
	}
	p, err := l3.New(dir, cfgText)
	if err != nil {
		c.Inconclusive("C01: " + err.Error())
		return
	}
	led := &c01Ledger{msgs: map[string]*ledgerMsg{}, lease: map[string]string{}}
	label := fmt.Sprintf("trial%d", idx)
	for gen, crash := range crashes {
		if crash.Kind == "none" {
			continue
		}
		env := []string{"VERIF_SQLITE_CHECKPOINT_INTERVAL=40ms"}
		killLog := filepath.Join(dir, fmt.Sprintf("kill%d.log", gen))
		if crash.Kind == "point" {
			pts := fmt.Sprintf("%s=kill@%d", crash.Point, crash.Hit)
			switch crash.Point {
			case "sqlite.commit.before", "sqlite.commit.after", "pull.ack.before_reply", "pull.nack.before_reply":
				// keep every lease mutation open for a while before its commit, so that
				// a racing duplicate of the same request is answered inside that window
				pts += ",sqlite.lease.after_mutate=sleep:6ms@*"
			}
			env = append(env, "VERIF_POINTS="+pts, "VERIF_POINTS_LOG="+killLog)
		}
		startupKill := false
		if err := p.StartHealthy(l3.StartOpts{Env: env}, 60*time.Second); err != nil {
			if b, rerr := os.ReadFile(killLog); rerr == nil && crash.Kind == "point" && p.Exited() {
				// the armed point fired while the process was still starting (schema
				// migration, first checkpoint): a crash point like any other
				c.Count("killed_during_startup", 1)
				c.Distinct("nontrivial", "killed_during_startup:"+crash.Point)
				c.Distinct("points_killed_at", strings.Split(strings.TrimSpace(string(b)), "@")[0])
				startupKill = true
			} else {
				c.Inconclusive("C01: start with armed point not healthy: " + err.Error())
				p.Kill()
				return
			}
		}
		if !startupKill {
			c01Traffic(p, r, led, gen, crash, 30)
			// give an armed point the chance to fire on background work (checkpoint), then make sure the process is dead
			if crash.Kind == "point" && !p.Exited() {
				p.WaitExit(300 * time.Millisecond)
			}
			killedAt := ""
			if b, err := os.ReadFile(killLog); err == nil {
				killedAt = strings.TrimSpace(string(b))
			}
			if p.Exited() && killedAt != "" {
				c.Count("killed_at_point", 1)
				c.Distinct("nontrivial", "killed:"+crash.Point+hitClass(crash.Hit))
				c.Distinct("points_killed_at", crash.Point)
			} else if crash.Kind == "point" {
				c.Count("point_not_reached", 1)
				c.Distinct("nontrivial", "external_fallback:"+crash.Point)
			} else {
				c.Distinct("nontrivial", fmt.Sprintf("external:after%d", crash.After/10*10))
			}
			p.Kill()
		}
		// everything still in flight is open; held leases of this generation are forgotten
		led.mu.Lock()
		led.stale = append(led.stale, led.held...)
		if len(led.stale) > 400 {
			led.stale = led.stale[len(led.stale)-400:]
		}
		led.held = nil
		led.mu.Unlock()

		// restart WITHOUT armed points on the same database and audit
		if err := p.StartHealthy(l3.StartOpts{Env: []string{"VERIF_SQLITE_CHECKPOINT_INTERVAL=40ms"}}, 60*time.Second); err != nil {
			if p.Exited() {
				c.Violation(vlib.Signature{"class": "restart_failed", "crash": crash.Kind}, fmt.Sprintf("[%s] the process does not come up on the database left by crash %s: %v", label, crash, err), nil)
			} else {
				c.Inconclusive("C01: restart not healthy within 60s: " + err.Error())
			}
			p.Kill()
			return
		}
		msgs, err := p.ListAll()
		if err != nil {
			c.Inconclusive("C01 listing: " + err.Error())
			p.Kill()
			return
		}
		c01Audit(c, label, crash, led, msgs)
		c01Drain(c, p, label, crash, led, msgs)
		if idx < 3 {
			led.mu.Lock()
			acked, open := 0, 0
			for _, m := range led.msgs {
				switch m.Enq {
				case "acked":
					acked++
				case "open":
					open++
				}
			}
			led.mu.Unlock()
			byState := map[string]int{}
			for _, m := range msgs {
				byState[m.State]++
			}
			c.Sample(map[string]any{"trial": label, "generation": gen, "crash": crash.String(), "ledger_acknowledged_enqueues": acked, "ledger_open_enqueues": open, "rows_after_restart_by_state": byState})
		}
		c.Count("evaluations", 1)
		c.Count("restart_audits", 1)
		c.Count("messages_audited", int64(len(msgs)))
		// graceful stop between generations (in-flight leases of the drain expire in the next one)
		p.Stop()
		led.mu.Lock()
		led.stale = append(led.stale, led.held...)
		if len(led.stale) > 400 {
			led.stale = led.stale[len(led.stale)-400:]
		}
		led.held = nil
		led.mu.Unlock()
	}
}

func hitClass(n int) string {
	switch {
	case n <= 1:
		return "@1"
	case n <= 3:
		return "@2-3"
	case n <= 8:
		return "@4-8"
	}
	return "@9+"
}

// c01Drain: every message that must still be deliverable is offered again.
func c01Drain(c *vlib.Ctx, p *l3.Proc, label string, crash c01Crash, led *c01Ledger, msgs []l3.Message) {
	want := map[string]bool{}
	for _, m := range msgs {
		if m.Target == "pull" && (m.State == "queued" || m.State == "leased") {
			b, _ := base64.StdEncoding.DecodeString(m.PayloadB64)
			if mk := markerOf(b); mk != "" {
				want[mk] = true
			}
		}
	}
	if len(want) == 0 {
		return
	}
	deadline := time.Now().Add(25 * time.Second)
	lastProblem := ""
	for time.Now().Before(deadline) && len(want) > 0 {
		got := 0
		for _, route := range []string{"p1", "p2"} {
			resp := p.Pull("/pull/"+route+"/dequeue", map[string]any{"batch": 100, "lease_ttl": "1s"}, "tok")
			if resp.Err != nil || resp.Status != 200 {
				lastProblem = fmt.Sprintf("dequeue %s: status %d err %v %s", route, resp.Status, resp.Err, string(resp.Body))
				continue
			}
			var out struct {
				Items []struct {
					LeaseID    string `json:"lease_id"`
					PayloadB64 string `json:"payload_b64"`
				} `json:"items"`
			}
			_ = json.Unmarshal(resp.Body, &out)
			for _, it := range out.Items {
				b, _ := base64.StdEncoding.DecodeString(it.PayloadB64)
				mk := markerOf(b)
				delete(want, mk)
				got++
				led.mu.Lock()
				led.lease[it.LeaseID] = mk
				led.held = append(led.held, it.LeaseID)
				led.mu.Unlock()
			}
		}
		if got == 0 {
			time.Sleep(50 * time.Millisecond)
		}
	}
	c.Count("drain_rounds", 1)
	if len(want) > 0 {
		var left []string
		for k := range want {
			left = append(left, k)
		}
		sort.Strings(left)
		// the wall-clock watchdog fired: the virtual-time version of this clause is decided in C05
		c.Inconclusive(fmt.Sprintf("[%s, crash %s] %d messages were not offered again within 25s (first: %s; last problem: %s; exited=%v)", label, crash, len(left), left[0], lastProblem, p.Exited()))
	}
}

// C01: an acknowledged message is durable.
func C01(c *vlib.Ctx) {
	c.Rule("the real binary (verif hooks, WAL checkpoint every 40ms) runs on loopback with SQLite on disk; 4 concurrent clients send a seeded mix of ingress single/fan-out requests, publish batches of 1-20, uploads cut off after 0 / 1 / half / all-but-one of the announced body bytes (half-closed or dropped), dequeues and single/batch ack/nack/dead-letter calls, writing a ledger entry before each request and the status after the reply; the process is killed (SIGKILL from inside at a named point x hit index, or from outside at a seeded operation index), restarted on the same database (3 generations per database in a third of the trials) and audited through the Admin listing: acknowledged and not acked-away => exactly one row per target with the same payload sha256; acknowledged ack/dead-letter not undone; open request => zero or one row per target; nothing nobody sent; no duplicates; restart succeeds; no pull row scheduled more than an hour ahead (the traffic never asks for more than a second); then every deliverable message is offered again through the Pull API. distinct_nontrivial = distinct (crash point x hit class | external op-index decade) classes actually reached.")
	c.Assume("process death (SIGKILL), not power loss: the page cache survives; the ordering of fsync before the acknowledgement is checked separately by the strace trace specification in the thorough tier")
	c.Assume("identity is by marker (ids are server-generated); batch atomicity under a crash is not demanded for an unacknowledged publish")
	root := filepath.Join(vlib.VerifRoot(), ".run", fmt.Sprintf("c01.%d", os.Getpid()))
	_ = os.MkdirAll(root, 0o755)
	defer os.RemoveAll(root)
	if _, err := os.Stat(l3.Bin()); err != nil {
		c.Inconclusive("product binary missing: " + l3.Bin())
		return
	}
	defer c01BusyWriter(c, root)() // starts now, overlaps with everything below, is awaited when C01 returns
	n := c.N(48, 1200)
	if os.Getenv("VERIF_C01_STRACE") != "" {
		n = 2
	}
	type job struct {
		idx     int
		crashes []c01Crash
	}
	var jobs []job
	hits := []int{1, 2, 3, 5, 8, 13, 21}
	for i := 0; i < n; i++ {
		r := vlib.Derive(c.Seed, "C01plan", i)
		mk := func() c01Crash {
			if r.Chance(0.7) {
				return c01Crash{Kind: "point", Point: c01Points[(i+r.Intn(3))%len(c01Points)], Hit: vlib.Pick(r, hits)}
			}
			return c01Crash{Kind: "external", After: r.Range(5, 110)}
		}
		crashes := []c01Crash{mk()}
		if i%3 == 0 {
			crashes = append(crashes, mk(), mk())
		}
		crashes = append(crashes, c01Crash{Kind: "none"})
		jobs = append(jobs, job{i, crashes})
	}
	parallel(len(jobs), 8, func(k int) { c01Trial(c, root, jobs[k].idx, jobs[k].crashes) })
	c01StartupCrashes(c, root)
	c01DropOldest(c, root)
	c.Set("duplicate_settle_races", c01DupSettles.Load())
	c.Set("all_conflict_batches", c01StaleBatches.Load())
	c.Set("cut_off_uploads", c01CutOffUploads.Load())
	c01Strace(c, root)
	if c.Counter("restart_audits") == 0 {
		c.Inconclusive("C01: no restart audit completed")
	}
}
