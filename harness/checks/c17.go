package checks

import (
	"context"
	"crypto/hmac"
	"crypto/sha256"
	"encoding/hex"
	"fmt"
	"io"
	"net/http"
	"net/http/httptest"
	"os"
	"path/filepath"
	"sort"
	"strconv"
	"strings"
	"sync"
	"time"

	"github.com/nuetzliches/hookaido/internal/app"
	"github.com/nuetzliches/hookaido/internal/config"
	"github.com/nuetzliches/hookaido/internal/dispatcher"
	"github.com/nuetzliches/hookaido/verifharness/l2"
	"github.com/nuetzliches/hookaido/verifharness/vlib"
)

type secVer struct {
	ID       string
	Ref      string // as written in the config
	Value    string // "" = cannot be loaded
	From     time.Time
	Until    time.Time
	HasUntil bool
}

func (v secVer) validAt(t time.Time) bool {
	if t.Before(v.From) {
		return false
	}
	return !v.HasUntil || t.Before(v.Until)
}

// selectVersion is the independent selection rule: newest/oldest valid_from
// among the versions valid at t, ties by (smallest) id.
func selectVersion(vs []secVer, mode string, t time.Time) (secVer, bool) {
	var valid []secVer
	for _, v := range vs {
		if v.validAt(t) {
			valid = append(valid, v)
		}
	}
	if len(valid) == 0 {
		return secVer{}, false
	}
	sort.Slice(valid, func(i, j int) bool {
		if !valid[i].From.Equal(valid[j].From) {
			if mode == "oldest_valid" {
				return valid[i].From.Before(valid[j].From)
			}
			return valid[i].From.After(valid[j].From)
		}
		return valid[i].ID < valid[j].ID
	})
	return valid[0], true
}

func signOutbound(secret, method, escapedPath, ts string, body []byte) string {
	h := sha256.Sum256(body)
	mac := hmac.New(sha256.New, []byte(secret))
	mac.Write([]byte(strings.ToUpper(method) + "\n" + escapedPath + "\n" + ts + "\n" + hex.EncodeToString(h[:])))
	return hex.EncodeToString(mac.Sum(nil))
}

func signInbound(secret, method, path, ts string, body []byte) string {
	h := sha256.Sum256(body)
	mac := hmac.New(sha256.New, []byte(secret))
	mac.Write([]byte(ts + "\n" + method + "\n" + path + "\n" + hex.EncodeToString(h[:])))
	return hex.EncodeToString(mac.Sum(nil))
}

type received struct {
	Method string
	URI    string
	Header http.Header
	Body   []byte
}

var c17T0 = time.Date(2026, 3, 1, 12, 0, 0, 0, time.UTC)

func genVersions(r *vlib.Rand, dir string, envPrefix string) []secVer {
	n := r.Range(1, 5)
	offsets := []time.Duration{-48 * time.Hour, -2 * time.Hour, -time.Hour, 0, time.Hour, 2 * time.Hour, 48 * time.Hour}
	var vs []secVer
	for i := 0; i < n; i++ {
		v := secVer{ID: fmt.Sprintf("k%d", r.Range(1, 9)), From: c17T0.Add(vlib.Pick(r, offsets))}
		dup := false
		for _, o := range vs {
			if o.ID == v.ID {
				dup = true
			}
		}
		if dup {
			continue
		}
		if r.Chance(0.6) {
			v.HasUntil = true
			v.Until = v.From.Add(vlib.Pick(r, []time.Duration{time.Second, time.Hour, 2 * time.Hour, 3 * time.Hour, 96 * time.Hour}))
		}
		// window bounds inside a second (the language takes RFC 3339 with fractions)
		fracs := []time.Duration{time.Nanosecond, 250 * time.Millisecond, 500 * time.Millisecond, 999999999 * time.Nanosecond}
		if r.Chance(0.3) {
			v.From = v.From.Add(vlib.Pick(r, fracs))
		}
		if v.HasUntil && r.Chance(0.3) {
			v.Until = v.Until.Add(vlib.Pick(r, fracs))
		}
		val := fmt.Sprintf("secret-%s-%x", v.ID, r.U64())
		switch r.Intn(10) {
		case 0:
			name := fmt.Sprintf("%s_%s", envPrefix, strings.ToUpper(v.ID))
			os.Setenv(name, val)
			v.Ref, v.Value = "env:"+name, val
		case 1:
			name := fmt.Sprintf("%s_%s_UNSET", envPrefix, strings.ToUpper(v.ID))
			os.Unsetenv(name)
			v.Ref, v.Value = "env:"+name, ""
		case 2:
			p := filepath.Join(dir, fmt.Sprintf("sec-%s-%x", v.ID, r.U64()))
			_ = os.WriteFile(p, []byte(val+"\n"), 0o600)
			v.Ref, v.Value = "file:"+p, val
		case 3:
			v.Ref, v.Value = "file:"+filepath.Join(dir, "missing-"+v.ID), ""
		default:
			v.Ref, v.Value = "raw:"+val, val
		}
		vs = append(vs, v)
	}
	return vs
}

func boundaryInstants(vs []secVer) []time.Time {
	ts := []time.Time{c17T0.Add(-1000 * time.Hour), c17T0.Add(1000 * time.Hour), c17T0}
	for _, v := range vs {
		ts = append(ts, v.From.Add(-time.Second), v.From, v.From.Add(time.Second), v.From.Add(500*time.Millisecond), v.From.Add(-time.Nanosecond))
		if t := v.From.Truncate(time.Second); !t.Equal(v.From) {
			ts = append(ts, t, t.Add(time.Second))
		}
		if v.HasUntil {
			ts = append(ts, v.Until.Add(-time.Second), v.Until, v.Until.Add(time.Second), v.Until.Add(-time.Nanosecond))
			if t := v.Until.Truncate(time.Second); !t.Equal(v.Until) {
				ts = append(ts, t, t.Add(time.Second))
			}
		}
	}
	return ts
}

func secretsBlock(vs []secVer) string {
	var b strings.Builder
	b.WriteString("secrets {\n")
	for _, v := range vs {
		fmt.Fprintf(&b, " secret %q {\n  value %s\n  valid_from %q\n", v.ID, l2.Quote(v.Ref), v.From.Format(time.RFC3339Nano))
		if v.HasUntil {
			fmt.Fprintf(&b, "  valid_until %q\n", v.Until.Format(time.RFC3339Nano))
		}
		b.WriteString(" }\n")
	}
	b.WriteString("}\n")
	return b.String()
}

var c17Paths = []string{"/hook", "", "/", "/a%2Fb", "/a b", "/ä/ö", "/a/../b", "/x?y=1&z=%20", "/p;v=1", "/%41", "//double", "/trailing/", "/q?", "/plus+sign", "/semi%3Bcolon"}

func c17Outbound(c *vlib.Ctx) {
	dir := c.Scratch()
	var mu sync.Mutex
	var got []received
	srv := httptest.NewServer(http.HandlerFunc(func(w http.ResponseWriter, r *http.Request) {
		b, _ := io.ReadAll(r.Body)
		mu.Lock()
		got = append(got, received{r.Method, r.RequestURI, r.Header.Clone(), b})
		mu.Unlock()
		w.WriteHeader(204)
	}))
	defer srv.Close()
	n := c.N(3000, 240000)
	for i := 0; i < n; i++ {
		r := vlib.Derive(c.Seed, "C17out", i)
		vs := genVersions(r, dir, fmt.Sprintf("VERIF_C17_%d", i%50))
		mode := vlib.Pick(r, []string{"", "newest_valid", "oldest_valid"})
		inline := r.Chance(0.15)
		sigH, tsH := "", ""
		if r.Chance(0.4) {
			sigH, tsH = vlib.Pick(r, []string{"X-Webhook-Signature", "x-sig", "Signature"}), vlib.Pick(r, []string{"X-Webhook-Timestamp", "x-ts", "Date-Signed"})
		}
		path := vlib.Pick(r, c17Paths)
		target := srv.URL + path
		var sign []string
		if inline {
			sign = append(sign, " sign hmac "+l2.Quote(vs[0].Ref))
		} else {
			for _, v := range vs {
				sign = append(sign, fmt.Sprintf(" sign hmac secret_ref %q", v.ID))
			}
			if mode != "" {
				sign = append(sign, " sign secret_selection "+mode)
			}
		}
		if sigH != "" {
			sign = append(sign, fmt.Sprintf(" sign signature_header %q", sigH), fmt.Sprintf(" sign timestamp_header %q", tsH))
		}
		txt := "defaults { egress { https_only off\n dns_rebind_protection off } }\n" + secretsBlock(vs) +
			fmt.Sprintf("/out { deliver %s {\n%s\n } }\n", l2.Quote(target), strings.Join(sign, "\n"))
		cfg, err := config.Parse([]byte(txt))
		if err != nil {
			c.Inconclusive("C17 config does not parse: " + err.Error() + "\n" + txt)
			return
		}
		compiled, res := config.Compile(cfg)
		if !res.OK {
			// e.g. two versions with identical windows may be refused; not this property's business
			c.Count("configs_refused_by_compile", 1)
			continue
		}
		routes := app.VerifDispatchRoutes(compiled)
		if len(routes) != 1 || len(routes[0].Targets) != 1 || routes[0].Targets[0].SignHMAC == nil {
			c.Inconclusive("C17: compiled config has no signing target\n" + txt)
			return
		}
		tc := routes[0].Targets[0]
		if sigH == "" {
			sigH, tsH = tc.SignHMAC.SignatureHeader, tc.SignHMAC.TimestampHeader
		}
		// every other configuration keeps ONE deliverer for all its deliveries, as the running
		// process does, and its clock only moves forward: whatever a deliverer remembers from
		// earlier deliveries (a version picked while it was the only valid one, a loaded secret)
		// must not decide a later one
		instants := boundaryInstants(vs)
		var shared *dispatcher.HTTPDeliverer
		var sharedNow time.Time
		if i%2 == 1 {
			sort.Slice(instants, func(a, b int) bool { return instants[a].Before(instants[b]) })
			shared = dispatcher.NewHTTPDeliverer(&http.Client{}, dispatcher.EgressPolicy{})
			shared.Now = func() time.Time { return sharedNow }
		}
		for _, now := range instants {
			if !r.Chance(0.5) {
				continue
			}
			now := now
			body := r.Bytes(vlib.Pick(r, []int{0, 1, 17, 300}))
			method := vlib.Pick(r, []string{"POST", "POST", "", "PUT", "post"})
			d := shared
			if d == nil {
				d = dispatcher.NewHTTPDeliverer(&http.Client{}, dispatcher.EgressPolicy{})
				d.Now = func() time.Time { return now }
			} else {
				sharedNow = now
				c.Count("deliveries_through_a_long_lived_deliverer", 1)
			}
			mu.Lock()
			got = got[:0]
			mu.Unlock()
			ctx, cancel := context.WithTimeout(context.Background(), 5*time.Second)
			// the stored event may itself carry headers named like the signing headers
			// (a chained gateway, or inbound and outbound HMAC with the same names):
			// the receiver must still find exactly the gateway's values
			evHdr := http.Header{"X-Orig": {"1"}}
			collide := r.Chance(0.35)
			if collide {
				if r.Bool() {
					evHdr.Set(sigH, "00stale-signature-from-the-event")
				}
				if r.Bool() || len(evHdr) == 1 {
					evHdr.Set(tsH, "1500000000")
				}
				c.Count("deliveries_with_colliding_event_headers", 1)
			}
			result := d.Deliver(ctx, dispatcher.Delivery{ID: "m", Method: method, URL: tc.URL, Body: body, Sign: tc.SignHMAC, Header: evHdr})
			cancel()
			mu.Lock()
			reqs := append([]received(nil), got...)
			mu.Unlock()
			c.Count("evaluations", 1)
			var want secVer
			ok := false
			if inline {
				want, ok = vs[0], true
			} else {
				m := mode
				if m == "" {
					m = "newest_valid"
				}
				want, ok = selectVersion(vs, m, now)
			}
			wit := map[string]any{"config": txt, "now": now.Format(time.RFC3339Nano), "method": method, "body_len": len(body)}
			cls := "no_valid_version"
			if ok {
				cls = "unloadable_secret"
			}
			if !ok || want.Value == "" {
				c.Distinct("nontrivial", "nothing_sent:"+cls)
				if len(reqs) != 0 || result.Err == nil {
					c.Violation(vlib.Signature{"class": "sent_without_valid_secret", "why": cls},
						fmt.Sprintf("no usable signing secret at %s (%s) but %d request(s) were sent (err=%v)", now.Format(time.RFC3339Nano), cls, len(reqs), result.Err), wit)
				}
				continue
			}
			if len(reqs) != 1 {
				c.Violation(vlib.Signature{"class": "signed_request_not_sent"}, fmt.Sprintf("version %s is valid at %s but %d requests arrived (err=%v)", want.ID, now.Format(time.RFC3339Nano), len(reqs), result.Err), wit)
				continue
			}
			rq := reqs[0]
			escPath := rq.URI
			if k := strings.IndexByte(escPath, '?'); k >= 0 {
				escPath = escPath[:k]
			}
			ts := strconv.FormatInt(now.Unix(), 10)
			gotTS, gotSig := rq.Header.Get(tsH), rq.Header.Get(sigH)
			wantSig := signOutbound(want.Value, rq.Method, escPath, ts, rq.Body)
			c.Distinct("nontrivial", fmt.Sprintf("signed:%s:mode=%s:versions=%d:inline=%v", pathClass(path), mode, len(vs), inline))
			if nt, ns := len(rq.Header.Values(tsH)), len(rq.Header.Values(sigH)); nt != 1 || ns != 1 {
				c.Violation(vlib.Signature{"class": "signing_header_not_single_valued", "collision": fmt.Sprint(collide)},
					fmt.Sprintf("the request carries %d values of %s and %d of %s (event headers collided: %v): %q / %q", nt, tsH, ns, sigH, collide, rq.Header.Values(tsH), rq.Header.Values(sigH)), wit)
			}
			if gotTS != ts {
				c.Violation(vlib.Signature{"class": "timestamp_header_wrong"}, fmt.Sprintf("timestamp header %q = %q, expected %s", tsH, gotTS, ts), wit)
			}
			if gotSig != wantSig {
				// which version would explain it?
				explain := "none"
				for _, v := range vs {
					if v.Value != "" && signOutbound(v.Value, rq.Method, escPath, gotTS, rq.Body) == gotSig {
						explain = "version " + v.ID
					}
				}
				c.Violation(vlib.Signature{"class": "signature_mismatch", "explained_by": map[bool]string{true: "other_version", false: "nothing"}[explain != "none"]},
					fmt.Sprintf("signature over the request as received (%s %s, %d byte body) is not the one of version %s; explained by: %s", rq.Method, escPath, len(rq.Body), want.ID, explain), wit)
			}
			if !bytesEq(rq.Body, body) {
				c.Violation(vlib.Signature{"class": "body_altered"}, "body received differs from the body handed to the deliverer", wit)
			}
			if i < 3 {
				c.Sample(map[string]any{"config": txt, "now": now.Format(time.RFC3339), "received": fmt.Sprintf("%s %s %s=%s %s=%s", rq.Method, rq.URI, tsH, gotTS, sigH, gotSig), "selected": want.ID})
			}
		}
	}
}

func pathClass(p string) string {
	switch {
	case p == "":
		return "empty"
	case strings.Contains(p, "%"):
		return "escaped"
	case strings.Contains(p, "?"):
		return "query"
	case strings.ContainsAny(p, " äö+;"):
		return "special"
	}
	return "plain"
}

func bytesEq(a, b []byte) bool { return string(a) == string(b) }

// c17Inbound: inbound verification accepts exactly the secrets valid at the
// signed timestamp (through the production loadAuth wiring).
func c17Inbound(c *vlib.Ctx) {
	dir := c.Scratch()
	n := c.N(400, 30000)
	for i := 0; i < n; i++ {
		r := vlib.Derive(c.Seed, "C17in", i)
		vs := genVersions(r, dir, fmt.Sprintf("VERIF_C17I_%d", i%50))
		var usable []secVer
		for _, v := range vs {
			if v.Value != "" {
				usable = append(usable, v)
			}
		}
		if len(usable) == 0 {
			continue
		}
		vs = usable
		inlineSecret := ""
		var auth []string
		for _, v := range vs {
			auth = append(auth, fmt.Sprintf("  secret_ref %q", v.ID))
		}
		if r.Chance(0.3) {
			inlineSecret = fmt.Sprintf("inline-%x", r.U64())
			auth = append(auth, "  secret "+l2.Quote("raw:"+inlineSecret))
		}
		txt := "ingress { listen 127.0.0.1:0 }\npull_api { listen 127.0.0.2:0\n auth token raw:t }\nadmin_api { listen 127.0.0.3:0 }\n" + secretsBlock(vs) +
			"/in { queue { backend memory }\n auth hmac {\n" + strings.Join(auth, "\n") + "\n  tolerance 2000000h\n }\n pull { path /pull/in } }\n"
		clock := vlib.NewVClock(c17T0)
		a, err := l2.Start(dir, txt, nil, clock)
		if err != nil {
			c.Count("inbound_configs_refused", 1)
			if strings.Contains(err.Error(), "tolerance") {
				c.Inconclusive("C17 inbound config refused: " + err.Error())
				return
			}
			continue
		}
		nonce := 0
		for _, at := range boundaryInstants(vs) {
			ts := at.Unix() // signed timestamps are whole seconds
			signedAt := time.Unix(ts, 0).UTC()
			signers := append([]secVer{}, vs...)
			signers = append(signers, secVer{ID: "unknown", Value: "not-a-configured-secret"})
			if inlineSecret != "" {
				signers = append(signers, secVer{ID: "inline", Value: inlineSecret, From: time.Time{}})
			}
			for _, s := range signers {
				if !r.Chance(0.6) {
					continue
				}
				body := r.Bytes(r.Intn(40))
				nonce++
				req, _ := l2.NewRequest("POST", "/in", body, "")
				tsStr := strconv.FormatInt(ts, 10)
				req.Header.Set("X-Timestamp", tsStr)
				req.Header.Set("X-Nonce", fmt.Sprintf("n-%d-%d", i, nonce))
				req.Header.Set("X-Signature", signInbound(s.Value, "POST", "/in", tsStr, body))
				before, _ := vlib.ListAll(a.Store)
				resp := l2.Do(a.Ingress, req)
				after, _ := vlib.ListAll(a.Store)
				want := false
				switch s.ID {
				case "unknown":
				case "inline":
					want = true
				default:
					want = s.validAt(signedAt)
				}
				c.Count("evaluations", 1)
				c.Distinct("nontrivial", fmt.Sprintf("inbound:%s:valid=%v:status=%d", map[bool]string{true: "special", false: "version"}[s.ID == "unknown" || s.ID == "inline"], want, resp.Status))
				accepted := resp.Status == 202
				wit := map[string]any{"config": txt, "signed_ts": signedAt.Format(time.RFC3339), "signer": s.ID, "status": resp.Status}
				if accepted != (len(after) == len(before)+1) {
					c.Violation(vlib.Signature{"class": "status_effect_mismatch"}, fmt.Sprintf("status %d but queue grew by %d", resp.Status, len(after)-len(before)), wit)
				}
				if accepted && !want {
					c.Violation(vlib.Signature{"class": "inbound_accepts_invalid_secret", "signer": signerClass(s.ID)},
						fmt.Sprintf("request signed at %s with secret %s (window %s..%v) was accepted", signedAt.Format(time.RFC3339), s.ID, s.From.Format(time.RFC3339), s.Until), wit)
				}
				if !accepted && want {
					c.Violation(vlib.Signature{"class": "inbound_rejects_valid_secret", "signer": signerClass(s.ID)},
						fmt.Sprintf("request signed at %s with valid secret %s was rejected with %d", signedAt.Format(time.RFC3339), s.ID, resp.Status), wit)
				}
			}
		}
		a.Close()
	}
}

func signerClass(id string) string {
	if id == "unknown" || id == "inline" {
		return id
	}
	return "version"
}

// C17: HMAC signing and secret rotation windows.
func C17(c *vlib.Ctx) {
	c.Rule("outbound: generated secret-version sets (1-5 versions, overlapping/adjacent/identical windows, bounds with fractional seconds, raw/env/file refs incl. unloadable ones), both selection modes and inline secrets, custom header names, compiled by config.Compile and mapped as `run` does; the real HTTPDeliverer (injected Now at valid_from/valid_until -1s/0/+1s/-1ns and far outside) posts to a local server (a third of the deliveries carry event headers named like the configured signing headers, with stale values) and the signature is recomputed over the request as received (method, path from the request line, body bytes read) with the independently selected version; no valid/loadable version => zero requests. inbound: the production loadAuth wiring with tolerance 2000000h, requests signed with every version/unknown/inline secret at the window boundaries. distinct_nontrivial = distinct (path class, selection mode, version count, inline) and (signer class, validity, status) classes.")
	c.Assume("exact valid_from ties are broken by the smallest id (the ordering secrets.Set.ValidAt documents; the statement only says 'ties by id')")
	c17Outbound(c)
	c17Redirects(c)
	c17Inbound(c)
	deliverEdits(c)
}
