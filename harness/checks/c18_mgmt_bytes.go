package checks

import (
	"fmt"
	"os"
	"path/filepath"
	"strings"

	"github.com/nuetzliches/hookaido/verifharness/l2"
	"github.com/nuetzliches/hookaido/verifharness/vlib"
)

// c18MgmtRollbackBytes: a management mutation rewrites the file and then cannot
// finish (a secret of the file has become unloadable, so the reload fails). The
// previous content must be put back byte for byte, whatever line-end encoding
// the operator's file uses (LF, CRLF, a lone CR, BOM), and the process must keep
// deciding as before.
func c18MgmtRollbackBytes(c *vlib.Ctx) {
	dir := c.Scratch()
	lf := "ingress { listen 127.0.0.1:0 }\npull_api { listen 127.0.0.2:0\n auth token env:VERIF_C18_MGMT_TOK\n}\nadmin_api { listen 127.0.0.3:0 }\n" +
		"# managed endpoint, moved by the mutation\n/a { queue { backend memory }\n application app1\n endpoint_name ep1\n pull { path /pa } }\n/b { queue { backend memory }\n pull { path /pb } }\n" +
		"/c { queue { backend memory }\n pull { path /pc\n  auth token file:" + filepath.Join(dir, "c18-mgmt-secret") + " } }\n"
	encodings := []struct {
		name string
		enc  func(string) string
	}{
		{"lf", func(s string) string { return s }},
		{"crlf", func(s string) string { return strings.ReplaceAll(s, "\n", "\r\n") }},
		{"bom_crlf", func(s string) string { return "\xef\xbb\xbf" + strings.ReplaceAll(s, "\n", "\r\n") }},
		{"one_lone_cr", func(s string) string { return strings.Replace(s, "\n", "\r", 1) }},
		{"mixed", func(s string) string {
			parts := strings.Split(s, "\n")
			var b strings.Builder
			for i, p := range parts {
				b.WriteString(p)
				if i < len(parts)-1 {
					b.WriteString([]string{"\n", "\r\n"}[i%2])
				}
			}
			return b.String()
		}},
	}
	breaks := []struct {
		name  string
		apply func()
	}{
		{"env_secret_unset", func() { os.Unsetenv("VERIF_C18_MGMT_TOK") }},
		{"file_secret_removed", func() { _ = os.Remove(filepath.Join(dir, "c18-mgmt-secret")) }},
		{"nothing_broken", func() {}},
	}
	muts := []struct{ name, method, body string }{
		{"move_endpoint", "PUT", `{"route":"/b"}`},
		{"delete_endpoint", "DELETE", ""},
	}
	for _, e := range encodings {
		for _, br := range breaks {
			for _, mu := range muts {
				os.Setenv("VERIF_C18_MGMT_TOK", "gtok")
				_ = os.WriteFile(filepath.Join(dir, "c18-mgmt-secret"), []byte("ctok\n"), 0o600)
				text := e.enc(lf)
				a, err := l2.Start(dir, text, nil, nil)
				if err != nil {
					c.Inconclusive(fmt.Sprintf("C18 management rollback: config (%s) did not start: %v", e.name, err))
					break
				}
				br.apply()
				fileBefore, _ := os.ReadFile(a.Path)
				req := l2.JSONReq(mu.method, a.Compiled.AdminAPI.Prefix+"/applications/app1/endpoints/ep1", []byte(mu.body), "")
				req.Header.Set("X-Hookaido-Audit-Reason", "verif")
				resp := l2.Do(a.Admin, req)
				fileAfter, _ := os.ReadFile(a.Path)
				after := c18Fingerprint(a)
				// the reference: the same file started afresh (secrets in place), never mutated
				os.Setenv("VERIF_C18_MGMT_TOK", "gtok")
				_ = os.WriteFile(filepath.Join(dir, "c18-mgmt-secret"), []byte("ctok\n"), 0o600)
				var before []string
				if ref, rerr := l2.Start(dir, text, nil, nil); rerr == nil {
					before = c18Fingerprint(ref)
					ref.Close()
				}
				ok2xx := resp.Status >= 200 && resp.Status <= 299
				c.Count("evaluations", 1)
				c.Count("management_rollback_trials", 1)
				c.Distinct("nontrivial", fmt.Sprintf("mgmt_rollback:%s:%s:%s:2xx=%v:file_changed=%v", e.name, br.name, mu.name, ok2xx, string(fileBefore) != string(fileAfter)))
				wit := map[string]any{"line_ends": e.name, "broken": br.name, "mutation": mu.name, "status": resp.Status, "body": string(resp.Body[:minInt(300, len(resp.Body))]),
					"file_before_mutation": string(fileBefore), "file_after_mutation": string(fileAfter)}
				if c.Counter("management_rollback_trials") <= 6 {
					c.Sample(map[string]any{"part": "management_rollback", "line_ends": e.name, "broken": br.name, "mutation": mu.name, "status": resp.Status, "answer": string(resp.Body[:minInt(200, len(resp.Body))]), "file_changed": string(fileBefore) != string(fileAfter)})
				}
				if !ok2xx {
					if string(fileBefore) != string(fileAfter) {
						c.Violation(vlib.Signature{"class": "file_not_restored_after_failed_mutation", "pending": "line_ends_" + e.name + ":" + br.name, "mutation": mu.name},
							fmt.Sprintf("management %s answered %d (%s) and left a config file (%d bytes, line ends %s) that is not the previous content (%d bytes); it compiles: %v", mu.name, resp.Status, br.name, len(fileAfter), e.name, len(fileBefore), compilesOK(fileAfter) == nil), wit)
					}
					for i := range before {
						if i < len(after) && before[i] != after[i] {
							c.Violation(vlib.Signature{"class": "behaviour_changed_by_failed_reload", "failure": "management_" + mu.name + ":" + br.name, "probe": fmt.Sprint(i)},
								fmt.Sprintf("management %s failed (%d) but probe %d changed: %s -> %s", mu.name, resp.Status, i, before[i], after[i]), wit)
							break
						}
					}
				} else if err := compilesOK(fileAfter); err != nil {
					c.Violation(vlib.Signature{"class": "config_file_does_not_compile", "case": "management_" + mu.name + ":" + e.name}, fmt.Sprintf("management %s answered %d but the file it wrote does not compile: %v", mu.name, resp.Status, err), wit)
				}
				a.Close()
			}
		}
	}
}
