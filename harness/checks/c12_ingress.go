package checks

import (
	"encoding/base64"
	"fmt"
	"io"
	"math"
	"runtime"
	"sort"
	"strings"
	"sync"
	"sync/atomic"
	"time"

	"github.com/nuetzliches/hookaido/verifharness/l2"
	"github.com/nuetzliches/hookaido/verifharness/vlib"
)

func sizeStr(n int) string { return fmt.Sprintf("%d", n) }

type arrival struct {
	T      int64 // virtual ns
	Route  string
	Status int
}

// c12Ingress: size limits and rate limits through the production ingress handler.
func c12Ingress(c *vlib.Ctx) {
	dir := c.Scratch()
	// ---- size limits ------------------------------------------------------
	nCfg := c.N(10, 120)
	for ci := 0; ci < nCfg; ci++ {
		r := vlib.Derive(c.Seed, "C12size", ci)
		backend := vlib.Pick(r, []string{"memory", "sqlite"})
		maxBody := vlib.Pick(r, []int{1, 7, 64, 1000, 1024, 4096, 65536})
		maxHdr := vlib.Pick(r, []int{40, 64, 200, 512, 4096})
		defBody := vlib.Pick(r, []int{16, 300, 2048})
		defHdr := vlib.Pick(r, []int{48, 256, 1024})
		cfg := fmt.Sprintf(`ingress { listen 127.0.0.1:0 }
pull_api { listen 127.0.0.2:0
 auth token raw:tok }
admin_api { listen 127.0.0.3:0 }
defaults { max_body %d
 max_headers %d }
/own { queue { backend %s }
 max_body %d
 max_headers %d
 pull { path /pull/own } }
/def { queue { backend %s }
 pull { path /pull/def } }
`, defBody, defHdr, backend, maxBody, maxHdr, backend)
		clock := vlib.NewVClock(vlib.Epoch)
		a, err := l2.Start(dir, cfg, nil, clock)
		if err != nil {
			c.Inconclusive("C12 size config did not start: " + err.Error())
			return
		}
		type lim struct {
			route      string
			body, hdrs int
		}
		for _, lm := range []lim{{"/own", maxBody, maxHdr}, {"/def", defBody, defHdr}} {
			// body sizes around the limit
			for _, n := range []int{0, lm.body - 1, lm.body, lm.body + 1, lm.body + 100, 2 * lm.body} {
				if n < 0 {
					continue
				}
				for _, framing := range []string{"content_length", "undeclared_length"} {
					before, _ := vlib.ListAll(a.Store)
					req, _ := l2.NewRequest("POST", lm.route, r.Bytes(n), "")
					if n == 0 {
						req, _ = l2.NewRequest("POST", lm.route, []byte{}, "")
					}
					if framing == "undeclared_length" {
						// as a chunked upload reaches the handler: no declared length
						req.ContentLength = -1
						req.Body = io.NopCloser(struct{ io.Reader }{req.Body})
						req.TransferEncoding = []string{"chunked"}
					}
					resp := l2.Do(a.Ingress, req)
					after, _ := vlib.ListAll(a.Store)
					c.Count("evaluations", 1)
					c.Distinct("nontrivial", fmt.Sprintf("body:%s:%s:%d", cmpClass(n, lm.body), framing, resp.Status))
					want := 202
					if n > lm.body {
						want = 413
					}
					if resp.Status != want {
						c.Violation(vlib.Signature{"class": "body_limit_status", "want": fmt.Sprint(want), "got": fmt.Sprint(resp.Status), "rel": cmpClass(n, lm.body)},
							fmt.Sprintf("route %s max_body=%d body=%d bytes answered %d, expected %d", lm.route, lm.body, n, resp.Status, want),
							map[string]any{"config": cfg, "route": lm.route, "body_len": n})
					}
					grew := len(after) - len(before)
					if (resp.Status == 202) != (grew == 1) || (resp.Status != 202 && grew != 0) {
						c.Violation(vlib.Signature{"class": "size_refusal_effect", "status": fmt.Sprint(resp.Status), "grew": fmt.Sprint(grew)},
							fmt.Sprintf("route %s body=%d answered %d but the queue grew by %d", lm.route, n, resp.Status, grew),
							map[string]any{"config": cfg})
					}
					if resp.Status == 202 && grew == 1 {
						for _, e := range after {
							found := false
							for _, b := range before {
								if b.ID == e.ID {
									found = true
								}
							}
							if !found && len(e.Payload) != n {
								c.Violation(vlib.Signature{"class": "stored_truncated"}, fmt.Sprintf("accepted %d byte body stored as %d bytes", n, len(e.Payload)), map[string]any{"config": cfg})
							}
						}
					}
				}
			}
			// header totals around the limit: one header "X-Pad: vvv" sized exactly
			for _, total := range []int{lm.hdrs / 2, lm.hdrs - 1, lm.hdrs, lm.hdrs + 1, 2 * lm.hdrs} {
				name := "X-Pad"
				vlen := total - len(name)
				if vlen < 1 {
					continue
				}
				before, _ := vlib.ListAll(a.Store)
				req, _ := l2.NewRequest("POST", lm.route, []byte("x"), "")
				req.Header = map[string][]string{name: {strings.Repeat("v", vlen)}}
				resp := l2.Do(a.Ingress, req)
				after, _ := vlib.ListAll(a.Store)
				c.Count("evaluations", 1)
				c.Distinct("nontrivial", fmt.Sprintf("hdr:%s:%d", cmpClass(total, lm.hdrs), resp.Status))
				want := 202
				if total > lm.hdrs {
					want = 413
				}
				if resp.Status != want {
					c.Violation(vlib.Signature{"class": "header_limit_status", "want": fmt.Sprint(want), "got": fmt.Sprint(resp.Status), "rel": cmpClass(total, lm.hdrs)},
						fmt.Sprintf("route %s max_headers=%d headers=%d bytes answered %d, expected %d", lm.route, lm.hdrs, total, resp.Status, want),
						map[string]any{"config": cfg})
				}
				if grew := len(after) - len(before); (resp.Status == 202) != (grew == 1) {
					c.Violation(vlib.Signature{"class": "size_refusal_effect", "status": fmt.Sprint(resp.Status), "grew": fmt.Sprint(grew)},
						fmt.Sprintf("route %s headers=%d answered %d but the queue grew by %d", lm.route, total, resp.Status, grew), map[string]any{"config": cfg})
				}
			}
			// header totals around the limit with several fields and repeated fields: the
			// stored size of a field is len(name) + len(values joined by ",")
			for _, shape := range []struct {
				name   string
				fields int // distinct names
				rep    int // values per name
			}{{"three_fields", 3, 1}, {"repeated_x2", 1, 2}, {"repeated_x4", 1, 4}, {"two_fields_repeated_x3", 2, 3}} {
				seps := shape.fields * (shape.rep - 1)
				for _, total := range []int{lm.hdrs - 1, lm.hdrs, lm.hdrs + 1, lm.hdrs + seps, lm.hdrs + seps + 1} {
					names := []string{"X-Pa", "X-Pb", "X-Pc"}[:shape.fields]
					fixed := seps
					for _, nm := range names {
						fixed += len(nm)
					}
					nvals := shape.fields * shape.rep
					room := total - fixed
					if room < nvals {
						continue
					}
					hdr := map[string][]string{}
					left := room
					for fi, nm := range names {
						for k := 0; k < shape.rep; k++ {
							n := room / nvals
							if fi == len(names)-1 && k == shape.rep-1 {
								n = left
							}
							left -= n
							hdr[nm] = append(hdr[nm], strings.Repeat("v", n))
						}
					}
					before, _ := vlib.ListAll(a.Store)
					req, _ := l2.NewRequest("POST", lm.route, []byte("x"), "")
					req.Header = hdr
					resp := l2.Do(a.Ingress, req)
					after, _ := vlib.ListAll(a.Store)
					c.Count("evaluations", 1)
					c.Distinct("nontrivial", fmt.Sprintf("hdr_%s:%s:%d", shape.name, cmpClass(total, lm.hdrs), resp.Status))
					want := 202
					if total > lm.hdrs {
						want = 413
					}
					if resp.Status != want {
						c.Violation(vlib.Signature{"class": "header_limit_status", "want": fmt.Sprint(want), "got": fmt.Sprint(resp.Status), "rel": cmpClass(total, lm.hdrs), "shape": shape.name},
							fmt.Sprintf("route %s max_headers=%d, %s with a stored size of %d bytes answered %d, expected %d", lm.route, lm.hdrs, shape.name, total, resp.Status, want),
							map[string]any{"config": cfg, "headers": hdr})
					}
					if grew := len(after) - len(before); (resp.Status == 202) != (grew == 1) {
						c.Violation(vlib.Signature{"class": "size_refusal_effect", "status": fmt.Sprint(resp.Status), "grew": fmt.Sprint(grew)},
							fmt.Sprintf("route %s headers=%d (%s) answered %d but the queue grew by %d", lm.route, total, shape.name, resp.Status, grew), map[string]any{"config": cfg})
					}
				}
			}
		}
		a.Close()
	}

	// ---- rate limit -------------------------------------------------------
	nLim := c.N(24, 400)
	for li := 0; li < nLim; li++ {
		r := vlib.Derive(c.Seed, "C12rate", li)
		gRPS := vlib.Pick(r, []float64{0.5, 1, 10, 1000})
		gBurst := vlib.Pick(r, []int{1, 5, 50})
		rRPS := vlib.Pick(r, []float64{0.5, 2, 25})
		rBurst := vlib.Pick(r, []int{1, 3, 20})
		global := r.Chance(0.8)
		gblock := ""
		if global {
			gblock = fmt.Sprintf(" rate_limit { rps %g\n burst %d }\n", gRPS, gBurst)
		}
		cfg := fmt.Sprintf(`ingress { listen 127.0.0.1:0
%s}
pull_api { listen 127.0.0.2:0
 auth token raw:tok }
admin_api { listen 127.0.0.3:0 }
/lim { queue { backend memory }
 rate_limit { rps %g
 burst %d }
 pull { path /pull/lim } }
/g1 { queue { backend memory }
 pull { path /pull/g1 } }
/g2 { queue { backend memory }
 pull { path /pull/g2 } }
`, gblock, rRPS, rBurst)
		clock := vlib.NewVClock(vlib.Epoch)
		a, err := l2.Start(dir, cfg, nil, clock)
		if err != nil {
			c.Inconclusive("C12 rate config did not start: " + err.Error())
			return
		}
		var mu sync.Mutex
		var hist []arrival
		send := func(route string) {
			req, _ := l2.NewRequest("POST", route, []byte("x"), "")
			t := clock.NowNS()
			resp := l2.Do(a.Ingress, req)
			mu.Lock()
			hist = append(hist, arrival{T: t, Route: route, Status: resp.Status})
			mu.Unlock()
		}
		phases := r.Range(6, 14)
		for p := 0; p < phases; p++ {
			switch r.Intn(4) {
			case 0: // burst from one goroutine
				n := r.Range(1, 80)
				route := vlib.Pick(r, []string{"/lim", "/g1", "/g2"})
				for i := 0; i < n; i++ {
					send(route)
				}
			case 1: // steady
				n := r.Range(3, 40)
				step := time.Duration(r.Range(1, 400)) * time.Millisecond
				for i := 0; i < n; i++ {
					send(vlib.Pick(r, []string{"/lim", "/g1", "/g2"}))
					clock.Advance(step)
				}
			case 2: // same-instant concurrency
				var wg sync.WaitGroup
				route := vlib.Pick(r, []string{"/lim", "/g1"})
				for g := 0; g < 16; g++ {
					wg.Add(1)
					go func() {
						defer wg.Done()
						for i := 0; i < 6; i++ {
							send(route)
						}
					}()
				}
				wg.Wait()
			default: // idle gap
				clock.Advance(time.Duration(r.Range(1, 120)) * time.Second)
			}
			clock.Advance(time.Duration(r.Intn(1500)) * time.Millisecond)
		}
		a.Close()
		// oracle: per limiter (route override, else global) window bound
		type limiter struct {
			rps   float64
			burst int
			on    bool
		}
		lims := map[string]limiter{"/lim": {rRPS, rBurst, true}, "global": {gRPS, gBurst, global}}
		byLim := map[string][]arrival{}
		for _, h := range hist {
			key := "global"
			if h.Route == "/lim" {
				key = "/lim"
			}
			byLim[key] = append(byLim[key], h)
			c.Count("evaluations", 1)
			c.Distinct("nontrivial", fmt.Sprintf("rate:%s:%d", key, h.Status))
			if h.Status != 202 && h.Status != 429 {
				c.Violation(vlib.Signature{"class": "rate_status", "got": fmt.Sprint(h.Status)}, fmt.Sprintf("rate-limited route answered %d", h.Status), map[string]any{"config": cfg})
			}
		}
		for key, hs := range byLim {
			lm := lims[key]
			var admitted []int64
			denied := 0
			for _, h := range hs {
				if h.Status == 202 {
					admitted = append(admitted, h.T)
				} else {
					denied++
				}
			}
			if !lm.on {
				if denied > 0 {
					c.Violation(vlib.Signature{"class": "limited_without_limiter"}, "429 without any configured limiter", map[string]any{"config": cfg})
				}
				continue
			}
			// admitted timestamps are non-decreasing except inside same-instant phases
			sortInt64(admitted)
			for i := range admitted {
				for j := i; j < len(admitted); j++ {
					win := float64(admitted[j]-admitted[i]) / 1e9
					bound := float64(lm.burst) + lm.rps*win + 1e-6
					if float64(j-i+1) > bound {
						c.Violation(vlib.Signature{"class": "rate_window_exceeded", "limiter": key},
							fmt.Sprintf("limiter %s rps=%g burst=%d admitted %d requests within %.6fs (bound %.3f)", key, lm.rps, lm.burst, j-i+1, win, bound),
							map[string]any{"config": cfg, "admitted_ns": admitted[i : j+1]})
						i, j = len(admitted), len(admitted)
					}
				}
			}
			// reference bucket: exact decisions for the sequential phases
			refuseWithTokens(c, key, lm.rps, lm.burst, hs, cfg)
		}
		if li < 3 {
			c.Sample(map[string]any{"limiter_config": cfg, "requests": len(hist)})
		}
	}
	c12RateMoving(c, dir)
	c12Publish(c, dir)
}

// c12Publish: size limits on the Admin publish path, single and batch form,
// batches spanning routes with different limits in every order: 413 iff some
// item exceeds the limits of ITS OWN route, and then nothing is stored.
func c12Publish(c *vlib.Ctx, dir string) {
	type lim struct{ body, hdr int }
	limits := map[string]lim{"/small": {16, 96}, "/mid": {64, 256}, "/big": {512, 2048}}
	cfg := "ingress { listen 127.0.0.1:0 }\npull_api { listen 127.0.0.2:0\n auth token raw:tok }\nadmin_api { listen 127.0.0.3:0 }\n"
	for _, rt := range []string{"/small", "/mid", "/big"} {
		cfg += fmt.Sprintf("%s { queue { backend %%[1]s }\n max_body %d\n max_headers %d\n pull { path /pull%s } }\n", rt, limits[rt].body, limits[rt].hdr, rt)
	}
	n := c.N(60, 1500)
	for _, be := range []string{"memory", "sqlite"} {
		a, err := l2.Start(dir, fmt.Sprintf(cfg, be), nil, nil)
		if err != nil {
			c.Inconclusive("C12 publish config did not start: " + err.Error())
			return
		}
		for i := 0; i < n; i++ {
			r := vlib.Derive(c.Seed, "C12publish", be, i)
			k := r.Range(1, 4)
			var items []map[string]any
			var over []string
			for j := 0; j < k; j++ {
				rt := vlib.Pick(r, []string{"/small", "/mid", "/big"})
				l := limits[rt]
				size := vlib.Pick(r, []int{0, 1, l.body - 1, l.body, l.body + 1, l.body * 2, 17, 65})
				it := map[string]any{"id": fmt.Sprintf("pb-%s-%d-%d", be, i, j), "route": rt, "payload_b64": base64.StdEncoding.EncodeToString(make([]byte, size))}
				hdrOver := false
				if r.Chance(0.3) {
					hv := l.hdr / 4
					if r.Chance(0.4) {
						hv, hdrOver = l.hdr*2, true
					}
					it["headers"] = map[string]string{"X-Fill": strings.Repeat("h", hv)}
				}
				if size > l.body || hdrOver {
					over = append(over, fmt.Sprintf("item %d on %s (%d bytes, headers over=%v)", j, rt, size, hdrOver))
				}
				items = append(items, it)
			}
			before := snapStore(a.Store)
			req := l2.JSONReq("POST", a.Compiled.AdminAPI.Prefix+"/messages/publish", map[string]any{"items": items}, "")
			req.Header.Set("X-Hookaido-Audit-Reason", "verif")
			resp := l2.Do(a.Admin, req)
			after := snapStore(a.Store)
			add, rem, chg := vlib.Diff(before, after)
			c.Count("evaluations", 1)
			c.Count("publish_size_probes", 1)
			c.Distinct("nontrivial", fmt.Sprintf("publish_size:%s:items=%d:over=%d:%d", be, k, minInt(len(over), 2), resp.Status))
			wit := map[string]any{"backend": be, "items": items, "status": resp.Status, "response": string(resp.Body[:minInt(240, len(resp.Body))]), "over_limit": over}
			switch {
			case len(over) > 0 && resp.Status != 413:
				c.Violation(vlib.Signature{"class": "oversize_publish_not_refused", "status": fmt.Sprint(resp.Status), "form": map[bool]string{true: "batch", false: "single"}[k > 1]},
					fmt.Sprintf("publish answered %d although %s exceeds its route's limits", resp.Status, over[0]), wit)
			case len(over) == 0 && resp.Status != 200:
				c.Violation(vlib.Signature{"class": "valid_publish_refused", "status": fmt.Sprint(resp.Status), "form": map[bool]string{true: "batch", false: "single"}[k > 1]},
					fmt.Sprintf("publish of %d items within their routes' limits answered %d: %s", k, resp.Status, string(resp.Body[:minInt(160, len(resp.Body))])), wit)
			}
			if resp.Status != 200 && len(add)+len(rem)+len(chg) > 0 {
				c.Violation(vlib.Signature{"class": "refused_publish_changed_queue", "status": fmt.Sprint(resp.Status)}, fmt.Sprintf("publish answered %d but the queue changed: added %v", resp.Status, add), wit)
			}
			if resp.Status == 200 && len(add) != k {
				c.Violation(vlib.Signature{"class": "accepted_publish_not_all_stored"}, fmt.Sprintf("publish of %d items answered 200 but %d were stored", k, len(add)), wit)
			}
		}
		a.Close()
	}
}

// c12RateMoving: request goroutines race with a clock that keeps moving, so the
// instants at which requests read the clock and the order in which they reach
// the bucket differ (a reading may be older than one the bucket has already
// seen). Every admitted request is bracketed by the clock values before the
// call and after the reply; for every window [A,B] the admitted requests whose
// bracket lies inside it number at most burst + rps*(B-A).
func c12RateMoving(c *vlib.Ctx, dir string) {
	n := c.N(10, 200)
	for li := 0; li < n; li++ {
		r := vlib.Derive(c.Seed, "C12moving", li)
		rps := vlib.Pick(r, []float64{2, 20, 200})
		burst := vlib.Pick(r, []int{1, 5, 20})
		cfg := fmt.Sprintf("ingress { listen 127.0.0.1:0 }\npull_api { listen 127.0.0.2:0\n auth token raw:tok }\nadmin_api { listen 127.0.0.3:0 }\n/lim { queue { backend memory }\n rate_limit { rps %g\n burst %d }\n pull { path /pull/lim } }\n", rps, burst)
		clock := vlib.NewVClock(vlib.Epoch)
		a, err := l2.Start(dir, cfg, nil, clock)
		if err != nil {
			c.Inconclusive("C12 moving-clock config did not start: " + err.Error())
			return
		}
		// stale readings: some callers are held up between reading the clock and using it
		var reads atomic.Int64
		clock.SetAfterRead(func() {
			if reads.Add(1)%3 == 0 {
				time.Sleep(150 * time.Microsecond)
			} else {
				runtime.Gosched()
			}
		})
		type br struct{ t0, t1 int64 }
		var mu sync.Mutex
		var adm []br
		total := 0
		var stop atomic.Bool
		var tick sync.WaitGroup
		tick.Add(1)
		step := time.Duration(r.Range(20, 2000)) * time.Microsecond
		go func() {
			defer tick.Done()
			for !stop.Load() {
				clock.Advance(step)
				runtime.Gosched()
			}
		}()
		var wg sync.WaitGroup
		workers, per := r.Range(4, 32), r.Range(20, 80)
		for g := 0; g < workers; g++ {
			wg.Add(1)
			go func() {
				defer wg.Done()
				for i := 0; i < per; i++ {
					req, _ := l2.NewRequest("POST", "/lim", []byte("x"), "")
					t0 := clock.NowNS()
					resp := l2.Do(a.Ingress, req)
					t1 := clock.NowNS()
					mu.Lock()
					total++
					if resp.Status == 202 {
						adm = append(adm, br{t0, t1})
					}
					mu.Unlock()
				}
			}()
		}
		wg.Wait()
		stop.Store(true)
		tick.Wait()
		clock.SetAfterRead(nil)
		a.Close()
		c.Count("evaluations", int64(total))
		c.Count("moving_clock_requests", int64(total))
		c.Count("moving_clock_admitted", int64(len(adm)))
		c.Distinct("nontrivial", fmt.Sprintf("rate_moving:rps=%g:burst=%d:admitted=%s", rps, burst, cmpClass(len(adm), burst)))
		sort.Slice(adm, func(i, j int) bool { return adm[i].t0 < adm[j].t0 })
	outer:
		for i := range adm {
			hi := adm[i].t1
			for j := i; j < len(adm); j++ {
				if adm[j].t1 > hi {
					hi = adm[j].t1
				}
				win := float64(hi-adm[i].t0) / 1e9
				if bound := float64(burst) + rps*win + 1e-6; float64(j-i+1) > bound {
					c.Violation(vlib.Signature{"class": "rate_window_exceeded", "limiter": "/lim", "clock": "moving"},
						fmt.Sprintf("limiter rps=%g burst=%d admitted %d requests whose clock readings all lie within %.6fs (bound %.3f) while the clock was moving under %d concurrent senders", rps, burst, j-i+1, win, bound, workers),
						map[string]any{"config": cfg, "first_t0": adm[i].t0, "last_t1": hi})
					break outer
				}
			}
		}
	}
}

// refuseWithTokens replays the arrivals in time order against a reference token
// bucket; a refusal while the reference still holds clearly more than one token
// (or an admission clearly below one) is a disagreement. Same-instant arrivals
// are order-independent for the count of admissions, which is what is compared.
func refuseWithTokens(c *vlib.Ctx, key string, rps float64, burst int, hs []arrival, cfg string) {
	byT := map[int64][2]int{} // t -> admitted, total
	var ts []int64
	for _, h := range hs {
		v, ok := byT[h.T]
		if !ok {
			ts = append(ts, h.T)
		}
		if h.Status == 202 {
			v[0]++
		}
		v[1]++
		byT[h.T] = v
	}
	sortInt64(ts)
	tokens := float64(burst)
	last := vlib.Epoch.UnixNano()
	for _, t := range ts {
		tokens = math.Min(float64(burst), tokens+float64(t-last)/1e9*rps)
		last = t
		v := byT[t]
		canLo := int(math.Floor(tokens - 1e-6))
		canHi := int(math.Floor(tokens + 1e-6))
		if canLo < 0 {
			canLo = 0
		}
		wantLo, wantHi := minInt(canLo, v[1]), minInt(canHi, v[1])
		if v[0] < wantLo || v[0] > wantHi {
			c.Violation(vlib.Signature{"class": "rate_decision_differs", "limiter": key, "dir": map[bool]string{true: "under", false: "over"}[v[0] < wantLo]},
				fmt.Sprintf("limiter %s rps=%g burst=%d at t=%d: %d of %d admitted, reference bucket (%.6f tokens) admits %d..%d", key, rps, burst, t, v[0], v[1], tokens, wantLo, wantHi),
				map[string]any{"config": cfg})
			return
		}
		tokens -= float64(v[0])
	}
}

func cmpClass(n, limit int) string {
	switch {
	case n < limit:
		return "below"
	case n == limit:
		return "at"
	case n == limit+1:
		return "plus1"
	}
	return "above"
}

func minInt(a, b int) int {
	if a < b {
		return a
	}
	return b
}

func sortInt64(xs []int64) {
	for i := 1; i < len(xs); i++ {
		for j := i; j > 0 && xs[j] < xs[j-1]; j-- {
			xs[j], xs[j-1] = xs[j-1], xs[j]
		}
	}
}
