package checks

import (
	"fmt"
	"os"
	"path/filepath"
	"strconv"
	"syscall"
	"time"

	"github.com/nuetzliches/hookaido/verifharness/l3"
	"github.com/nuetzliches/hookaido/verifharness/vlib"
)

const c09L3Config = `ingress { listen %INGRESS% }
pull_api { listen %PULL%
 auth token raw:tok }
admin_api { listen %ADMIN% }
/signed { auth hmac raw:topsecret
 pull { path /pull/s } }
`

// c09L3: the real binary; original, SIGHUP (and --watch rewrite), replay well
// inside the tolerance (wall clock).
func c09L3(c *vlib.Ctx) {
	if !c.Thorough() && os.Getenv("VERIF_C09_L3") == "" {
		return
	}
	if _, err := os.Stat(l3.Bin()); err != nil {
		c.Assume("product binary not built: the SIGHUP sample of C09 was skipped")
		return
	}
	root := filepath.Join(vlib.VerifRoot(), ".run", fmt.Sprintf("c09.%d", os.Getpid()))
	_ = os.MkdirAll(root, 0o755)
	defer os.RemoveAll(root)
	for t := 0; t < c.N(2, 10); t++ {
		mode := []string{"sighup", "watch_rewrite"}[t%2]
		p, err := l3.New(filepath.Join(root, fmt.Sprintf("t%d", t)), c09L3Config)
		if err != nil {
			c.Inconclusive("C09 L3: " + err.Error())
			return
		}
		var args []string
		if mode == "watch_rewrite" {
			args = []string{"--watch"}
		}
		if err := p.StartHealthy(l3.StartOpts{Args: args}, 60*time.Second); err != nil {
			c.Inconclusive("C09 L3 start: " + err.Error())
			return
		}
		send := func(nonce string) int {
			body := []byte("b-" + nonce)
			ts := strconv.FormatInt(time.Now().Unix(), 10)
			return p.Ingress("/signed", body, map[string]string{"X-Timestamp": ts, "X-Nonce": nonce, "X-Signature": signInbound("topsecret", "POST", "/signed", ts, body)}).Status
		}
		first := send("L3N")
		switch mode {
		case "sighup":
			_ = p.Signal(syscall.SIGHUP)
		default:
			_ = p.WriteConfig(c09L3Config + "/extra { pull { path /pull/x } }\n")
		}
		// wait until the reload is visible: the admin API keeps answering; give the debounce time
		time.Sleep(700 * time.Millisecond)
		replay := send("L3N")
		fresh := send("L3fresh")
		c.Count("evaluations", 1)
		c.Count("l3_reload_trials", 1)
		c.Distinct("nontrivial", "l3:"+mode)
		if first != 202 || fresh != 202 {
			c.Inconclusive(fmt.Sprintf("C09 L3 (%s): valid requests answered %d / %d", mode, first, fresh))
		}
		if replay == 202 {
			c.Violation(vlib.Signature{"class": "replay_accepted", "layer": "L3", "when": "inside_window", "between": "replay_after_" + mode},
				fmt.Sprintf("real binary: a signed request was accepted again after %s (second answer %d)", mode, replay), nil)
		}
		p.Stop()
	}
}
