package checks

import (
	"context"
	"errors"
	"fmt"
	"io"
	"net"
	"net/http"
	"net/netip"
	"net/url"
	"strings"
	"sync"
	"time"

	"github.com/nuetzliches/hookaido/internal/app"
	"github.com/nuetzliches/hookaido/internal/config"
	"github.com/nuetzliches/hookaido/internal/dispatcher"
	"github.com/nuetzliches/hookaido/verifharness/pushcheck"
	"github.com/nuetzliches/hookaido/verifharness/vlib"
)

// ---- independent evaluator (from the statement, RFC ranges spelled out) ------

type egRule struct {
	raw  string
	host string // exact host, "*" or domain for subdomain rules
	sub  bool
	pfx  netip.Prefix
	cidr bool
}

type egPolicy struct {
	httpsOnly, redirects, rebind bool
	allow, deny                  []egRule
}

func mustPfx(s string) netip.Prefix { return netip.MustParsePrefix(s) }

var deniedClasses = map[string][]netip.Prefix{
	"loopback":    {mustPfx("127.0.0.0/8"), mustPfx("::1/128")},
	"private":     {mustPfx("10.0.0.0/8"), mustPfx("172.16.0.0/12"), mustPfx("192.168.0.0/16"), mustPfx("fc00::/7")},
	"link_local":  {mustPfx("169.254.0.0/16"), mustPfx("fe80::/10")},
	"multicast":   {mustPfx("224.0.0.0/4"), mustPfx("ff00::/8")},
	"unspecified": {mustPfx("0.0.0.0/32"), mustPfx("::/128")},
}

func ipClass(a netip.Addr) string {
	a = a.Unmap().WithZone("")
	for cls, ps := range deniedClasses {
		for _, p := range ps {
			if p.Contains(a) {
				return cls
			}
		}
	}
	return ""
}

func parseRule(raw string) egRule {
	if p, err := netip.ParsePrefix(raw); err == nil {
		return egRule{raw: raw, pfx: p.Masked(), cidr: true}
	}
	if a, err := netip.ParseAddr(raw); err == nil {
		return egRule{raw: raw, pfx: netip.PrefixFrom(a, a.BitLen()), cidr: true}
	}
	h := strings.ToLower(strings.TrimSuffix(raw, "."))
	if strings.HasPrefix(h, "*.") {
		return egRule{raw: raw, host: strings.TrimPrefix(h, "*."), sub: true}
	}
	return egRule{raw: raw, host: h}
}

func ruleMatches(rs []egRule, host string, ips []netip.Addr) bool {
	for _, r := range rs {
		switch {
		case r.cidr:
			for _, ip := range ips {
				if r.pfx.Contains(ip.Unmap().WithZone("")) {
					return true
				}
			}
		case r.host == "*" && !r.sub:
			return true
		case r.sub:
			if host != r.host && strings.HasSuffix(host, "."+r.host) {
				return true
			}
		default:
			if host == r.host {
				return true
			}
		}
	}
	return false
}

// evalEgress answers whether the statement allows a request to u given the
// addresses the host resolved to at check time. reason names the first denying clause.
func evalEgress(p egPolicy, u *url.URL, ips []netip.Addr) (bool, string) {
	scheme := strings.ToLower(u.Scheme)
	if scheme != "http" && scheme != "https" {
		return false, "scheme"
	}
	if p.httpsOnly && scheme != "https" {
		return false, "https_only"
	}
	host := strings.TrimSuffix(strings.ToLower(u.Hostname()), ".")
	if host == "" {
		return false, "empty_host"
	}
	if p.rebind {
		for _, ip := range ips {
			if cls := ipClass(ip); cls != "" {
				return false, "rebind_" + cls
			}
		}
	}
	if ruleMatches(p.deny, host, ips) {
		return false, "deny_rule"
	}
	if len(p.allow) > 0 && !ruleMatches(p.allow, host, ips) {
		return false, "not_in_allowlist"
	}
	return true, ""
}

// ---- recording transport and resolver ------------------------------------

type hop struct {
	URL string
}

type recTransport struct {
	mu    sync.Mutex
	calls []string
	// next maps a URL to the Location it redirects to ("" = final 200)
	next map[string]string
	code map[string]int
}

func (t *recTransport) RoundTrip(req *http.Request) (*http.Response, error) {
	u := req.URL.String()
	t.mu.Lock()
	t.calls = append(t.calls, u)
	loc, redirect := t.next[u]
	code := t.code[u]
	t.mu.Unlock()
	if req.Body != nil {
		_, _ = io.Copy(io.Discard, req.Body)
		_ = req.Body.Close()
	}
	resp := &http.Response{StatusCode: 200, Header: http.Header{}, Body: io.NopCloser(strings.NewReader("")), Request: req, ProtoMajor: 1, ProtoMinor: 1}
	if redirect {
		if code == 0 {
			code = 307
		}
		resp.StatusCode = code
		resp.Header.Set("Location", loc)
	}
	return resp, nil
}

type fakeResolver struct {
	mu      sync.Mutex
	answers map[string][]netip.Addr
	errs    map[string]bool
	lookups []string
}

func (f *fakeResolver) LookupIPAddr(_ context.Context, host string) ([]net.IPAddr, error) {
	f.mu.Lock()
	defer f.mu.Unlock()
	f.lookups = append(f.lookups, host)
	if f.errs[host] {
		return nil, &net.DNSError{Err: "no such host", Name: host, IsNotFound: true}
	}
	var out []net.IPAddr
	for _, a := range f.answers[host] {
		out = append(out, net.IPAddr{IP: net.IP(a.AsSlice())})
	}
	return out, nil
}

// ---- generators ------------------------------------------------------------

var c16Names = []string{"a.example", "sub.a.example", "deep.sub.a.example", "xa.example", "b.test", "api.b.test", "example", "localhost", "evil.test", "127.1", "0x7f.0.0.1", "2130706433"}

var c16IPs = []string{
	"9.255.255.255", "10.0.0.0", "10.255.255.255", "11.0.0.0", "172.15.255.255", "172.16.0.0", "172.31.255.255", "172.32.0.0",
	"192.167.255.255", "192.168.0.0", "192.168.255.255", "192.169.0.0", "126.255.255.255", "127.0.0.1", "127.255.255.255", "128.0.0.0",
	"169.253.255.255", "169.254.0.0", "169.254.169.254", "169.255.0.0", "223.255.255.255", "224.0.0.0", "239.255.255.255", "240.0.0.1",
	"0.0.0.0", "0.0.0.1", "8.8.8.8", "203.0.113.7", "203.0.113.200", "10.9.9.9", "10.0.9.9", "2001:db8:1::1", "198.51.100.4", "1.1.1.1",
	"::", "::1", "::2", "fe80::1", "febf::1", "fec0::1", "fc00::1", "fdff::1", "fbff::1", "fe00::1", "ff00::1", "ff02::1", "2001:db8::1", "2606:4700::1111",
	"::ffff:10.0.0.1", "::ffff:127.0.0.1", "::ffff:8.8.8.8", "::ffff:169.254.169.254", "::ffff:192.168.1.1", "::ffff:203.0.113.7",
}

var c16RuleHosts = []string{"a.example", "*.a.example", "b.test", "*.b.test", "*", "example", "*.example", "evil.test", "A.Example", "sub.a.example"}
var c16RuleNets = []string{"10.0.0.0/16", "10.0.0.0/8", "10.0.0.0/24", "203.0.113.0/28", "2001:db8::/48", "10.0.0.0/8", "203.0.113.0/24", "203.0.113.7", "8.8.8.8", "2001:db8::/32", "127.0.0.0/8", "0.0.0.0/0", "::/0", "198.51.100.0/24", "192.168.1.1", "2606:4700::1111"}

func c16URL(r *vlib.Rand, scheme string, host string) string {
	h := host
	if a, err := netip.ParseAddr(host); err == nil && a.Is6() {
		h = "[" + host + "]"
	}
	switch r.Intn(8) {
	case 0:
		h = strings.ToUpper(h)
	case 1:
		if !strings.HasPrefix(h, "[") && !strings.HasSuffix(h, ".") {
			if _, err := netip.ParseAddr(host); err != nil {
				h += "."
			}
		}
	}
	user := ""
	if r.Chance(0.15) {
		user = vlib.Pick(r, []string{"a.example@", "user:pw@", "allowed.test:443@"})
	}
	port := ""
	if r.Chance(0.3) {
		port = vlib.Pick(r, []string{":80", ":443", ":8443"})
	}
	return scheme + "://" + user + h + port + vlib.Pick(r, []string{"/hook", "/", "", "/a/b?x=1"})
}

func c16Policy(r *vlib.Rand) (string, egPolicy) {
	on := func(b bool) string {
		if b {
			return "on"
		}
		return "off"
	}
	p := egPolicy{httpsOnly: r.Bool(), redirects: r.Chance(0.6), rebind: r.Bool()}
	var lines []string
	lines = append(lines, "https_only "+on(p.httpsOnly), "redirects "+on(p.redirects), "dns_rebind_protection "+on(p.rebind))
	mk := func(n int) ([]string, []egRule) {
		var raws []string
		var rules []egRule
		if r.Chance(0.15) {
			// nested ranges with one base address, narrower or wider first: every rule of the list counts
			fam := vlib.Pick(r, [][]string{{"10.0.0.0/24", "10.0.0.0/16", "10.0.0.0/8"}, {"203.0.113.0/28", "203.0.113.0/24"}, {"2001:db8::/48", "2001:db8::/32"}, {"*.a.example", "a.example", "sub.a.example"}})
			fam = append([]string(nil), fam...)
			vlib.Shuffle(r, fam)
			for _, raw := range fam[:r.Range(2, len(fam))] {
				raws = append(raws, raw)
				rules = append(rules, parseRule(raw))
			}
			return raws, rules
		}
		for i := 0; i < n; i++ {
			raw := vlib.Pick(r, c16RuleHosts)
			if r.Bool() {
				raw = vlib.Pick(r, c16RuleNets)
			}
			raws = append(raws, raw)
			rules = append(rules, parseRule(raw))
		}
		return raws, rules
	}
	if r.Chance(0.6) {
		raws, rules := mk(r.Range(1, 4))
		p.allow = rules
		lines = append(lines, "allow "+quoteAll(raws))
	}
	if r.Chance(0.6) {
		raws, rules := mk(r.Range(1, 3))
		p.deny = rules
		lines = append(lines, "deny "+quoteAll(raws))
	}
	txt := "defaults { egress {\n " + strings.Join(lines, "\n ") + "\n} }\n/x { deliver \"https://a.example/hook\" {} }\n"
	return txt, p
}

func quoteAll(xs []string) string {
	var out []string
	for _, x := range xs {
		out = append(out, `"`+x+`"`)
	}
	return strings.Join(out, " ")
}

// C16: egress policy on every delivery and redirect hop.
func C16(c *vlib.Ctx) {
	c.Rule("generated egress policies (https_only/redirects/dns_rebind_protection x allow/deny lists of hosts, wildcards, IPs, CIDRs) are compiled by config.Compile and mapped exactly as `run` does; the real HTTPDeliverer runs with a recording RoundTripper and a scripted resolver against generated URLs (schemes, userinfo, ports, case, trailing dots, IP literals on both sides of every class boundary incl. IPv4-mapped, non-canonical numeric hosts) and redirect chains up to 12 hops. Every URL that reaches the transport must be allowed by an independent evaluator written from the statement; a policy denial must be ErrPolicyDenied with no transport call for that hop; through the PushDispatcher a denial must be dead-lettered policy_denied without a nack. Reload part: the production wiring with its dispatcher is started on a file, one egress setting is edited (host rule gains / loses its '*.' prefix, rules added / removed / renamed / turned into a CIDR) and the process reloads; pushes to an apex host, a sub-domain, a deeper sub-domain and an unrelated host must then end (delivered / dead-lettered policy_denied) exactly as after a fresh start of the configuration the process reports as running. distinct_nontrivial = distinct (first denying clause or 'allowed', hop position, redirects on/off) classes.")
	c.Assume("the resolver answer is the one the policy check saw (re-resolution by the dialer is outside the statement)")
	c.Assume("IPv4-mapped IPv6 CIDR rules are not generated (undocumented); IPv4-mapped URL hosts against IPv4 rules are")
	c16ReloadEdits(c)
	c16Rebinding(c)
	n := c.N(24000, 6000000)
	sent, denied := 0, 0
	for i := 0; i < n; i++ {
		r := vlib.Derive(c.Seed, "C16", i) // 8 URL chains per policy
		txt, pol := c16Policy(vlib.Derive(c.Seed, "C16pol", i/8))
		cfg, err := config.Parse([]byte(txt))
		if err != nil {
			c.Inconclusive("C16 policy text does not parse: " + err.Error() + "\n" + txt)
			return
		}
		compiled, res := config.Compile(cfg)
		if !res.OK {
			c.Inconclusive("C16 policy text does not compile: " + strings.Join(res.Errors, "; ") + "\n" + txt)
			return
		}
		policy := app.VerifEgressPolicy(compiled)
		// build a redirect chain
		hops := 1
		if r.Chance(0.5) {
			hops = r.Range(2, 12)
		}
		resolver := &fakeResolver{answers: map[string][]netip.Addr{}, errs: map[string]bool{}}
		tr := &recTransport{next: map[string]string{}, code: map[string]int{}}
		var chain []string
		// 40% of the chains are steered: every hop but the last is re-drawn until the
		// evaluator allows it, so that deep redirect hops are actually reached.
		steer := r.Chance(0.4)
		var prevAbs *url.URL
		for h := 0; h < hops; h++ {
			var u string
			for try := 0; try < 12; try++ {
				scheme := vlib.Pick(r, []string{"https", "https", "http", "HTTPS", "Http"})
				if h == 0 && r.Chance(0.06) {
					scheme = vlib.Pick(r, []string{"ftp", "file", "gopher", "ws"})
				}
				host := vlib.Pick(r, c16Names)
				if r.Chance(0.45) {
					host = vlib.Pick(r, c16IPs)
				}
				u = c16URL(r, scheme, host)
				if h > 0 && r.Chance(0.1) {
					u = "/relative/hop" + fmt.Sprint(h) // relative redirect: same host as before
				}
				var ips []netip.Addr
				if a, err := netip.ParseAddr(host); err != nil {
					name := strings.TrimSuffix(strings.ToLower(host), ".")
					if _, ok := resolver.answers[name]; !ok {
						var as []netip.Addr
						for a := 0; a < r.Range(0, 3); a++ {
							as = append(as, netip.MustParseAddr(vlib.Pick(r, c16IPs)))
						}
						resolver.answers[name] = as
						if r.Chance(0.05) {
							resolver.errs[name] = true
						}
					}
					ips = resolver.answers[name]
				} else {
					ips = []netip.Addr{a}
				}
				if !steer || h == hops-1 {
					break
				}
				pu, err := url.Parse(u)
				if err != nil {
					continue
				}
				if !pu.IsAbs() {
					if prevAbs == nil {
						continue
					}
					break // same host as the previous (allowed) hop
				}
				if ok, _ := evalEgress(pol, pu, ips); ok && len(ips) > 0 {
					break
				}
			}
			chain = append(chain, u)
			if pu, err := url.Parse(u); err == nil {
				if !pu.IsAbs() && prevAbs != nil {
					pu = prevAbs.ResolveReference(pu)
				}
				prevAbs = pu
			}
		}
		// resolve relative hops and register redirects
		abs := make([]*url.URL, len(chain))
		for h, raw := range chain {
			u, err := url.Parse(raw)
			if err != nil {
				abs = abs[:h]
				break
			}
			if h > 0 && !u.IsAbs() {
				u = abs[h-1].ResolveReference(u)
			}
			abs[h] = u
		}
		if len(abs) == 0 || abs[0] == nil {
			continue
		}
		for h := 0; h+1 < len(abs); h++ {
			tr.next[abs[h].String()] = chain[h+1]
			tr.code[abs[h].String()] = vlib.Pick(r, []int{301, 302, 303, 307, 308})
		}
		client := &http.Client{Transport: tr}
		d := dispatcher.NewHTTPDeliverer(client, policy)
		d.Resolver = resolver
		ctx, cancel := context.WithTimeout(context.Background(), 5*time.Second)
		res2 := d.Deliver(ctx, dispatcher.Delivery{ID: "x", Method: "POST", URL: chain[0], Body: []byte("b")})
		cancel()
		c.Count("evaluations", 1)
		// oracle: every URL that reached the transport must be allowed
		ipsOf := func(u *url.URL) ([]netip.Addr, bool) {
			host := strings.TrimSuffix(strings.ToLower(u.Hostname()), ".")
			if a, err := netip.ParseAddr(host); err == nil {
				return []netip.Addr{a}, true
			}
			if resolver.errs[host] {
				return nil, false
			}
			return resolver.answers[host], len(resolver.answers[host]) > 0
		}
		needIPs := pol.rebind
		for _, rl := range append(append([]egRule{}, pol.allow...), pol.deny...) {
			if rl.cidr {
				needIPs = true
			}
		}
		tr.mu.Lock()
		calls := append([]string(nil), tr.calls...)
		tr.mu.Unlock()
		if !pol.redirects && len(calls) > 1 {
			c.Violation(vlib.Signature{"class": "redirect_followed_while_disabled"}, fmt.Sprintf("redirects off but %d requests were sent: %v", len(calls), calls), map[string]any{"policy": txt, "chain": chain})
		}
		for hi, cu := range calls {
			u, _ := url.Parse(cu)
			ips, resolved := ipsOf(u)
			if needIPs && !resolved {
				c.Violation(vlib.Signature{"class": "sent_without_resolution", "hop": hopClass(hi)}, fmt.Sprintf("request sent to %s although its host could not be resolved for the policy check", cu), map[string]any{"policy": txt, "chain": chain})
				continue
			}
			if !needIPs {
				ips = nil
			}
			ok, why := evalEgress(pol, u, ips)
			c.Distinct("nontrivial", fmt.Sprintf("sent:%s:redirects=%v", hopClass(hi), pol.redirects))
			if !ok {
				c.Violation(vlib.Signature{"class": "denied_url_reached_transport", "clause": why, "hop": hopClass(hi)},
					fmt.Sprintf("a request was sent to %s (hop %d) which the policy denies (%s); resolved to %v", cu, hi, why, ips),
					map[string]any{"policy": txt, "chain": chain, "calls": calls})
			}
		}
		sent += len(calls)
		// classification of the outcome
		isPolicy := res2.Err != nil && errors.Is(res2.Err, dispatcher.ErrPolicyDenied)
		if isPolicy {
			denied++
			// which hop was denied = the one after the last call
			hi := len(calls)
			deniedURL := c16NextHop(tr, calls)
			if hi == 0 {
				deniedURL = abs[0]
			}
			if deniedURL != nil {
				ips, _ := ipsOf(deniedURL)
				if !needIPs {
					ips = nil
				}
				_, why := evalEgress(pol, deniedURL, ips)
				if why == "" {
					why = "stricter_than_statement"
				}
				c.Distinct("nontrivial", fmt.Sprintf("denied:%s:%s", hopClass(hi), why))
			}
		} else if hi, nextHop := len(calls), c16NextHop(tr, calls); pol.redirects && hi >= 1 && hi < 10 && nextHop != nil {
			// the last request was answered with a redirect and no further request
			// went out: if the evaluator denies that hop, the delivery was denied by
			// the policy and must be reported as such (the dispatcher dead-letters
			// ErrPolicyDenied without retry and retries anything else)
			ips, resolved := ipsOf(nextHop)
			if resolved || !needIPs {
				if !needIPs {
					ips = nil
				}
				if ok, why := evalEgress(pol, nextHop, ips); !ok {
					c.Violation(vlib.Signature{"class": "denied_hop_not_reported_as_policy_denied", "clause": why, "hop": hopClass(hi)},
						fmt.Sprintf("redirect hop %d to %s is denied by the policy (%s) and was not sent, but the deliverer reported %v (status %d) instead of ErrPolicyDenied", hi, nextHop, why, res2.Err, res2.StatusCode),
						map[string]any{"policy": txt, "chain": chain, "calls": calls})
				}
			}
		} else if len(calls) == 0 && res2.Err == nil {
			c.Violation(vlib.Signature{"class": "success_without_request"}, "delivery reported a status without any request", map[string]any{"policy": txt, "chain": chain})
		}
		// completeness guard on the first hop: allowed by the statement and resolvable => a request must go out
		if ips0, ok0 := ipsOf(abs[0]); ok0 || !needIPs {
			if !needIPs {
				ips0 = nil
			}
			if ok, _ := evalEgress(pol, abs[0], ips0); ok && len(calls) == 0 && !stricterOK(ips0, pol) {
				c.Violation(vlib.Signature{"class": "allowed_url_not_sent"}, fmt.Sprintf("the policy allows %s (resolved %v) but nothing was sent: %v", chain[0], ips0, res2.Err), map[string]any{"policy": txt, "chain": chain})
			}
		}
		if i < 6 {
			c.Sample(map[string]any{"policy": txt, "chain": chain, "transport_calls": calls, "result_err": fmt.Sprint(res2.Err)})
		}
	}
	c.Set("transport_calls", sent)
	c.Set("policy_denials", denied)
	if sent == 0 || denied == 0 {
		c.Inconclusive("C16 observed no sent or no denied delivery")
	}
	c16Dispatcher(c)
}

// c16NextHop: the location the last request that reached the transport was
// redirected to (resolved against that request's URL), nil if it was not
// redirected. Chains may contain the same URL twice, so positions in the
// generated chain do not identify the hop.
func c16NextHop(tr *recTransport, calls []string) *url.URL {
	if len(calls) == 0 {
		return nil
	}
	last := calls[len(calls)-1]
	tr.mu.Lock()
	loc := tr.next[last]
	tr.mu.Unlock()
	if loc == "" {
		return nil
	}
	base, err := url.Parse(last)
	if err != nil {
		return nil
	}
	ref, err := url.Parse(loc)
	if err != nil {
		return nil
	}
	return base.ResolveReference(ref)
}

// stricterOK: the implementation additionally refuses addresses that are not
// global unicast (e.g. 240.0.0.1, 255.255.255.255) under dns_rebind_protection;
// refusing more than the statement requires is not a violation.
func stricterOK(ips []netip.Addr, p egPolicy) bool {
	if !p.rebind {
		return false
	}
	for _, a := range ips {
		if !net.IP(a.Unmap().AsSlice()).IsGlobalUnicast() {
			return true
		}
	}
	return false
}

func hopClass(i int) string {
	switch {
	case i == 0:
		return "first"
	case i < 10:
		return "redirect"
	}
	return "redirect10+"
}

// c16Dispatcher: denied deliveries through the real PushDispatcher are
// dead-lettered as policy_denied, never nacked; allowed ones are sent.
func c16Dispatcher(c *vlib.Ctx) {
	pol := dispatcher.EgressPolicy{DNSRebindProtection: true, Deny: []dispatcher.EgressRule{{Host: "evil.test"}}}
	type tg struct {
		url   string
		allow bool
	}
	tgs := []tg{{"https://8.8.8.8/ok", true}, {"https://10.0.0.1/x", false}, {"https://[::ffff:127.0.0.1]/x", false}, {"https://evil.test/x", false}, {"ftp://8.8.8.8/x", false}, {"https://good.test/x", true}, {"https://rebind.test/x", false}}
	for _, be := range []string{"memory", "sqlite"} {
		tr := &recTransport{next: map[string]string{}, code: map[string]int{}}
		d := dispatcher.NewHTTPDeliverer(&http.Client{Transport: tr}, pol)
		d.Resolver = &fakeResolver{answers: map[string][]netip.Addr{"good.test": {netip.MustParseAddr("203.0.113.9")}, "evil.test": {netip.MustParseAddr("203.0.113.10")},
			"rebind.test": {netip.MustParseAddr("203.0.113.9"), netip.MustParseAddr("192.168.0.9")}}, errs: map[string]bool{}}
		var routes []dispatcher.RouteConfig
		var msgs []pushcheck.Message
		want := map[string]pushcheck.Behaviour{}
		for i, t := range tgs {
			route := fmt.Sprintf("/e%d", i)
			routes = append(routes, dispatcher.RouteConfig{Route: route, Concurrency: 1, Targets: []dispatcher.TargetConfig{{URL: t.url, Timeout: time.Second, Retry: dispatcher.RetryConfig{Max: 3, Base: time.Second, Cap: time.Minute}}}})
			msgs = append(msgs, pushcheck.Message{ID: fmt.Sprintf("e%d", i), Route: route, Target: t.url})
			if t.allow {
				want[t.url] = pushcheck.Behaviour{Status: 200}
			} else {
				want[t.url] = pushcheck.Behaviour{Err: "policy"}
			}
		}
		pushcheck.Run(c, pushcheck.Scenario{Label: "C16/dispatcher/" + be, Backend: be, Routes: routes, Messages: msgs, Real: d,
			Script: func(_, target string, _ int) pushcheck.Behaviour { return want[target] }})
		tr.mu.Lock()
		for _, cu := range tr.calls {
			for _, t := range tgs {
				if !t.allow && strings.HasPrefix(cu, strings.TrimSuffix(t.url, "/x")) {
					c.Violation(vlib.Signature{"class": "denied_url_reached_transport", "clause": "dispatcher", "hop": "first"}, "dispatcher sent a request to denied target "+cu, nil)
				}
			}
		}
		tr.mu.Unlock()
		c16DispatcherRedirects(c, be)
		// one route, one target, several deliveries settled together: denials next to
		// other terminal outcomes must each keep their own DLQ reason
		{
			url := "https://mixed.example/hook"
			routes := []dispatcher.RouteConfig{{Route: "/mix", Concurrency: 4, Targets: []dispatcher.TargetConfig{{URL: url, Timeout: time.Second, Retry: dispatcher.RetryConfig{Max: 2, Base: time.Second, Cap: time.Minute}}}}}
			var msgs []pushcheck.Message
			for i := 0; i < 24; i++ {
				msgs = append(msgs, pushcheck.Message{ID: fmt.Sprintf("mix%02d", i), Route: "/mix", Target: url})
			}
			pushcheck.Run(c, pushcheck.Scenario{Label: "C16/dispatcher-mixed/" + be, Backend: be, Routes: routes, Messages: msgs,
				Script: func(msg, _ string, _ int) pushcheck.Behaviour {
					switch (int(msg[3]-'0')*10 + int(msg[4]-'0')) % 4 {
					case 0:
						return pushcheck.Behaviour{Err: "policy"}
					case 1:
						return pushcheck.Behaviour{Status: 404}
					case 2:
						return pushcheck.Behaviour{Status: 200}
					}
					return pushcheck.Behaviour{Status: 410}
				}})
		}
	}
}

// c16DispatcherRedirects: redirects enabled; allowed targets answer with
// redirects to denied and to allowed locations. A denied hop must end the
// message in the DLQ as policy_denied after exactly one delivery attempt
// (pushcheck judges the settlement against the deliverer result "policy"),
// with no request to the denied location.
func c16DispatcherRedirects(c *vlib.Ctx, be string) {
	pol := dispatcher.EgressPolicy{DNSRebindProtection: true, Redirects: true, Deny: []dispatcher.EgressRule{{Host: "evil.test"}}}
	tr := &recTransport{code: map[string]int{}, next: map[string]string{
		"https://good.test/to-evil":    "https://evil.test/x",
		"https://good.test/to-private": "https://10.0.0.1/x",
		"https://good.test/to-http":    "ftp://good.test/x",
		"https://good.test/to-good":    "https://8.8.8.8/ok",
		"https://good.test/two-hops":   "https://good.test/to-rebind",
		"https://good.test/to-rebind":  "https://rebind.test/x",
	}}
	d := dispatcher.NewHTTPDeliverer(&http.Client{Transport: tr}, pol)
	d.Resolver = &fakeResolver{answers: map[string][]netip.Addr{"good.test": {netip.MustParseAddr("203.0.113.9")}, "evil.test": {netip.MustParseAddr("203.0.113.10")},
		"rebind.test": {netip.MustParseAddr("203.0.113.9"), netip.MustParseAddr("192.168.0.9")}}, errs: map[string]bool{}}
	want := map[string]pushcheck.Behaviour{
		"https://good.test/to-evil": {Err: "policy"}, "https://good.test/to-private": {Err: "policy"}, "https://good.test/to-http": {Err: "policy"},
		"https://good.test/to-good": {Status: 200}, "https://good.test/two-hops": {Err: "policy"},
	}
	var routes []dispatcher.RouteConfig
	var msgs []pushcheck.Message
	i := 0
	for _, u := range []string{"https://good.test/to-evil", "https://good.test/to-private", "https://good.test/to-http", "https://good.test/to-good", "https://good.test/two-hops"} {
		route := fmt.Sprintf("/rd%d", i)
		routes = append(routes, dispatcher.RouteConfig{Route: route, Concurrency: 1, Targets: []dispatcher.TargetConfig{{URL: u, Timeout: time.Second, Retry: dispatcher.RetryConfig{Max: 3, Base: time.Second, Cap: time.Minute}}}})
		msgs = append(msgs, pushcheck.Message{ID: fmt.Sprintf("rd%d", i), Route: route, Target: u})
		i++
	}
	pushcheck.Run(c, pushcheck.Scenario{Label: "C16/dispatcher-redirects/" + be, Backend: be, Routes: routes, Messages: msgs, Real: d,
		Script: func(_, target string, _ int) pushcheck.Behaviour { return want[target] }})
	tr.mu.Lock()
	defer tr.mu.Unlock()
	perURL := map[string]int{}
	for _, cu := range tr.calls {
		perURL[cu]++
		for _, bad := range []string{"https://evil.test/", "https://10.0.0.1/", "ftp://", "https://rebind.test/"} {
			if strings.HasPrefix(cu, bad) {
				c.Violation(vlib.Signature{"class": "denied_url_reached_transport", "clause": "dispatcher", "hop": "redirect"}, "dispatcher followed a redirect to denied location "+cu, nil)
			}
		}
	}
	for u, w := range want {
		if w.Err == "policy" && perURL[u] != 1 {
			c.Violation(vlib.Signature{"class": "policy_denied_hop_retried", "backend": be}, fmt.Sprintf("target %s redirects to a denied location; it was requested %d times, expected exactly one attempt", u, perURL[u]), map[string]any{"calls": tr.calls})
		}
		c.Distinct("nontrivial", "dispatcher_redirect:"+u+":"+w.String())
	}
}
