package storecheck

import (
	"time"

	"github.com/nuetzliches/hookaido/verifharness/vlib"
)

// ConfigMatrix is the limits/retention matrix shared by the store-level checks.
func ConfigMatrix() []vlib.StoreCfg {
	var out []vlib.StoreCfg
	for _, depth := range []int{0, 3, 8} {
		for _, pol := range []string{"reject", "drop_oldest"} {
			if depth == 0 && pol == "drop_oldest" {
				continue
			}
			out = append(out, vlib.StoreCfg{MaxDepth: depth, DropPolicy: pol})
		}
	}
	// retention variants
	out = append(out,
		vlib.StoreCfg{RetentionMaxAge: 2 * time.Second, PruneInterval: time.Second},
		vlib.StoreCfg{RetentionMaxAge: time.Minute, PruneInterval: time.Nanosecond, DLQMaxAge: 30 * time.Second},
		vlib.StoreCfg{PruneInterval: 50 * time.Millisecond, DLQMaxDepth: 2},
		vlib.StoreCfg{PruneInterval: time.Nanosecond, DeliveredRetention: 3 * time.Second},
		vlib.StoreCfg{MaxDepth: 5, DropPolicy: "drop_oldest", RetentionMaxAge: 10 * time.Second, PruneInterval: time.Second, DLQMaxAge: time.Minute, DLQMaxDepth: 3},
		vlib.StoreCfg{MaxDepth: 6, DropPolicy: "reject", PruneInterval: time.Millisecond, DeliveredRetention: time.Minute, DLQMaxDepth: 1},
		vlib.StoreCfg{DeliveredRetention: time.Hour}, // delivered retention without a prune interval
	)
	return out
}
