package checks

import "github.com/nuetzliches/hookaido/verifharness/vlib"

// c05Restart is the real-binary restart sample (added with the L3 machinery).
func c05Restart(c *vlib.Ctx) {}
