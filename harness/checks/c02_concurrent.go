package checks

import (
	"fmt"
	"sync"
	"time"

	"github.com/nuetzliches/hookaido/internal/queue"
	"github.com/nuetzliches/hookaido/verifharness/storecheck"
	"github.com/nuetzliches/hookaido/verifharness/vlib"
)

// c02Concurrent: 8 goroutines on one store; snapshots only at barriers; every
// goroutine keeps a ledger of what the store acknowledged to it. Conservation:
// accepted = present + acked-away + deleted; nothing appears that nobody
// enqueued; nothing exists twice; SQLite counters equal the row counts.
func c02Concurrent(c *vlib.Ctx, rounds int) {
	dir := c.Scratch()
	for round := 0; round < rounds; round++ {
		r := vlib.Derive(c.Seed, "C02conc", round)
		be := []string{"memory", "sqlite"}[round%2]
		sc := vlib.StoreCfg{}
		if r.Chance(0.3) {
			sc.DeliveredRetention = time.Hour
		}
		clock := vlib.NewVClock(vlib.Epoch)
		h, err := vlib.OpenStore(be, sc, clock, dir)
		if err != nil {
			c.Inconclusive(err.Error())
			return
		}
		type ledger struct {
			enq     map[string]bool // acknowledged enqueues
			removed map[string]bool // acknowledged ack (no delivered retention) / delete_dead
			acked   map[string]bool
		}
		const G = 8
		leds := make([]ledger, G)
		var mu sync.Mutex
		leaseMsg := map[string]string{}
		for phase := 0; phase < 12; phase++ {
			var wg sync.WaitGroup
			for g := 0; g < G; g++ {
				if leds[g].enq == nil {
					leds[g] = ledger{map[string]bool{}, map[string]bool{}, map[string]bool{}}
				}
				wg.Add(1)
				gr := vlib.NewRand(r.U64())
				go func(g int) {
					defer wg.Done()
					L := &leds[g]
					var held []string
					for k := 0; k < 25; k++ {
						switch x := gr.Intn(100); {
						case x < 35:
							id := fmt.Sprintf("r%dg%dp%dk%d", round, g, phase, k)
							if gr.Chance(0.3) {
								var batch []queue.Envelope
								for j := 0; j < gr.Range(1, 4); j++ {
									batch = append(batch, queue.Envelope{ID: fmt.Sprintf("%sb%d", id, j), Route: "/r0", Target: "pull", Payload: []byte(id)})
								}
								if n, err := h.Store.(queue.BatchEnqueuer).EnqueueBatch(batch); err == nil && n == len(batch) {
									for _, e := range batch {
										L.enq[e.ID] = true
									}
								}
							} else if h.Store.Enqueue(queue.Envelope{ID: id, Route: "/r0", Target: "pull", Payload: []byte(id)}) == nil {
								L.enq[id] = true
							}
						case x < 60:
							resp, err := h.Store.Dequeue(queue.DequeueRequest{Route: "/r0", Batch: gr.Range(1, 4), LeaseTTL: time.Minute})
							if err == nil {
								mu.Lock()
								for _, it := range resp.Items {
									leaseMsg[it.LeaseID] = it.ID
									held = append(held, it.LeaseID)
								}
								mu.Unlock()
							}
						case x < 85 && len(held) > 0:
							l := held[len(held)-1]
							held = held[:len(held)-1]
							mu.Lock()
							id := leaseMsg[l]
							mu.Unlock()
							switch gr.Intn(3) {
							case 0:
								if h.Store.Ack(l) == nil {
									L.acked[id] = true
									if sc.DeliveredRetention == 0 {
										L.removed[id] = true
									}
								}
							case 1:
								_ = h.Store.Nack(l, 0)
							default:
								_ = h.Store.MarkDead(l, "x")
							}
						case x < 92:
							// operator mutations on somebody's messages
							id := fmt.Sprintf("r%dg%dp%dk%d", round, gr.Intn(G), phase, gr.Intn(25))
							switch gr.Intn(3) {
							case 0:
								_, _ = h.Store.CancelMessages(queue.MessageCancelRequest{IDs: []string{id}})
							case 1:
								_, _ = h.Store.RequeueMessages(queue.MessageRequeueRequest{IDs: []string{id}})
							default:
								if resp, err := h.Store.DeleteDead(queue.DeadDeleteRequest{IDs: []string{id}}); err == nil && resp.Deleted == 1 {
									L.removed[id] = true
								}
							}
						default:
							_, _ = h.Store.Stats()
						}
					}
				}(g)
			}
			wg.Wait()
			// barrier: quiescent snapshot
			snap, err := h.Snap()
			if err != nil {
				c.Violation(vlib.Signature{"class": "listing_broken", "backend": be, "op": "concurrent"}, "no consistent listing at a quiescent point: "+err.Error(), nil)
				break
			}
			c.Count("evaluations", 1)
			c.Count("concurrent_barriers", 1)
			enq, removed := map[string]bool{}, map[string]bool{}
			for g := range leds {
				for id := range leds[g].enq {
					enq[id] = true
				}
				for id := range leds[g].removed {
					removed[id] = true
				}
			}
			for id := range snap {
				if !enq[id] {
					c.Violation(vlib.Signature{"class": "appeared", "backend": be, "op": "concurrent"}, "message "+id+" exists but no enqueue of it was acknowledged", nil)
				}
				if removed[id] {
					c.Violation(vlib.Signature{"class": "revived", "backend": be, "op": "concurrent"}, "message "+id+" was removed (acknowledged ack/delete) but exists", nil)
				}
			}
			for id := range enq {
				if _, ok := snap[id]; !ok && !removed[id] {
					c.Violation(vlib.Signature{"class": "lost", "backend": be, "op": "concurrent"}, "message "+id+" was accepted and never removed but is gone", nil)
				}
			}
			for _, o := range storecheck.CountersInvariant(h, storecheck.Op{Kind: "concurrent"}) {
				c.Violation(o.Sig, o.What, nil)
			}
			c.Distinct("nontrivial", fmt.Sprintf("concurrent:%s:phase%d:present%d", be, phase, len(snap)/20*20))
			clock.Advance(time.Duration(r.Intn(90)) * time.Second)
		}
		p := h.Path
		h.Close()
		if p != "" {
			storecheck.RemoveDB(p)
		}
	}
}
