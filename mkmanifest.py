#!/usr/bin/env python3
"""Regenerates MANIFEST.json from the table below (run after adding a check)."""
import json, subprocess, os
HOOK_COMMITS = ["706dcd3", "e496d9f"]
CHECKS = {
 "C02": dict(level="exploration", ref="DESIGN.md §3 C02",
   text="Held on every generated operation sequence explored: a transition monitor diffs a full queue snapshot before/after each of ~35k (quick) store operations on memory and SQLite across 13 limits/retention configurations; thorough adds 16x more sequences and a concurrent -race part with conservation and counter invariants.",
   note="Trusted: the snapshot readers (paginated ListMessages; read-only SQL dump for SQLite) and the virtual clock injection. Postgres backend not covered (no server in the sandbox).",
   technique="runtime monitoring: snapshot-diff transition monitor over generated operation histories (virtual clock), SQLite counter invariant hook, race detector on the concurrent part"),
 "C03": dict(level="exploration", ref="DESIGN.md §3 C03",
   text="Held on the sampled schedules: 48 (quick) / 2400 (thorough) concurrent histories of 8-32 clients over direct Store calls, Pull HTTP and Worker gRPC on memory and SQLite, recorded at the client boundary and checked per message with porcupine against a lease-register model (exclusivity mode), built and run under the Go race detector. Also: a transport timing probe (lease_ttl, extend_by once and twice) and late settles of an expired lease racing a consumer on a second SQLite handle at the store's clock-read suspension points.",
   note="Schedules are sampled, not enumerated; evidence reports overlapping operation pairs and distinct per-message operation orders. Virtual clock frozen inside a phase. Postgres not covered.",
   technique="runtime monitoring: client-boundary history recording + porcupine linearizability check against a per-message lease register; Go race detector"),
 "C04": dict(level="exploration", ref="DESIGN.md §3 C04",
   text="Held on the sampled histories: same recorder as C03 with a stale-lease-heavy workload (every lease id ever seen is presented again after expiry, re-lease, cancel, requeue, settle; batch forms, duplicates, blank/unknown ids) checked in fencing mode, with a listing of every message at each quiescent point inside the history.",
   note="The documented idempotent duplicate answer of the Pull/Worker API is derived from the history (another successful call of the same class on that lease issued before this one returned). Postgres not covered.",
   technique="runtime monitoring: client-boundary history recording + porcupine check against a per-message lease register (fencing mode) + quiescent-point listings; Go race detector"),
 "C05": dict(level="exploration", ref="DESIGN.md §3 C05",
   text="Held on every single-client history explored: an independent ready-set model (must/may sets, 10 ms sweep granularity) bounds the size and content of every dequeue on memory and SQLite, through the store and through pullapi (max_batch 1/5/100/250); SQLite handles abandoned with leases held are reopened past expiry and must offer everything exactly once.",
   note="Unbounded liveness restated as bounded progress on the store clock. One known finding (KF2: max_batch > 100). Postgres not covered.",
   technique="runtime monitoring: reference-model monitor (ready set) over generated single-client histories under a virtual clock; abandon-and-reopen crash simulation"),
 "C06": dict(level="exploration", ref="DESIGN.md §3 C06",
   text="Held on every scripted scenario: the real PushDispatcher runs against a recording store wrapper and a scripted deliverer under a harness-driven virtual clock; the finite classification table (status 100-599 x error kinds x attempts 1..max+1 for retry.max 1 and 3) is enumerated completely, plus generated per-target behaviour sequences, retry configs, DLQ requeue cycles, injected store failures and a real-HTTP sample; every settlement, nack delay, next offer time and attempt record is compared with an independent table. A wire-level part through the real `hookaido run` process (tracing on/off, SQLite/memory) compares the requests raw TCP targets received with the recorded attempts.",
   note="Attempt bound and terminal-state clauses only asserted without injected store failures (as the quantifier says). Real time is only a watchdog.",
   technique="runtime monitoring: event-log checker over a recording store wrapper + scripted deliverer against an independent classification table (virtual clock); wire-level request log of raw TCP targets vs. attempt records of the real process"),
 "C07": dict(level="exploration", ref="DESIGN.md §3 C07",
   text="Held on every message explored: bodies and header sets written byte by byte over TCP to the production ingress handler (and items published through the Admin API) are consumed through Pull HTTP, Worker gRPC, the Admin listing and push delivery to a local sink, after 1-3 redeliveries and (SQLite) after a restart on the same file; payload compared by bytes/sha256, headers against a re-implemented storage rule.",
   note="Hop-by-hop / stack-managed headers excluded from the comparison; ~450 messages x 4 consumers per quick run.",
   technique="runtime monitoring: end-to-end byte/sha256 comparison through the production wiring with an independent header-rule oracle"),
 "C08": dict(level="exploration", ref="DESIGN.md §3 C08",
   text="Held on every generated request: configurations with basic, hmac (inline and windowed secrets, custom headers, tolerance) and forward auth (mock service incl. hang, reset, closed port, redirect) run through the production wiring under a virtual clock; a valid request and single-field mutations of it are judged by an independent authenticator: queue changed => authentic; not authentic => 401/403/503 as stated and queue unchanged. Also: secrets rotated behind unchanged references + reload, empty auth hmac blocks, and content comparison of already queued messages around every rejected request.",
   note="Soundness is the claim; completeness is a vacuity guard only. At exactly |now-ts| = tolerance either answer is accepted.",
   technique="runtime monitoring: reference-model monitor (independent authenticator) + snapshot-unchanged-on-rejection over generated and mutated requests"),
 "C09": dict(level="exploration", ref="DESIGN.md §3 C09",
   text="Held on every history explored: per-nonce acceptance ledger over ingress.HMACAuth histories under a virtual clock (replays at every instant class incl. exactly ts+tolerance, up to 5000 interleaved nonces), 16-goroutine identical requests under the race detector, and original/reload/replay histories through the production reload path (unchanged file, changed file, two reloads, Admin management mutation). Further: a running clock (every read advances it) around ts+tolerance, tolerance-changing reloads, and a fan-out route on a store that refuses one per-target enqueue (no request/target pair may be stored twice).",
   note="The ledger is the consequence shared by every reading of the statement (later arrival must be > ts_first + tolerance).",
   technique="runtime monitoring: offline checker (at-most-once ledger) over recorded acceptance histories; Go race detector"),
 "C10": dict(level="exploration", ref="DESIGN.md §3 C10",
   text="Held on every generated configuration/request pair: 120 (quick) configurations with overlapping paths, match blocks, named matchers and inbound/outbound/internal routes, 140 requests each (perturbed paths, methods, hosts, headers, queries, remote addresses) against the production ingress handler, compared with an independent reference resolver written from the documented routing semantics (status, Allow, route of the stored message).",
   note="Upper-case request methods and comma-free header values only (documentation and implementation differ there, outside the statement).",
   technique="runtime monitoring: differential against an independent reference resolver over generated configurations and requests"),
 "C11": dict(level="exploration", ref="DESIGN.md §3 C11",
   text="Held on every generated configuration and credential: every pull endpoint x {dequeue, ack, nack, extend} over HTTP and gRPC and every Admin endpoint/method pair with ~17 credential variants against the production wiring with a pre-loaded queue whose lease ids the caller knows; independent allowlist oracle: not authorized => 401/Unauthenticated and snapshot unchanged; configurations with an empty effective allowlist must not compile.",
   note="Scheme-case and second-header-value variants are treated as ambiguous.",
   technique="runtime monitoring: reference-model monitor (allowlist oracle) + snapshot-unchanged-on-401 over generated configurations and credentials"),
 "C12": dict(level="exploration", ref="DESIGN.md §3 C12",
   text="Held on every generated sequence: an independent admission model predicts admit/refuse and the exact evicted set for each enqueue (max_depth 1-8 x reject/drop_oldest, memory-pressure limits on memory) and every refusal must leave the snapshot unchanged; body/header sizes around the limits and arrival sequences (bursts, steady, idle gaps, 16-goroutine same-instant) go through the production ingress handler and token-bucket limiter under a virtual clock.",
   note="received_at strictly increasing, retention off, so that 'oldest' and the active count are unambiguous; over-depth histories skipped as the quantifier says.",
   technique="runtime monitoring: reference-model monitor (admission, token bucket) + snapshot-unchanged-on-refusal monitor over generated histories"),
 "C13": dict(level="exploration", ref="DESIGN.md §3 C13",
   text="Held (modulo one known finding) on every lock-step differential execution explored: the same generated operation sequence runs on memory and SQLite under one virtual clock and every return value plus a full listing is compared after every step (~19k steps quick), plus directed histories for every defect found so far.",
   note="Forced-choice dequeues only (choice among equally eligible messages is exempt); memory-only documented guards kept out of play; Postgres not covered. Known finding KF1 (single Enqueue while over max_depth).",
   technique="runtime monitoring: lock-step differential execution of generated Store-interface histories with per-step result and listing comparison"),
 "C14": dict(level="exploration", ref="DESIGN.md §3 C14",
   text="Held on every generated population and mutation: an independent selection (criteria, newest-first with id tie-break, limit default 100 / cap 1000) is compared with the snapshot diff and the reported counts for by-id and by-filter cancel/requeue/resume and DLQ requeue/delete on memory and SQLite, previews must change nothing, canceled leases are probed and must be dead.",
   note="Admin HTTP and MCP surfaces are sampled on top of the store-level runs. Postgres not covered.",
   technique="runtime monitoring: reference-model monitor (independent selection) + snapshot diff over generated populations and mutations"),
}
CHECKS.update({
 "C01": dict(level="fault_enumeration", ref="DESIGN.md §3 C01",
   text="Held at every crash point reached: the real binary (SQLite on disk, WAL checkpoint every 40 ms) is SIGKILLed from inside at 16 named points x hit index {1,2,3,5,8,13,21} and from outside at seeded operation indices under 4 concurrent clients (ingress single/fan-out, publish batches, dequeue, single/batch ack/nack/dead-letter), restarted on the same database (up to 3 generations) and audited against a client-side ledger through the Admin listing (exactly once per target, same payload sha256, acknowledged settlements not undone, nothing nobody sent, restart succeeds, everything deliverable offered again); plus an strace trace specification: a completed fsync of the WAL between the WAL write carrying the message and the 202/200.",
   note="Process death, not power loss (page cache survives); the trace specification is the substitute for the ordering part. 80 restart audits quick, ~2000 thorough.",
   technique="runtime monitoring with fault injection: kill-point enumeration + restart audit against a client ledger (offline no-loss / exactly-once checker); strace syscall-order specification"),
 "C18": dict(level="fault_enumeration", ref="DESIGN.md §3 C18",
   text="Held (modulo one known finding) on every injected failure and crash point: 9 reload failure kinds x configuration pairs leave a 13-probe behaviour fingerprint unchanged; requests are classified old/new/neither while the reload is parked between its swaps, while a request is parked after route resolution, and free-running with 16 goroutines under the race detector; `hookaido mcp serve` (config_apply, endpoint upsert/delete) and `hookaido run` (Admin PUT) are SIGKILLed at every named point of the file replacement and at injected syscall indices (strace inject) - the file must be the complete old or new content and compile; trace specification write(tmp) -> fsync(tmp) -> rename -> fsync(dir).",
   note="Known finding KF4 (reader side: per-request configuration reads under separate lock acquisitions). 'Cannot be read' is produced without permission bits (root).",
   technique="runtime monitoring with fault injection: schedule hooks (rendezvous) + old/new/neither classifier, behaviour-fingerprint comparison, kill-point and syscall-injection enumeration with file-state oracle; Go race detector"),
 "C15": dict(level="exploration", ref="DESIGN.md §3 C15",
   text="Held on every generated batch: 1-40 (thorough up to 1000) items with at most one invalid item of 22 kinds at a generated position, request-level causes, policy variations, managed/unmanaged and global/endpoint-scoped paths, near-full queues under both drop policies on memory and SQLite, through the production Admin wiring; independent validator: reject => snapshot unchanged + item_index names the item; accept => every item present once, queued, as published.",
   note="item_index equality only when exactly one item is invalid.",
   technique="runtime monitoring: reference-model monitor (independent validator) + snapshot diff over generated publish batches"),
 "C16": dict(level="exploration", ref="DESIGN.md §3 C16",
   text="Held on every URL/policy case: 24k (quick) generated policies x URL chains through the real HTTPDeliverer with a recording RoundTripper and a scripted resolver; every URL that reaches the transport (first hop and up to 12 redirect hops) must be allowed by an independent evaluator written from the statement; denials through the PushDispatcher must be dead-lettered policy_denied without a request.",
   note="The resolver answer is the one the policy check saw; later re-resolution by the dialer is outside the statement.",
   technique="runtime monitoring: hooked transport/resolver + independent policy evaluator over generated URLs and redirect chains"),
 "C17": dict(level="exploration", ref="DESIGN.md §3 C17",
   text="Held on every case: generated secret-version sets and selection modes compiled by config.Compile; the real HTTPDeliverer (injected Now on window boundaries) posts to a local server and the signature is recomputed over the request as received with the independently selected version; no valid/loadable version => zero requests; inbound verification through the production loadAuth wiring accepts exactly the secrets valid at the signed timestamp. Also: long-lived deliverers across all boundary instants, and every request of a redirected delivery judged by its own method, path and body.",
   note="valid_from ties broken by smallest id (the order secrets.Set documents).",
   technique="runtime monitoring: receiver-side recomputation + independent version selection over generated rotation windows"),
 "C19": dict(level="exploration", ref="DESIGN.md §3 C19",
   text="Held (modulo one known finding) on every text that parses: grammar-directed texts, spelling mutators and a corpus harvested from the tree and recombined (~5k parsing texts quick, ~300k thorough); Format(Parse(t)) must parse, compile to a DeepEqual runtime configuration with the same validation result, and be a fixed point.",
   note="Known finding KF3: empty quoted values are dropped by the formatter.",
   technique="runtime monitoring: metamorphic/differential oracle over generated configuration programs"),
 "C20": dict(level="exploration", ref="DESIGN.md §3 C20",
   text="The complete finite gating table (34 tool names x 3 roles x 4 flag combinations x principal x actor = 1488 rows) is executed on fresh MCP servers with file/database/process/audit snapshots, tools/list is compared for all 24 server configurations, and config-writing tools are probed with foreign, traversal and symlink paths, unknown keys and non-compiling content.",
   note="exhaustive: true refers to the gating table; argument values for the confinement clauses are sampled. Expected table transcribed by hand from spec.md and cross-checked at run time.",
   technique="runtime monitoring: exhaustive table-driven execution with before/after state snapshots and audit-log checker"),
})
NOT_APPLICABLE = {}
ALL = ["C%02d" % i for i in range(1, 21)]

def main():
    checks = []
    for pid in sorted(CHECKS):
        c = CHECKS[pid]
        checks.append({
            "property_id": pid,
            "quick_cmd": f"./check {pid} quick",
            "thorough_cmd": f"./check {pid} thorough",
            "evidence_file": f"/verif/evidence/{pid}.json",
            "engine": "vcheck",
            "level_claimed": {"category": c["level"], "text": c["text"], "design_ref": c["ref"]},
            "level_note": c["note"],
            "technique": c["technique"],
        })
    na = []
    for pid in ALL:
        if pid not in CHECKS:
            na.append({"property_id": pid, "reason": NOT_APPLICABLE.get(pid, "check not built yet in this session (planned, see DESIGN.md §3)")})
    m = {
        "version": 1,
        "setup_cmd": "./setup.sh",
        "hooks": {
            "guard": "verif",
            "enable": "go build -tags verif (harness module /verif/harness with replace => /repo; product binary /verif/.build/hookaido-verif)",
            "baseline_off_cmd": "cd /repo && . /verif/env.sh && go test -mod=mod -json -vet=off -count=1 -timeout 25m ./...",
            "source_commits": HOOK_COMMITS,
            "add_only": True,
        },
        "engines": [{"name": "vcheck", "path": "/verif/harness", "serves_properties": sorted(CHECKS),
                     "kind_free_text": "Go harness: generators + runtime monitors over the real hookaido packages (build tag verif), virtual clock, race detector, porcupine, child-process crash injection"}],
        "checks": checks,
        "not_applicable": na,
        "notes": "Exit codes: 0 held on everything explored, 1 violated (VIOLATION line + replay file), 2 inconclusive. known_findings.json lists recorded and fixed defects.",
    }
    json.dump(m, open(os.path.join(os.path.dirname(__file__), "MANIFEST.json"), "w"), indent=1)
    print("wrote MANIFEST.json with", len(checks), "checks")
main()
