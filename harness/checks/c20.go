package checks

import (
	"bufio"
	"bytes"
	"context"
	"crypto/sha256"
	"encoding/hex"
	"encoding/json"
	"fmt"
	"io"
	"os"
	"os/exec"
	"path/filepath"
	"sort"
	"strconv"
	"strings"
	"syscall"
	"time"

	"github.com/nuetzliches/hookaido/internal/config"
	"github.com/nuetzliches/hookaido/internal/mcp"
	"github.com/nuetzliches/hookaido/internal/queue"
	"github.com/nuetzliches/hookaido/verifharness/vlib"
)

// ---- gating table transcribed by hand from internal/mcp/spec.md + DESIGN.md "Access model" ----

type toolSpec struct {
	Role     int    // 1 read, 2 operate, 3 admin
	Flag     string // "", "mutations", "runtime"
	Mutating bool
	Actor    bool // accepts an "actor" argument
}

var c20Tools = map[string]toolSpec{
	"config_parse": {1, "", false, false}, "config_validate": {1, "", false, false}, "config_compile": {1, "", false, false}, "config_fmt_preview": {1, "", false, false},
	"config_diff": {1, "", false, false}, "admin_health": {1, "", false, false}, "management_model": {1, "", false, false},
	"backlog_top_queued": {1, "", false, false}, "backlog_oldest_queued": {1, "", false, false}, "backlog_aging_summary": {1, "", false, false}, "backlog_trends": {1, "", false, false},
	"messages_list": {1, "", false, false}, "attempts_list": {1, "", false, false}, "dlq_list": {1, "", false, false},
	"dlq_requeue": {2, "mutations", true, true}, "dlq_delete": {2, "mutations", true, true}, "messages_cancel": {2, "mutations", true, true}, "messages_requeue": {2, "mutations", true, true},
	"messages_resume": {2, "mutations", true, true}, "messages_publish": {2, "mutations", true, true}, "messages_cancel_by_filter": {2, "mutations", true, true},
	"messages_requeue_by_filter": {2, "mutations", true, true}, "messages_resume_by_filter": {2, "mutations", true, true},
	"instance_status": {2, "runtime", false, false}, "instance_logs_tail": {2, "runtime", false, false},
	"config_apply": {3, "mutations", true, false}, "management_endpoint_upsert": {3, "mutations", true, true}, "management_endpoint_delete": {3, "mutations", true, true},
	"instance_start": {3, "runtime", true, false}, "instance_stop": {3, "runtime", true, false}, "instance_reload": {3, "runtime", true, false},
}

var c20Unknown = []string{"config_delete", "shell_exec", "messages_purge"}

const c20Config = `ingress { listen 127.0.0.1:18080 }
pull_api { listen 127.0.0.1:18081
 auth token raw:tok }
admin_api { listen 127.0.0.1:18082 }
/hooks { pull { path /pull/hooks } }
/managed { application app1
 endpoint_name ep1
 pull { path /pull/managed } }
/spare { pull { path /pull/spare } }
`

type c20Fixture struct {
	Dir, Cfg, DB, PID, Stub, Marker string
}

var c20TemplateDB string

func c20MakeTemplate(dir string) error {
	p := filepath.Join(dir, "template.db")
	st, err := queue.NewSQLiteStore(p, queue.WithSQLiteCheckpointInterval(0))
	if err != nil {
		return err
	}
	for _, e := range []queue.Envelope{
		{ID: "q1", Route: "/hooks", Target: "pull", Payload: []byte("a")},
		{ID: "q2", Route: "/hooks", Target: "pull", Payload: []byte("b")},
		{ID: "d1", Route: "/hooks", Target: "pull", State: queue.StateDead, DeadReason: "no_retry"},
		{ID: "c1", Route: "/hooks", Target: "pull", State: queue.StateCanceled},
	} {
		if err := st.Enqueue(e); err != nil {
			return err
		}
	}
	if err := st.Close(); err != nil {
		return err
	}
	c20TemplateDB = p
	return nil
}

func c20NewFixture(root string, n int) (c20Fixture, error) {
	d := filepath.Join(root, fmt.Sprintf("fx%d", n))
	if err := os.MkdirAll(d, 0o755); err != nil {
		return c20Fixture{}, err
	}
	f := c20Fixture{Dir: d, Cfg: filepath.Join(d, "Hookaidofile"), DB: filepath.Join(d, "hookaido.db"), PID: filepath.Join(d, "hookaido.pid"), Stub: filepath.Join(d, "stub-run.sh"), Marker: filepath.Join(d, "stub-was-run")}
	if err := os.WriteFile(f.Cfg, []byte(c20Config), 0o644); err != nil {
		return f, err
	}
	b, err := os.ReadFile(c20TemplateDB)
	if err != nil {
		return f, err
	}
	if err := os.WriteFile(f.DB, b, 0o644); err != nil {
		return f, err
	}
	stub := "#!/bin/sh\necho run >> " + f.Marker + "\nexit 0\n"
	return f, os.WriteFile(f.Stub, []byte(stub), 0o755)
}

type fsState map[string]string

func c20Snapshot(dir string) fsState {
	out := fsState{}
	_ = filepath.Walk(dir, func(p string, info os.FileInfo, err error) error {
		if err != nil || info.IsDir() {
			return nil
		}
		rel, _ := filepath.Rel(dir, p)
		if info.Mode()&os.ModeSymlink != 0 {
			t, _ := os.Readlink(p)
			out[rel] = "symlink:" + t
			return nil
		}
		b, err := os.ReadFile(p)
		if err != nil {
			out[rel] = "unreadable"
			return nil
		}
		h := sha256.Sum256(b)
		out[rel] = hex.EncodeToString(h[:8])
		return nil
	})
	return out
}

func fsDiff(a, b fsState) []string {
	var d []string
	for k, v := range a {
		if bv, ok := b[k]; !ok {
			d = append(d, "removed:"+k)
		} else if bv != v {
			d = append(d, "changed:"+k)
		}
	}
	for k := range b {
		if _, ok := a[k]; !ok {
			d = append(d, "created:"+k)
		}
	}
	sort.Strings(d)
	return d
}

func c20Args(tool string, f c20Fixture, actor string) map[string]any {
	a := map[string]any{}
	switch tool {
	case "dlq_requeue", "dlq_delete":
		a["ids"], a["reason"] = []string{"d1"}, "verif"
	case "messages_cancel":
		a["ids"], a["reason"] = []string{"q1"}, "verif"
	case "messages_requeue", "messages_resume":
		a["ids"], a["reason"] = []string{"c1"}, "verif"
	case "messages_publish":
		a["items"], a["reason"] = []map[string]any{{"id": "p1", "route": "/hooks", "payload_b64": "eA=="}}, "verif"
	case "messages_cancel_by_filter":
		a["route"], a["state"], a["limit"], a["reason"] = "/hooks", "queued", 1, "verif"
	case "messages_requeue_by_filter":
		a["route"], a["state"], a["limit"], a["reason"] = "/hooks", "dead", 1, "verif"
	case "messages_resume_by_filter":
		a["route"], a["limit"], a["reason"] = "/hooks", 1, "verif"
	case "config_apply":
		a["content"], a["mode"] = c20Config+"/applied { pull { path /pull/applied } }\n", "write_only"
	case "management_endpoint_upsert":
		a["application"], a["endpoint_name"], a["route"], a["reason"] = "app1", "ep2", "/spare", "verif"
	case "management_endpoint_delete":
		a["application"], a["endpoint_name"], a["reason"] = "app1", "ep1", "verif"
	case "instance_start", "instance_stop", "instance_reload":
		a["timeout"] = "40ms"
	case "instance_logs_tail":
	case "config_diff":
		a["content"] = c20Config
	case "config_fmt_preview":
	}
	if actor != "" {
		a["actor"] = actor
	}
	return a
}

type rpcOut struct {
	Result struct {
		IsError bool `json:"isError"`
		Content []struct {
			Text string `json:"text"`
		} `json:"content"`
		Tools []struct {
			Name string `json:"name"`
		} `json:"tools"`
	} `json:"result"`
	Error *struct {
		Code    int    `json:"code"`
		Message string `json:"message"`
	} `json:"error"`
}

func c20Call(f c20Fixture, role string, mut, rt bool, principal string, method string, params any) (rpcOut, []map[string]any, error) {
	pb, _ := json.Marshal(params)
	req, _ := json.Marshal(map[string]any{"jsonrpc": "2.0", "id": 1, "method": method, "params": json.RawMessage(pb)})
	var in, out, audit bytes.Buffer
	fmt.Fprintf(&in, "Content-Length: %d\r\n\r\n%s", len(req), req)
	opts := []mcp.Option{mcp.WithRole(mcp.Role(role)), mcp.WithMutationsEnabled(mut), mcp.WithRuntimeControlEnabled(rt), mcp.WithPrincipal(principal), mcp.WithAuditWriter(&audit),
		mcp.WithRuntimeControlPIDFile(f.PID), mcp.WithRuntimeControlRunBinary(f.Stub), mcp.WithRuntimeControlRunWatch(false)}
	s := mcp.NewServer(&in, &out, f.Cfg, f.DB, opts...)
	ctx, cancel := context.WithTimeout(context.Background(), 20*time.Second)
	defer cancel()
	if err := s.Serve(ctx); err != nil {
		return rpcOut{}, nil, err
	}
	br := bufio.NewReader(&out)
	n := -1
	for {
		line, err := br.ReadString('\n')
		if err != nil {
			return rpcOut{}, nil, fmt.Errorf("no response frame: %v", err)
		}
		line = strings.TrimSpace(line)
		if line == "" {
			break
		}
		if strings.HasPrefix(strings.ToLower(line), "content-length:") {
			n, _ = strconv.Atoi(strings.TrimSpace(line[len("content-length:"):]))
		}
	}
	body := make([]byte, n)
	if _, err := io.ReadFull(br, body); err != nil {
		return rpcOut{}, nil, err
	}
	var ro rpcOut
	if err := json.Unmarshal(body, &ro); err != nil {
		return rpcOut{}, nil, err
	}
	var recs []map[string]any
	sc := bufio.NewScanner(&audit)
	sc.Buffer(make([]byte, 1<<20), 1<<20)
	for sc.Scan() {
		var m map[string]any
		if json.Unmarshal(sc.Bytes(), &m) == nil {
			recs = append(recs, m)
		} else {
			recs = append(recs, map[string]any{"unparsable": sc.Text()})
		}
	}
	return ro, recs, nil
}

func accessDenied(text string) bool {
	return strings.Contains(text, "is disabled (start server with") || strings.Contains(text, "is not permitted for role") ||
		strings.Contains(text, "requires configured MCP principal") || strings.HasPrefix(text, "unknown tool ")
}

var auditKeys = []string{"timestamp", "principal", "role", "tool", "input_hash", "result", "duration_ms"}

// C20: MCP tools are gated, confined and audited.
func C20(c *vlib.Ctx) {
	c.Rule("the complete gating table: (31 known + 3 unknown tool names) x 3 roles x 4 flag combinations x principal present/absent x actor absent/equal/different (actor only for the tools that take one) is executed, one fresh mcp.NewServer per row over in-memory frames with minimal valid arguments, on a fixture of config file + SQLite queue file + pid file + stub run-binary; expected allow/refuse comes from a table transcribed by hand from internal/mcp/spec.md (cross-checked at run time against its '(requires --enable-...)' headings); before/after: sha256 of every file in the fixture directory (config, database, pid file), marker of the stub binary, number and fields of audit records. tools/list is compared with the callable set for each of the 24 server configurations. Confinement: config-writing tools with foreign, traversal and symlink paths, unknown keys and non-compiling content; write failures (config path occupied by a directory); a config path that does not exist yet (write_only, write_and_reload that must roll back, preview, non-compiling content; called once and twice: the path ends absent or compiling). Audit sink faults: a session of six mutating calls (allowed, actor mismatch, flag off, config write) on one server whose audit sink fails one Write: at most that one record may be missing. distinct_nontrivial = distinct (tool, role, flags, principal, actor, expected) rows.")
	c.Set("exhaustive", true)
	root := c.Scratch()
	if err := c20MakeTemplate(root); err != nil {
		c.Inconclusive("C20 template db: " + err.Error())
		return
	}
	c20CrossCheckSpec(c)
	names := make([]string, 0, len(c20Tools)+len(c20Unknown))
	for n := range c20Tools {
		names = append(names, n)
	}
	sort.Strings(names)
	names = append(names, c20Unknown...)
	roles := []string{"read", "operate", "admin"}
	rank := map[string]int{"read": 1, "operate": 2, "admin": 3}
	row := 0
	for _, tool := range names {
		spec, known := c20Tools[tool]
		for _, role := range roles {
			for _, mut := range []bool{false, true} {
				for _, rt := range []bool{false, true} {
					for _, principal := range []string{"", "alice"} {
						actors := []string{""}
						if spec.Actor || !known {
							actors = []string{"", "alice", "mallory"}
						}
						for _, actor := range actors {
							row++
							f, err := c20NewFixture(root, row)
							if err != nil {
								c.Inconclusive("C20 fixture: " + err.Error())
								return
							}
							before := c20Snapshot(f.Dir)
							ro, recs, err := c20Call(f, role, mut, rt, principal, "tools/call", map[string]any{"name": tool, "arguments": c20Args(tool, f, actor)})
							after := c20Snapshot(f.Dir)
							if err != nil {
								c.Inconclusive(fmt.Sprintf("C20 row %s/%s: %v", tool, role, err))
								_ = os.RemoveAll(f.Dir)
								continue
							}
							text := ""
							if len(ro.Result.Content) > 0 {
								text = ro.Result.Content[0].Text
							}
							// ---- expectation from the table ----
							allow := known && rank[role] >= spec.Role &&
								(spec.Flag != "mutations" || mut) && (spec.Flag != "runtime" || rt) &&
								(!spec.Mutating || principal != "")
							actorMismatch := allow && actor != "" && principal != "" && actor != principal
							c.Count("evaluations", 1)
							c.Distinct("nontrivial", fmt.Sprintf("%s:%s:m=%v:r=%v:p=%v:a=%s:allow=%v", tool, role, mut, rt, principal != "", actor, allow))
							wit := map[string]any{"tool": tool, "role": role, "enable_mutations": mut, "enable_runtime_control": rt, "principal": principal, "actor": actor,
								"is_error": ro.Result.IsError, "text": text[:minInt(300, len(text))], "audit": recs, "fs_diff": fsDiff(before, after)}
							refused := ro.Result.IsError && accessDenied(text)
							if ro.Error != nil {
								refused = true
							}
							sig := func(class string) vlib.Signature {
								return vlib.Signature{"class": class, "tool": tool, "role": role, "flags": fmt.Sprintf("m=%v,r=%v", mut, rt), "principal": fmt.Sprint(principal != ""), "actor": actor}
							}
							if allow && refused {
								c.Violation(sig("allowed_call_refused"), fmt.Sprintf("%s should run for role=%s mutations=%v runtime=%v principal=%q but was refused: %s", tool, role, mut, rt, principal, text), wit)
							}
							if !allow && !refused {
								c.Violation(sig("refused_call_ran"), fmt.Sprintf("%s must be refused for role=%s mutations=%v runtime=%v principal=%q but ran: %s", tool, role, mut, rt, principal, text[:minInt(160, len(text))]), wit)
							}
							if !allow || actorMismatch {
								if d := fsDiff(before, after); len(d) > 0 {
									c.Violation(sig("refused_call_had_effect"), fmt.Sprintf("%s was to be refused (allow=%v, actor mismatch=%v) but files changed: %v", tool, allow, actorMismatch, d), wit)
								}
								if actorMismatch && !ro.Result.IsError {
									c.Violation(sig("actor_mismatch_accepted"), fmt.Sprintf("%s ran with actor %q != principal %q", tool, actor, principal), wit)
								}
							}
							// ---- audit ----
							wantRecs := 0
							if known && spec.Mutating {
								wantRecs = 1
							}
							if len(recs) != wantRecs {
								c.Violation(sig("audit_record_count"), fmt.Sprintf("%s (mutating=%v): %d audit records, expected %d", tool, spec.Mutating, len(recs), wantRecs), wit)
							} else if wantRecs == 1 {
								rec := recs[0]
								for _, k := range auditKeys {
									if _, ok := rec[k]; !ok {
										c.Violation(sig("audit_field_missing"), fmt.Sprintf("audit record of %s lacks %q: %v", tool, k, rec), wit)
									}
								}
								wantResult := "success"
								switch {
								case !allow:
									wantResult = "denied"
								case ro.Result.IsError:
									wantResult = "error"
								}
								if rec["result"] != wantResult || rec["tool"] != tool || rec["principal"] != principal || rec["role"] != role {
									c.Violation(sig("audit_record_wrong"), fmt.Sprintf("audit record %v does not describe the call (expected tool=%s principal=%q role=%s result=%s)", rec, tool, principal, role, wantResult), wit)
								}
								if h, _ := rec["input_hash"].(string); len(h) < 16 {
									c.Violation(sig("audit_field_missing"), "input_hash is empty", wit)
								}
							}
							if row <= 2 {
								c.Sample(wit)
							}
							_ = os.RemoveAll(f.Dir)
						}
					}
				}
			}
		}
	}
	c.Set("gating_rows", row)
	// ---- tools/list == callable set ----
	for _, role := range roles {
		for _, mut := range []bool{false, true} {
			for _, rt := range []bool{false, true} {
				for _, principal := range []string{"", "alice"} {
					row++
					f, _ := c20NewFixture(root, row)
					ro, _, err := c20Call(f, role, mut, rt, principal, "tools/list", map[string]any{})
					_ = os.RemoveAll(f.Dir)
					if err != nil {
						c.Inconclusive("C20 tools/list: " + err.Error())
						continue
					}
					got := map[string]bool{}
					for _, t := range ro.Result.Tools {
						got[t.Name] = true
					}
					c.Count("evaluations", 1)
					for tool, spec := range c20Tools {
						allow := rank[role] >= spec.Role && (spec.Flag != "mutations" || mut) && (spec.Flag != "runtime" || rt) && (!spec.Mutating || principal != "")
						if allow != got[tool] {
							c.Violation(vlib.Signature{"class": "tools_list_differs", "tool": tool, "role": role, "flags": fmt.Sprintf("m=%v,r=%v", mut, rt), "principal": fmt.Sprint(principal != "")},
								fmt.Sprintf("tools/list advertises %s=%v but the call would be allowed=%v (role=%s m=%v r=%v principal=%q)", tool, got[tool], allow, role, mut, rt, principal), nil)
						}
					}
					for tname := range got {
						if _, ok := c20Tools[tname]; !ok {
							c.Violation(vlib.Signature{"class": "tools_list_unknown_tool", "tool": tname}, "tools/list advertises a tool outside the specified set: "+tname, nil)
						}
					}
				}
			}
		}
	}
	c20Confinement(c, root, &row)
	c20PathSpellings(c, root, &row)
	c20NameSpellings(c, root, &row)
	c20ActorShapes(c, root, &row)
	c20WriteFailures(c, root, &row)
	c20FreshPath(c, root, &row)
	c20AuditSinkFault(c, root, &row)
	c20AuditLive(c, root)
}

// c20CrossCheckSpec compares the transcribed table with the flag headings of spec.md.
func c20CrossCheckSpec(c *vlib.Ctx) {
	b, err := os.ReadFile("/repo/internal/mcp/spec.md")
	if err != nil {
		c.Assume("internal/mcp/spec.md not readable: the transcribed table could not be cross-checked at run time")
		return
	}
	text := string(b)
	checked := 0
	for tool, spec := range c20Tools {
		idx := strings.Index(text, "`"+tool+"`")
		if idx < 0 {
			continue
		}
		line := text[idx:]
		if nl := strings.IndexByte(line, '\n'); nl >= 0 {
			line = line[:nl]
		}
		checked++
		hasMut := strings.Contains(line, "--enable-mutations")
		hasRT := strings.Contains(line, "--enable-runtime-control")
		if hasMut != (spec.Flag == "mutations") && (hasMut || hasRT) {
			c.Inconclusive(fmt.Sprintf("gating table and spec.md disagree on the flag of %s: %q", tool, line))
		}
		if hasRT != (spec.Flag == "runtime") && (hasMut || hasRT) {
			c.Inconclusive(fmt.Sprintf("gating table and spec.md disagree on the flag of %s: %q", tool, line))
		}
	}
	c.Set("spec_md_tools_cross_checked", checked)
}

// c20WriteFailures: the config write itself fails at its last step (the path is
// occupied by a directory, by a non-empty directory, or its parent vanished).
// The call must report an error, leave no file behind anywhere near the
// configured path (no temporary files either) and be audited once as an error.
func c20WriteFailures(c *vlib.Ctx, root string, row *int) {
	valid := c20Config + "/extra { pull { path /pull/extra } }\n"
	obstacles := []struct {
		name  string
		setup func(f c20Fixture)
	}{
		{"path_is_empty_directory", func(f c20Fixture) { _ = os.Remove(f.Cfg); _ = os.Mkdir(f.Cfg, 0o755) }},
		{"path_is_non_empty_directory", func(f c20Fixture) {
			_ = os.Remove(f.Cfg)
			_ = os.Mkdir(f.Cfg, 0o755)
			_ = os.WriteFile(filepath.Join(f.Cfg, "inside"), []byte("x"), 0o644)
		}},
	}
	calls := []struct {
		tool string
		args map[string]any
	}{
		{"config_apply", map[string]any{"content": valid, "mode": "write_only"}},
		{"config_apply", map[string]any{"content": valid, "mode": "write_and_reload", "reload_timeout": "100ms"}},
	}
	for _, ob := range obstacles {
		for _, cl := range calls {
			for rep := 0; rep < 2; rep++ {
				*row++
				f, err := c20NewFixture(root, *row)
				if err != nil {
					c.Inconclusive(err.Error())
					return
				}
				ob.setup(f)
				before := c20Snapshot(f.Dir)
				var ro rpcOut
				var recs []map[string]any
				for k := 0; k <= rep; k++ { // the second repetition calls twice: leftovers must not accumulate
					ro, recs, err = c20Call(f, "admin", true, true, "alice", "tools/call", map[string]any{"name": cl.tool, "arguments": cl.args})
				}
				after := c20Snapshot(f.Dir)
				if err != nil {
					c.Inconclusive("C20 write failure case: " + err.Error())
					_ = os.RemoveAll(f.Dir)
					continue
				}
				c.Count("evaluations", 1)
				c.Count("write_failure_calls", 1)
				c.Distinct("nontrivial", fmt.Sprintf("write_failure:%s:%s:%v:calls=%d", ob.name, cl.tool, cl.args["mode"], rep+1))
				text := ""
				if len(ro.Result.Content) > 0 {
					text = ro.Result.Content[0].Text
				}
				wit := map[string]any{"obstacle": ob.name, "tool": cl.tool, "arguments_mode": cl.args["mode"], "is_error": ro.Result.IsError, "text": text[:minInt(300, len(text))], "fs_diff": fsDiff(before, after), "audit": recs}
				if d := fsDiff(before, after); len(d) > 0 {
					c.Violation(vlib.Signature{"class": "touched_other_file", "tool": cl.tool, "case": "write_failure:" + ob.name}, fmt.Sprintf("%s failed to replace the config path (%s) but left changes behind: %v", cl.tool, ob.name, d), wit)
				}
				if !(ro.Error != nil || ro.Result.IsError) {
					c.Violation(vlib.Signature{"class": "failed_write_reported_ok", "tool": cl.tool, "case": ob.name}, fmt.Sprintf("%s reported success although the config path is %s", cl.tool, ob.name), wit)
				}
				if len(recs) != 1 {
					c.Violation(vlib.Signature{"class": "audit_record_count", "tool": cl.tool, "case": "write_failure"}, fmt.Sprintf("%d audit records for one mutating call", len(recs)), wit)
				}
				_ = os.RemoveAll(f.Dir)
			}
		}
	}
}

// c20FreshPath: the configured config path does not exist yet (first
// provisioning through MCP). Whatever the call does - write, refuse, write and
// roll back because no instance takes the file over - the path afterwards is
// either absent or holds content that parses and compiles, nothing else in the
// directory changes, and the call is audited once.
func c20FreshPath(c *vlib.Ctx, root string, row *int) {
	valid := c20Config + "/extra { pull { path /pull/extra } }\n"
	calls := []struct {
		name      string
		args      map[string]any
		mayCreate bool
	}{
		{"write_only", map[string]any{"content": valid, "mode": "write_only"}, true},
		{"write_and_reload_without_instance", map[string]any{"content": valid, "mode": "write_and_reload", "reload_timeout": "100ms"}, false},
		{"write_and_reload_default_timeout_class", map[string]any{"content": valid, "mode": "write_and_reload", "reload_timeout": "1ms"}, false},
		{"preview_only", map[string]any{"content": valid, "mode": "preview_only"}, false},
		{"parse_error_content", map[string]any{"content": "/broken {", "mode": "write_only"}, false},
		{"compile_error_content_write_and_reload", map[string]any{"content": "/a { pull { path /p } }\n/a { pull { path /q } }\n", "mode": "write_and_reload", "reload_timeout": "100ms"}, false},
	}
	for _, cl := range calls {
		for rep := 0; rep < 2; rep++ {
			*row++
			f, err := c20NewFixture(root, *row)
			if err != nil {
				c.Inconclusive(err.Error())
				return
			}
			_ = os.Remove(f.Cfg)
			before := c20Snapshot(f.Dir)
			var ro rpcOut
			var recs []map[string]any
			for k := 0; k <= rep; k++ {
				ro, recs, err = c20Call(f, "admin", true, true, "alice", "tools/call", map[string]any{"name": "config_apply", "arguments": cl.args})
			}
			after := c20Snapshot(f.Dir)
			if err != nil {
				c.Inconclusive("C20 fresh path case: " + err.Error())
				_ = os.RemoveAll(f.Dir)
				continue
			}
			c.Count("evaluations", 1)
			c.Count("fresh_path_calls", 1)
			text := ""
			if len(ro.Result.Content) > 0 {
				text = ro.Result.Content[0].Text
			}
			b, rerr := os.ReadFile(f.Cfg)
			c.Distinct("nontrivial", fmt.Sprintf("fresh_path:%s:calls=%d:file_after=%v:is_error=%v", cl.name, rep+1, rerr == nil, ro.Result.IsError))
			wit := map[string]any{"case": cl.name, "arguments": cl.args, "calls": rep + 1, "is_error": ro.Result.IsError, "text": text[:minInt(300, len(text))], "fs_diff": fsDiff(before, after), "audit": recs, "file_after_len": len(b), "file_after_exists": rerr == nil}
			for _, d := range fsDiff(before, after) {
				if d != "created:Hookaidofile" {
					c.Violation(vlib.Signature{"class": "touched_other_file", "tool": "config_apply", "case": "fresh_path:" + cl.name, "what": d}, fmt.Sprintf("config_apply on a config path that did not exist changed something else: %s", d), wit)
				}
			}
			if rerr == nil {
				if cfg, err := config.Parse(b); err != nil {
					c.Violation(vlib.Signature{"class": "config_file_does_not_parse", "case": "fresh_path:" + cl.name}, fmt.Sprintf("the config path did not exist before; after config_apply (%s) it holds %d bytes that do not parse: %v", cl.name, len(b), err), wit)
				} else if _, res := config.Compile(cfg); !res.OK {
					c.Violation(vlib.Signature{"class": "config_file_does_not_compile", "case": "fresh_path:" + cl.name}, fmt.Sprintf("the config path did not exist before; after config_apply (%s) its content does not compile: %v", cl.name, res.Errors), wit)
				}
				if !cl.mayCreate {
					c.Violation(vlib.Signature{"class": "config_written_unexpectedly", "case": "fresh_path:" + cl.name}, fmt.Sprintf("config_apply (%s) must not leave a config file where there was none", cl.name), wit)
				}
			}
			if len(recs) != 1 {
				c.Violation(vlib.Signature{"class": "audit_record_count", "tool": "config_apply", "case": "fresh_path"}, fmt.Sprintf("%d audit records for one mutating call", len(recs)), wit)
			}
			_ = os.RemoveAll(f.Dir)
		}
	}
}

// c20ActorShapes: a mismatching actor crossed with every optional argument
// that changes how a mutating tool runs (mode, reload_timeout, preview_only,
// limit, state): whatever else the call asks for, it must be refused without
// effect and leave exactly one audit record that does not say "success".
func c20ActorShapes(c *vlib.Ctx, root string, row *int) {
	extras := map[string][]map[string]any{
		"management_endpoint_upsert": {{}, {"mode": "preview_only"}, {"mode": "write_only"}, {"mode": "write_and_reload"}, {"mode": "write_and_reload", "reload_timeout": "100ms"}, {"mode": "write_and_reload", "reload_timeout": "bogus"}, {"reload_timeout": "100ms"}},
		"management_endpoint_delete": {{}, {"mode": "preview_only"}, {"mode": "write_only"}, {"mode": "write_and_reload"}, {"mode": "write_and_reload", "reload_timeout": "100ms"}, {"reload_timeout": "100ms"}},
		"messages_cancel_by_filter":  {{}, {"preview_only": true}, {"limit": 1000}, {"state": "leased"}},
		"messages_requeue_by_filter": {{}, {"preview_only": true}, {"limit": 1000}},
		"messages_resume_by_filter":  {{}, {"preview_only": true}, {"limit": 1000}},
		"messages_publish":           {{}, {"request_id": "r-1"}},
	}
	var names []string
	for n, spec := range c20Tools {
		if spec.Actor {
			names = append(names, n)
		}
	}
	sort.Strings(names)
	for _, tool := range names {
		shapes := extras[tool]
		if len(shapes) == 0 {
			shapes = []map[string]any{{}}
		}
		for si, extra := range shapes {
			// an actor that is supplied but is not a JSON string is not the principal either
			for _, actor := range []any{"mallory", "alice2", "alic", []any{"mallory"}, map[string]any{"id": "mallory"}, 42, true, []any{}} {
				*row++
				f, err := c20NewFixture(root, *row)
				if err != nil {
					c.Inconclusive(err.Error())
					return
				}
				args := c20Args(tool, f, "mallory")
				args["actor"] = actor
				for k, v := range extra {
					args[k] = v
				}
				before := c20Snapshot(f.Dir)
				ro, recs, err := c20Call(f, "admin", true, true, "alice", "tools/call", map[string]any{"name": tool, "arguments": args})
				after := c20Snapshot(f.Dir)
				if err != nil {
					c.Inconclusive(fmt.Sprintf("C20 actor shape %s: %v", tool, err))
					_ = os.RemoveAll(f.Dir)
					continue
				}
				text := ""
				if len(ro.Result.Content) > 0 {
					text = ro.Result.Content[0].Text
				}
				c.Count("evaluations", 1)
				c.Count("actor_shape_calls", 1)
				c.Distinct("nontrivial", fmt.Sprintf("actor_shape:%s:%d:%v", tool, si, actor))
				wit := map[string]any{"tool": tool, "arguments": args, "principal": "alice", "is_error": ro.Result.IsError, "text": text[:minInt(300, len(text))], "audit": recs, "fs_diff": fsDiff(before, after)}
				sig := vlib.Signature{"tool": tool, "shape": fmt.Sprint(si)}
				if !(ro.Error != nil || ro.Result.IsError) {
					sig["class"] = "actor_mismatch_accepted"
					c.Violation(sig, fmt.Sprintf("%s with actor %#v (principal alice) and %v ran: %s", tool, actor, extra, text[:minInt(160, len(text))]), wit)
				}
				if d := fsDiff(before, after); len(d) > 0 {
					s2 := vlib.Signature{"class": "refused_call_had_effect", "tool": tool, "shape": fmt.Sprint(si)}
					c.Violation(s2, fmt.Sprintf("%s with actor %#v (principal alice) and %v changed files: %v", tool, actor, extra, d), wit)
				}
				if len(recs) != 1 {
					c.Violation(vlib.Signature{"class": "audit_record_count", "tool": tool, "case": "actor_shape"}, fmt.Sprintf("%d audit records for one mutating call", len(recs)), wit)
				} else if recs[0]["result"] == "success" {
					c.Violation(vlib.Signature{"class": "audit_record_wrong", "tool": tool, "case": "actor_shape"}, fmt.Sprintf("a call with a mismatching actor is audited as success: %v", recs[0]), wit)
				}
				_ = os.RemoveAll(f.Dir)
			}
		}
	}
}

// c20NameSpellings: tool names that differ from a gated tool's name only by
// padding, case or an invisible suffix, called under server configurations in
// which the tool itself is refused (its flag is off, or no principal is
// configured). However the server reads such a name - as unknown, or as the
// tool - the call must be refused and leave files, queue and processes alone.
func c20NameSpellings(c *vlib.Ctx, root string, row *int) {
	var names []string
	for n, spec := range c20Tools {
		if spec.Flag != "" || spec.Mutating {
			names = append(names, n)
		}
	}
	sort.Strings(names)
	spell := map[string]func(string) string{
		"trailing_space": func(n string) string { return n + " " }, "leading_space": func(n string) string { return " " + n },
		"trailing_newline": func(n string) string { return n + "\n" }, "trailing_tab": func(n string) string { return n + "\t" },
		"upper_case": strings.ToUpper, "trailing_nbsp": func(n string) string { return n + "\u00a0" }, "trailing_nul": func(n string) string { return n + "\x00" },
		"crlf": func(n string) string { return n + "\r\n" },
	}
	var spellNames []string
	for k := range spell {
		spellNames = append(spellNames, k)
	}
	sort.Strings(spellNames)
	type srv struct {
		mut, rt   bool
		principal string
	}
	for _, tool := range names {
		spec := c20Tools[tool]
		// configurations in which the tool itself must be refused although the role suffices
		var cfgs []srv
		if spec.Flag != "" {
			cfgs = append(cfgs, srv{false, false, "alice"})
		}
		if spec.Mutating {
			cfgs = append(cfgs, srv{true, true, ""})
		}
		for _, sn := range spellNames {
			name := spell[sn](tool)
			for _, sv := range cfgs {
				*row++
				f, err := c20NewFixture(root, *row)
				if err != nil {
					c.Inconclusive(err.Error())
					return
				}
				before := c20Snapshot(f.Dir)
				ro, recs, err := c20Call(f, "admin", sv.mut, sv.rt, sv.principal, "tools/call", map[string]any{"name": name, "arguments": c20Args(tool, f, "")})
				after := c20Snapshot(f.Dir)
				if err != nil {
					c.Inconclusive(fmt.Sprintf("C20 name spelling %q: %v", name, err))
					_ = os.RemoveAll(f.Dir)
					continue
				}
				text := ""
				if len(ro.Result.Content) > 0 {
					text = ro.Result.Content[0].Text
				}
				c.Count("evaluations", 1)
				c.Count("name_spelling_calls", 1)
				c.Distinct("nontrivial", fmt.Sprintf("name_spelling:%s:%s:m=%v:p=%v", tool, sn, sv.mut, sv.principal != ""))
				wit := map[string]any{"tool": tool, "name_sent": name, "spelling": sn, "enable_mutations": sv.mut, "enable_runtime_control": sv.rt, "principal": sv.principal,
					"is_error": ro.Result.IsError, "text": text[:minInt(300, len(text))], "audit": recs, "fs_diff": fsDiff(before, after)}
				refused := ro.Error != nil || ro.Result.IsError
				if !refused {
					c.Violation(vlib.Signature{"class": "refused_call_ran", "tool": tool, "name_spelling": sn, "flags": fmt.Sprintf("m=%v,r=%v", sv.mut, sv.rt), "principal": fmt.Sprint(sv.principal != "")},
						fmt.Sprintf("tool name %q ran although %s itself is refused with mutations=%v runtime=%v principal=%q: %s", name, tool, sv.mut, sv.rt, sv.principal, text[:minInt(160, len(text))]), wit)
				}
				if d := fsDiff(before, after); len(d) > 0 {
					c.Violation(vlib.Signature{"class": "refused_call_had_effect", "tool": tool, "name_spelling": sn, "flags": fmt.Sprintf("m=%v,r=%v", sv.mut, sv.rt), "principal": fmt.Sprint(sv.principal != "")},
						fmt.Sprintf("tool name %q changed files although %s itself is refused in this configuration: %v", name, tool, d), wit)
				}
				_ = os.RemoveAll(f.Dir)
			}
		}
	}
}

// c20Spellings: other spellings of a configured path. None of them is
// string-equal to it; on this (case-sensitive) file system the case variants,
// suffix variants and the directory itself name different files.
func c20Spellings(p string) map[string]string {
	dir, base := filepath.Dir(p), filepath.Base(p)
	swap := func(s string) string {
		b := []byte(s)
		for i, ch := range b {
			switch {
			case ch >= 'a' && ch <= 'z':
				b[i] = ch - 32
			case ch >= 'A' && ch <= 'Z':
				b[i] = ch + 32
			}
		}
		return string(b)
	}
	return map[string]string{
		"upper_base":   filepath.Join(dir, strings.ToUpper(base)),
		"lower_base":   filepath.Join(dir, strings.ToLower(base)),
		"swapcase":     filepath.Join(dir, swap(base)),
		"upper_dir":    filepath.Join(filepath.Dir(dir), strings.ToUpper(filepath.Base(dir)), base),
		"suffix_tilde": p + "~",
		"suffix_bak":   p + ".bak",
		"suffix_space": p + " x",
		"prefix_dot":   filepath.Join(dir, "."+base),
		"base_only":    base,
		"nul_suffix":   p + "\x00.conf",
		"dir_itself":   dir,
		"child":        filepath.Join(p, "child"),
		"unicode_fold": strings.Replace(p, "k", "\u212a", 1), // KELVIN SIGN folds to k
	}
}

// c20PathSpellings: config-writing and process-controlling tools called with
// other spellings of the configured path / pid file. Nothing but the configured
// config file may change, no file may appear, the decoy pid file (which names
// a live decoy process) must stay and the decoy must stay alive.
func c20PathSpellings(c *vlib.Ctx, root string, row *int) {
	valid := c20Config + "/extra { pull { path /pull/extra } }\n"
	type call struct {
		tool string
		args func(p string) map[string]any
		pid  bool
	}
	calls := []call{
		{"config_apply", func(p string) map[string]any {
			return map[string]any{"path": p, "content": valid, "mode": "write_only"}
		}, false},
		{"management_endpoint_upsert", func(p string) map[string]any {
			return map[string]any{"path": p, "application": "app1", "endpoint_name": "ep2", "route": "/spare", "reason": "x"}
		}, false},
		{"management_endpoint_delete", func(p string) map[string]any {
			return map[string]any{"path": p, "application": "app1", "endpoint_name": "ep1", "reason": "x"}
		}, false},
		{"instance_stop", func(p string) map[string]any { return map[string]any{"pid_file": p, "timeout": "200ms"} }, true},
		{"instance_reload", func(p string) map[string]any { return map[string]any{"pid_file": p, "timeout": "200ms"} }, true},
	}
	for _, k := range calls {
		*row++
		f, err := c20NewFixture(root, *row)
		if err != nil {
			c.Inconclusive(err.Error())
			return
		}
		conf := f.Cfg
		if k.pid {
			conf = f.PID
		}
		names := []string{}
		sp := c20Spellings(conf)
		for n := range sp {
			names = append(names, n)
		}
		sort.Strings(names)
		for _, n := range names {
			alt := sp[n]
			if alt == conf {
				continue // e.g. lower_base of an all-lower-case name
			}
			// a decoy process and, for pid tools, a decoy pid file under the alternative spelling
			var decoy *exec.Cmd
			decoyFile := ""
			if k.pid {
				decoy = exec.Command("sleep", "30")
				if err := decoy.Start(); err != nil {
					c.Inconclusive("C20 decoy: " + err.Error())
					return
				}
				if !strings.ContainsRune(alt, 0) && n != "dir_itself" && n != "child" && filepath.IsAbs(alt) {
					full := alt
					_ = os.MkdirAll(filepath.Dir(full), 0o755)
					if os.WriteFile(full, []byte(fmt.Sprintf("%d\n", decoy.Process.Pid)), 0o644) == nil {
						decoyFile = full
					}
				}
			}
			before := c20Snapshot(filepath.Dir(f.Dir))
			ro, recs, err := c20Call(f, "admin", true, true, "alice", "tools/call", map[string]any{"name": k.tool, "arguments": k.args(alt)})
			after := c20Snapshot(filepath.Dir(f.Dir))
			c.Count("evaluations", 1)
			c.Distinct("nontrivial", "spelling:"+k.tool+":"+n)
			if err != nil {
				c.Inconclusive("C20 spelling: " + err.Error())
				if decoy != nil {
					_ = decoy.Process.Kill()
					_, _ = decoy.Process.Wait()
				}
				continue
			}
			text := ""
			if len(ro.Result.Content) > 0 {
				text = ro.Result.Content[0].Text
			}
			wit := map[string]any{"tool": k.tool, "spelling": n, "configured": conf, "supplied": alt, "is_error": ro.Result.IsError, "text": text[:minInt(300, len(text))], "fs_diff": fsDiff(before, after), "audit": recs}
			rel, _ := filepath.Rel(filepath.Dir(f.Dir), f.Cfg)
			for _, d := range fsDiff(before, after) {
				if d == "changed:"+rel {
					// only legal when the spelling is accepted as the configured file itself
					c.Violation(vlib.Signature{"class": "config_written_through_other_spelling", "tool": k.tool, "spelling": n}, fmt.Sprintf("%s with path %q (configured %q) rewrote the config file", k.tool, alt, conf), wit)
					continue
				}
				c.Violation(vlib.Signature{"class": "touched_other_file", "tool": k.tool, "spelling": n}, fmt.Sprintf("%s with %q (configured %q) changed the file system: %s", k.tool, alt, conf, d), wit)
			}
			if !ro.Result.IsError {
				c.Violation(vlib.Signature{"class": "foreign_path_accepted", "tool": k.tool, "spelling": n}, fmt.Sprintf("%s accepted %q although the configured path is %q", k.tool, alt, conf), wit)
			}
			if decoy != nil {
				if err := decoy.Process.Signal(syscall.Signal(0)); err != nil {
					c.Violation(vlib.Signature{"class": "foreign_process_signalled", "tool": k.tool, "spelling": n}, fmt.Sprintf("%s with pid_file %q terminated the process named in that foreign file", k.tool, alt), wit)
				}
				_ = decoy.Process.Kill()
				_, _ = decoy.Process.Wait()
			}
			if len(recs) != 1 {
				c.Violation(vlib.Signature{"class": "audit_record_count", "tool": k.tool, "case": "spelling:" + n}, fmt.Sprintf("%d audit records for one mutating call", len(recs)), wit)
			}
			if decoyFile != "" {
				_ = os.Remove(decoyFile)
			}
		}
		_ = os.RemoveAll(f.Dir)
		_ = os.RemoveAll(filepath.Join(filepath.Dir(f.Dir), strings.ToUpper(filepath.Base(f.Dir))))
	}
}

func c20Confinement(c *vlib.Ctx, root string, row *int) {
	type tc struct {
		name string
		tool string
		args func(f c20Fixture, outside string) map[string]any
		// expectations
		mayWriteConfig bool
	}
	valid := c20Config + "/extra { pull { path /pull/extra } }\n"
	cases := []tc{
		{"apply_foreign_absolute_path", "config_apply", func(f c20Fixture, o string) map[string]any {
			return map[string]any{"path": o, "content": valid, "mode": "write_only"}
		}, false},
		{"apply_traversal_path", "config_apply", func(f c20Fixture, o string) map[string]any {
			return map[string]any{"path": filepath.Join(f.Dir, "sub", "..", "..", filepath.Base(filepath.Dir(o)), filepath.Base(o)), "content": valid, "mode": "write_only"}
		}, false},
		{"apply_same_file_via_dotdot", "config_apply", func(f c20Fixture, o string) map[string]any {
			return map[string]any{"path": filepath.Dir(f.Cfg) + "/../" + filepath.Base(f.Dir) + "/Hookaidofile", "content": valid, "mode": "write_only"}
		}, true},
		{"apply_symlink_to_config", "config_apply", func(f c20Fixture, o string) map[string]any {
			l := filepath.Join(f.Dir, "link-to-config")
			_ = os.Symlink(f.Cfg, l)
			return map[string]any{"path": l, "content": valid, "mode": "write_only"}
		}, true},
		{"apply_sibling_file", "config_apply", func(f c20Fixture, o string) map[string]any {
			return map[string]any{"path": filepath.Join(f.Dir, "Other"), "content": valid, "mode": "write_only"}
		}, false},
		{"apply_unknown_key", "config_apply", func(f c20Fixture, o string) map[string]any {
			return map[string]any{"content": valid, "mode": "write_only", "target_path": o}
		}, false},
		{"apply_parse_error_content", "config_apply", func(f c20Fixture, o string) map[string]any {
			return map[string]any{"content": "/broken {", "mode": "write_only"}
		}, false},
		{"apply_compile_error_content", "config_apply", func(f c20Fixture, o string) map[string]any {
			return map[string]any{"content": "/a { pull { path /p } }\n/a { pull { path /q } }\n", "mode": "write_only"}
		}, false},
		{"apply_content_not_string", "config_apply", func(f c20Fixture, o string) map[string]any {
			return map[string]any{"content": 42, "mode": "write_only"}
		}, false},
		{"apply_preview_only", "config_apply", func(f c20Fixture, o string) map[string]any {
			return map[string]any{"content": valid, "mode": "preview_only"}
		}, false},
		{"apply_write_and_reload_without_instance", "config_apply", func(f c20Fixture, o string) map[string]any {
			return map[string]any{"content": valid, "mode": "write_and_reload", "reload_timeout": "150ms"}
		}, false},
		{"apply_valid", "config_apply", func(f c20Fixture, o string) map[string]any {
			return map[string]any{"content": valid, "mode": "write_only"}
		}, true},
		{"upsert_foreign_path", "management_endpoint_upsert", func(f c20Fixture, o string) map[string]any {
			return map[string]any{"path": o, "application": "app1", "endpoint_name": "ep2", "route": "/spare", "reason": "x"}
		}, false},
		{"upsert_unknown_route", "management_endpoint_upsert", func(f c20Fixture, o string) map[string]any {
			return map[string]any{"application": "app1", "endpoint_name": "ep2", "route": "/nope", "reason": "x"}
		}, false},
		{"upsert_valid", "management_endpoint_upsert", func(f c20Fixture, o string) map[string]any {
			return map[string]any{"application": "app1", "endpoint_name": "ep2", "route": "/spare", "reason": "x"}
		}, true},
		{"upsert_write_and_reload_without_instance", "management_endpoint_upsert", func(f c20Fixture, o string) map[string]any {
			return map[string]any{"application": "app1", "endpoint_name": "ep2", "route": "/spare", "reason": "x", "mode": "write_and_reload", "reload_timeout": "150ms"}
		}, false},
		{"delete_foreign_path", "management_endpoint_delete", func(f c20Fixture, o string) map[string]any {
			return map[string]any{"path": o, "application": "app1", "endpoint_name": "ep1", "reason": "x"}
		}, false},
		{"delete_valid", "management_endpoint_delete", func(f c20Fixture, o string) map[string]any {
			return map[string]any{"application": "app1", "endpoint_name": "ep1", "reason": "x"}
		}, true},
		{"delete_unknown_key", "management_endpoint_delete", func(f c20Fixture, o string) map[string]any {
			return map[string]any{"application": "app1", "endpoint_name": "ep1", "reason": "x", "also_delete": "/etc"}
		}, false},
	}
	for _, k := range cases {
		*row++
		f, err := c20NewFixture(root, *row)
		if err != nil {
			c.Inconclusive(err.Error())
			return
		}
		outsideDir := filepath.Join(root, fmt.Sprintf("outside%d", *row))
		_ = os.MkdirAll(outsideDir, 0o755)
		outside := filepath.Join(outsideDir, "victim.conf")
		_ = os.WriteFile(outside, []byte("do not touch\n"), 0o644)
		args := k.args(f, outside)
		before := c20Snapshot(f.Dir)
		beforeOut := c20Snapshot(outsideDir)
		ro, recs, err := c20Call(f, "admin", true, true, "alice", "tools/call", map[string]any{"name": k.tool, "arguments": args})
		after := c20Snapshot(f.Dir)
		afterOut := c20Snapshot(outsideDir)
		if err != nil {
			c.Inconclusive("C20 confinement: " + err.Error())
			continue
		}
		text := ""
		if len(ro.Result.Content) > 0 {
			text = ro.Result.Content[0].Text
		}
		c.Count("evaluations", 1)
		c.Distinct("nontrivial", "confine:"+k.name)
		wit := map[string]any{"case": k.name, "args": args, "is_error": ro.Result.IsError, "text": text[:minInt(300, len(text))], "fs_diff": fsDiff(before, after), "outside_diff": fsDiff(beforeOut, afterOut), "audit": recs}
		if d := fsDiff(beforeOut, afterOut); len(d) > 0 {
			c.Violation(vlib.Signature{"class": "wrote_outside_config_path", "case": k.name}, fmt.Sprintf("%s touched files outside the configured path: %v", k.tool, d), wit)
		}
		for _, d := range fsDiff(before, after) {
			if strings.HasPrefix(d, "created:link-to-config") {
				continue // created by the harness itself
			}
			if d != "changed:Hookaidofile" {
				c.Violation(vlib.Signature{"class": "touched_other_file", "case": k.name, "what": d}, fmt.Sprintf("%s changed something other than the config file: %s", k.tool, d), wit)
			} else if !k.mayWriteConfig {
				c.Violation(vlib.Signature{"class": "config_written_unexpectedly", "case": k.name}, fmt.Sprintf("%s (%s) must not leave a changed config file", k.tool, k.name), wit)
			}
		}
		// whatever is in the config file now must parse and compile
		if b, err := os.ReadFile(f.Cfg); err == nil {
			if cfg, err := config.Parse(b); err != nil {
				c.Violation(vlib.Signature{"class": "config_file_does_not_parse", "case": k.name}, "config file after the call does not parse: "+err.Error(), wit)
			} else if _, res := config.Compile(cfg); !res.OK {
				c.Violation(vlib.Signature{"class": "config_file_does_not_compile", "case": k.name}, fmt.Sprintf("config file after the call does not compile: %v", res.Errors), wit)
			}
		} else {
			c.Violation(vlib.Signature{"class": "config_file_gone", "case": k.name}, "config file missing after the call", wit)
		}
		if len(recs) != 1 {
			c.Violation(vlib.Signature{"class": "audit_record_count", "tool": k.tool, "case": k.name}, fmt.Sprintf("%d audit records for one mutating call", len(recs)), wit)
		}
		_ = os.RemoveAll(f.Dir)
		_ = os.RemoveAll(outsideDir)
	}
}
