package checks

import (
	"errors"
	"fmt"
	"sync"
	"time"

	"github.com/nuetzliches/hookaido/internal/queue"
	"github.com/nuetzliches/hookaido/verifharness/storecheck"
	"github.com/nuetzliches/hookaido/verifharness/vlib"
)

// c12DepthConcurrent: the depth limit under racing producers. Rounds of: fill
// the queue, have one enqueue refused, free k slots (ack, dead-letter, cancel),
// then release 4-12 producers at once (single enqueues and small batches). At
// the quiescent point after every round: active (queued+leased) <= max_depth;
// under reject at most k of the racing messages were admitted, every refusal is
// ErrQueueFull and left nothing behind, every admitted message is there.
func c12DepthConcurrent(c *vlib.Ctx) {
	dir := c.Scratch()
	rounds := c.N(30, 400)
	for _, be := range []string{"memory", "sqlite"} {
		for _, pol := range []string{"reject", "drop_oldest"} {
			for _, depth := range []int{1, 3, 6} {
				r := vlib.Derive(c.Seed, "C12conc", be, pol, depth)
				clock := vlib.NewVClock(vlib.Epoch)
				h, err := vlib.OpenStore(be, vlib.StoreCfg{MaxDepth: depth, DropPolicy: pol}, clock, dir)
				if err != nil {
					c.Inconclusive("C12 concurrent: open store: " + err.Error())
					return
				}
				st := h.Store
				seq := 0
				mk := func() queue.Envelope {
					seq++
					return queue.Envelope{ID: fmt.Sprintf("c%05d", seq), Route: "/r", Target: "pull", Payload: []byte("x")}
				}
				stop := false
				for rd := 0; rd < rounds && !stop; rd++ {
					// fill up and get one refusal / eviction
					for i := 0; i < depth+1; i++ {
						_ = st.Enqueue(mk())
					}
					clock.Advance(time.Second)
					// free k slots
					k := r.Range(1, depth)
					resp, _ := st.Dequeue(queue.DequeueRequest{Route: "/r", Target: "pull", Batch: k, LeaseTTL: time.Hour})
					freed := 0
					for _, it := range resp.Items {
						var err error
						switch r.Intn(3) {
						case 0:
							err = st.Ack(it.LeaseID)
						case 1:
							err = st.MarkDead(it.LeaseID, "verif")
						default:
							_, err = st.CancelMessages(queue.MessageCancelRequest{IDs: []string{it.ID}})
						}
						if err == nil {
							freed++
						}
					}
					s0, err := h.Snap()
					if err != nil {
						c.Inconclusive("C12 concurrent: snapshot: " + err.Error())
						stop = true
						break
					}
					room := depth - s0.Active()
					// racing producers
					producers := r.Range(4, 12)
					type outcome struct {
						ids []string
						err error
					}
					outs := make([]outcome, producers)
					envs := make([][]queue.Envelope, producers)
					for p := range envs {
						n := 1
						if r.Chance(0.25) {
							n = 2
						}
						for j := 0; j < n; j++ {
							envs[p] = append(envs[p], mk())
						}
					}
					var wg sync.WaitGroup
					start := make(chan struct{})
					for p := 0; p < producers; p++ {
						wg.Add(1)
						go func(p int) {
							defer wg.Done()
							<-start
							o := outcome{}
							for _, e := range envs[p] {
								o.ids = append(o.ids, e.ID)
							}
							if len(envs[p]) == 1 {
								o.err = st.Enqueue(envs[p][0])
							} else if b, ok := st.(queue.BatchEnqueuer); ok {
								_, o.err = b.EnqueueBatch(envs[p])
							} else {
								o.err = st.Enqueue(envs[p][0])
								o.ids = o.ids[:1]
							}
							outs[p] = o
						}(p)
					}
					close(start)
					wg.Wait()
					s1, err := h.Snap()
					if err != nil {
						c.Inconclusive("C12 concurrent: snapshot: " + err.Error())
						stop = true
						break
					}
					admitted, refused := 0, 0
					wit := map[string]any{"backend": be, "policy": pol, "max_depth": depth, "round": rd, "freed": freed, "room_before": room, "producers": producers, "active_before": s0.Active(), "active_after": s1.Active()}
					for _, o := range outs {
						if o.err == nil {
							admitted += len(o.ids)
							if pol == "reject" {
								for _, id := range o.ids {
									if _, ok := s1[id]; !ok {
										c.Violation(vlib.Signature{"class": "admitted_message_missing", "backend": be, "policy": pol}, fmt.Sprintf("enqueue of %s reported success but the message is not stored", id), wit)
									}
								}
							}
							continue
						}
						refused += len(o.ids)
						if !errors.Is(o.err, queue.ErrQueueFull) {
							c.Violation(vlib.Signature{"class": "refusal_not_queue_full", "backend": be, "policy": pol}, fmt.Sprintf("racing enqueue failed with %v", o.err), wit)
						}
						for _, id := range o.ids {
							if _, ok := s1[id]; ok {
								c.Violation(vlib.Signature{"class": "refused_message_stored", "backend": be, "policy": pol}, fmt.Sprintf("enqueue of %s was refused but the message is stored", id), wit)
							}
						}
					}
					c.Count("evaluations", 1)
					c.Count("concurrent_admission_rounds", 1)
					c.Count("concurrent_admissions", int64(admitted))
					c.Count("concurrent_refusals", int64(refused))
					c.Distinct("nontrivial", fmt.Sprintf("concurrent_depth:%s:%s:depth%d:room%d:admitted%s", be, pol, depth, room, cmpClass(admitted, room)))
					if s1.Active() > depth {
						c.Violation(vlib.Signature{"class": "depth_exceeded_under_concurrency", "backend": be, "policy": pol},
							fmt.Sprintf("%s/%s max_depth %d: %d active messages after %d producers raced for %d free slot(s) (%d admitted)", be, pol, depth, s1.Active(), producers, room, admitted), wit)
						stop = true
					}
					if pol == "reject" && admitted > room {
						c.Violation(vlib.Signature{"class": "admitted_above_depth", "backend": be, "policy": pol},
							fmt.Sprintf("%s/reject max_depth %d: %d messages admitted into %d free slot(s)", be, depth, admitted, room), wit)
						stop = true
					}
					if rd == 0 && depth == 3 {
						c.Sample(wit)
					}
					// drain for the next round
					for {
						resp, _ := st.Dequeue(queue.DequeueRequest{Batch: 100, LeaseTTL: time.Hour})
						if len(resp.Items) == 0 {
							break
						}
						for _, it := range resp.Items {
							_ = st.Ack(it.LeaseID)
						}
					}
					clock.Advance(3 * time.Hour)
				}
				p := h.Path
				h.Close()
				if p != "" {
					storecheck.RemoveDB(p)
				}
			}
		}
	}
}
