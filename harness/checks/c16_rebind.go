package checks

import (
	"context"
	"errors"
	"fmt"
	"net/http"
	"net/netip"
	"net/url"
	"strings"
	"time"

	"github.com/nuetzliches/hookaido/internal/app"
	"github.com/nuetzliches/hookaido/internal/config"
	"github.com/nuetzliches/hookaido/internal/dispatcher"
	"github.com/nuetzliches/hookaido/verifharness/vlib"
)

// c16Rebinding: ONE deliverer (as the running process has one per target), many deliveries to
// the same host names while the resolver's answers change between deliveries (public -> private
// / loopback / an address inside a denied range / an extra private address next to the public
// one -> public again) and the deliverer's clock moves by 0 s ... 10 min between them. The policy
// must be evaluated on what the name resolves to at the time of each delivery: a delivery is
// sent iff the independent evaluator allows the URL with the answers in force at that moment.
func c16Rebinding(c *vlib.Ctx) {
	n := c.N(160, 6000)
	for i := 0; i < n; i++ {
		r := vlib.Derive(c.Seed, "C16rebind", i)
		txt, pol := c16Policy(vlib.Derive(c.Seed, "C16rebindpol", i))
		if i%2 == 0 {
			// directed half: protection on, nothing else in the way
			pol = egPolicy{rebind: true, redirects: r.Bool()}
			txt = "defaults { egress {\n https_only off\n redirects " + map[bool]string{true: "on", false: "off"}[pol.redirects] + "\n dns_rebind_protection on\n"
			if r.Bool() {
				pol.deny = []egRule{parseRule("203.0.113.0/24")}
				txt += " deny \"203.0.113.0/24\"\n"
			}
			txt += "} }\n/x { deliver \"https://a.example/hook\" {} }\n"
		}
		cfg, err := config.Parse([]byte(txt))
		if err != nil {
			c.Inconclusive("C16 rebinding policy text does not parse: " + err.Error())
			return
		}
		compiled, res := config.Compile(cfg)
		if !res.OK {
			c.Inconclusive("C16 rebinding policy text does not compile: " + strings.Join(res.Errors, "; "))
			return
		}
		needIPs := pol.rebind
		for _, rl := range append(append([]egRule{}, pol.allow...), pol.deny...) {
			if rl.cidr {
				needIPs = true
			}
		}
		resolver := &fakeResolver{answers: map[string][]netip.Addr{}, errs: map[string]bool{}}
		tr := &recTransport{next: map[string]string{}, code: map[string]int{}}
		clock := vlib.NewVClock(vlib.Epoch)
		d := dispatcher.NewHTTPDeliverer(&http.Client{Transport: tr}, app.VerifEgressPolicy(compiled))
		d.Resolver = resolver
		d.Now = clock.Now
		hosts := []string{"a.example", "sub.a.example", "b.test"}
		public := []string{"8.8.8.8", "1.1.1.1", "198.51.100.4", "2606:4700::1111"}
		hostile := []string{"127.0.0.1", "10.0.0.5", "192.168.1.1", "169.254.169.254", "::1", "fd00::1", "203.0.113.7", "0.0.0.0"}
		for _, h := range hosts {
			resolver.answers[h] = []netip.Addr{netip.MustParseAddr(vlib.Pick(r, public))}
		}
		steps := r.Range(6, 14)
		for k := 0; k < steps; k++ {
			host := vlib.Pick(r, hosts)
			// change the answers of one name before most deliveries
			kind := "unchanged"
			if k > 0 && r.Chance(0.7) {
				h := vlib.Pick(r, []string{host, host, vlib.Pick(r, hosts)})
				switch r.Intn(4) {
				case 0:
					resolver.mu.Lock()
					resolver.answers[h] = []netip.Addr{netip.MustParseAddr(vlib.Pick(r, hostile))}
					resolver.mu.Unlock()
					kind = "to_hostile"
				case 1:
					resolver.mu.Lock()
					resolver.answers[h] = append([]netip.Addr{netip.MustParseAddr(vlib.Pick(r, public))}, netip.MustParseAddr(vlib.Pick(r, hostile)))
					resolver.mu.Unlock()
					kind = "hostile_added"
				case 2:
					resolver.mu.Lock()
					resolver.answers[h] = []netip.Addr{netip.MustParseAddr(vlib.Pick(r, public))}
					resolver.mu.Unlock()
					kind = "to_public"
				case 3:
					resolver.mu.Lock()
					resolver.answers[h] = []netip.Addr{netip.MustParseAddr(vlib.Pick(r, public)), netip.MustParseAddr(vlib.Pick(r, public))}
					resolver.mu.Unlock()
					kind = "other_public"
				}
			}
			clock.Advance(vlib.Pick(r, []time.Duration{0, time.Millisecond, time.Second, 5 * time.Second, 29 * time.Second, 31 * time.Second, 10 * time.Minute}))
			raw := fmt.Sprintf("%s://%s/hook/%d", vlib.Pick(r, []string{"https", "https", "http"}), host, k%2) // URLs repeat: a verdict remembered for a URL must not outlive the answers it was based on
			u, _ := url.Parse(raw)
			resolver.mu.Lock()
			ips := append([]netip.Addr(nil), resolver.answers[host]...)
			resolver.mu.Unlock()
			evIPs := ips
			if !needIPs {
				evIPs = nil
			}
			want, why := evalEgress(pol, u, evIPs)
			tr.mu.Lock()
			before := len(tr.calls)
			tr.mu.Unlock()
			ctx, cancel := context.WithTimeout(context.Background(), 5*time.Second)
			res2 := d.Deliver(ctx, dispatcher.Delivery{ID: fmt.Sprintf("m%d", k), Method: "POST", URL: raw, Body: []byte("b")})
			cancel()
			tr.mu.Lock()
			sentNow := len(tr.calls) - before
			tr.mu.Unlock()
			c.Count("evaluations", 1)
			c.Count("rebinding_deliveries", 1)
			c.Distinct("nontrivial", fmt.Sprintf("rebind:%s:allowed=%v:%s", kind, want, why))
			wit := map[string]any{"policy": txt, "url": raw, "delivery": k, "answers_now": fmt.Sprint(ips), "change_before": kind, "clock": clock.Now().Format(time.RFC3339Nano), "error": fmt.Sprint(res2.Err), "status": res2.StatusCode}
			if !want && sentNow > 0 {
				c.Violation(vlib.Signature{"class": "denied_url_reached_transport", "clause": why, "hop": "first", "case": "answers_changed_between_deliveries"},
					fmt.Sprintf("delivery %d to %s was sent although the policy denies it (%s) with what the name resolves to now (%v); last change of the answers: %s", k, raw, why, ips, kind), wit)
			}
			if !want && sentNow == 0 && !(res2.Err != nil && errors.Is(res2.Err, dispatcher.ErrPolicyDenied)) {
				c.Violation(vlib.Signature{"class": "denied_hop_not_reported_as_policy_denied", "clause": why, "hop": "first", "case": "answers_changed_between_deliveries"},
					fmt.Sprintf("delivery %d to %s is denied (%s) and was not sent, but the deliverer reported %v instead of ErrPolicyDenied", k, raw, why, res2.Err), wit)
			}
		}
	}
}
