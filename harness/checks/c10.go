package checks

import (
	"fmt"
	"net/netip"
	"net/url"
	"sort"
	"strings"

	"github.com/nuetzliches/hookaido/verifharness/l2"
	"github.com/nuetzliches/hookaido/verifharness/vlib"
)

// ---- reference model of a route (what the generator wrote into the file) ----

type kv struct{ K, V string }

type refRoute struct {
	Channel      string // inbound | outbound | internal
	Path         string
	Methods      []string // upper-case; empty = POST
	Hosts        []string
	Headers      []kv
	HeaderExists []string
	Query        []kv
	QueryExists  []string
	RemoteIPs    []string
	PullPath     string
	Deliver      string
}

// refClean is an independent path cleaner: collapse slashes, resolve dot
// segments, drop a trailing slash.
func refClean(p string) string {
	var out []string
	for _, seg := range strings.Split(p, "/") {
		switch seg {
		case "", ".":
		case "..":
			if len(out) > 0 {
				out = out[:len(out)-1]
			}
		default:
			out = append(out, seg)
		}
	}
	return "/" + strings.Join(out, "/")
}

func refHost(h string) string {
	h = strings.ToLower(strings.TrimSpace(h))
	if strings.HasPrefix(h, "[") {
		if i := strings.Index(h, "]"); i > 0 {
			return h[1:i]
		}
	}
	if strings.Count(h, ":") == 1 {
		h = h[:strings.Index(h, ":")]
	}
	return strings.TrimSuffix(h, ".")
}

func refPathMatch(req, route string) bool {
	if route == "/" {
		return true
	}
	return req == route || strings.HasPrefix(req, route+"/")
}

type refReq struct {
	Method string
	Path   string // decoded URL path
	Host   string
	Header map[string][]string
	Query  url.Values
	Remote string
}

// matchExceptMethod evaluates every criterion but the method.
func (rt refRoute) matchExceptMethod(q refReq) bool {
	if rt.Channel != "inbound" {
		return false
	}
	if !refPathMatch(refClean(q.Path), rt.Path) {
		return false
	}
	if len(rt.Hosts) > 0 {
		h := refHost(q.Host)
		ok := false
		for _, want := range rt.Hosts {
			want = strings.ToLower(want)
			switch {
			case want == "*":
				ok = true
			case strings.HasPrefix(want, "*."):
				if strings.HasSuffix(h, want[1:]) && h != want[2:] {
					ok = true
				}
			case h == refHost(want):
				ok = true
			}
		}
		if !ok || h == "" {
			return false
		}
	}
	hdr := func(name string) []string {
		var out []string
		for k, vs := range q.Header {
			if strings.EqualFold(k, name) {
				out = append(out, vs...)
			}
		}
		return out
	}
	for _, name := range rt.HeaderExists {
		if len(hdr(name)) == 0 {
			return false
		}
	}
	for _, m := range rt.Headers {
		ok := false
		for _, v := range hdr(m.K) {
			if v == m.V {
				ok = true
			}
		}
		if !ok {
			return false
		}
	}
	for _, name := range rt.QueryExists {
		if _, ok := q.Query[name]; !ok {
			return false
		}
	}
	for _, m := range rt.Query {
		ok := false
		for _, v := range q.Query[m.K] {
			if v == m.V {
				ok = true
			}
		}
		if !ok {
			return false
		}
	}
	if len(rt.RemoteIPs) > 0 {
		host := q.Remote
		if i := strings.LastIndex(host, ":"); i >= 0 && !strings.HasSuffix(host, "]") {
			host = host[:i]
		}
		host = strings.Trim(host, "[]")
		a, err := netip.ParseAddr(host)
		if err != nil {
			return false
		}
		a = a.Unmap()
		ok := false
		for _, raw := range rt.RemoteIPs {
			if p, err := netip.ParsePrefix(raw); err == nil {
				if p.Masked().Contains(a) {
					ok = true
				}
			} else if ip, err := netip.ParseAddr(raw); err == nil && ip == a {
				ok = true
			}
		}
		if !ok {
			return false
		}
	}
	return true
}

func (rt refRoute) methodOK(m string) bool {
	if len(rt.Methods) == 0 {
		return m == "POST"
	}
	for _, x := range rt.Methods {
		if x == m {
			return true
		}
	}
	return false
}

// refResolve: first inbound route in file order whose criteria all hold.
func refResolve(routes []refRoute, q refReq) (route string, status int, allow []string) {
	seen := map[string]bool{}
	for _, rt := range routes {
		if !rt.matchExceptMethod(q) {
			continue
		}
		if rt.methodOK(q.Method) {
			return rt.Path, 202, nil
		}
		ms := rt.Methods
		if len(ms) == 0 {
			ms = []string{"POST"}
		}
		for _, m := range ms {
			if !seen[m] {
				seen[m] = true
				allow = append(allow, m)
			}
		}
	}
	if len(allow) > 0 {
		return "", 405, allow
	}
	return "", 404, nil
}

// ---- generator -----------------------------------------------------------

var c10Paths = []string{"/", "/a", "/a/b", "/a-b", "/ab", "/a/b/c", "/b", "/hooks/x"}
var c10Hosts = []string{"hooks.example.com", "*.example.com", "example.com", "*", "api.test", "*.api.test", "[2001:db8::1]"}
var c10HdrNames = []string{"X-Event", "X-Env", "x-lower", "X-Token"}
var c10Vals = []string{"push", "pull", "prod", "dev", "1"}
var c10QNames = []string{"env", "token", "v"}
var c10IPs = []string{"203.0.113.0/24", "203.0.113.7", "10.0.0.0/8", "2001:db8::/32", "2001:db8::1", "127.0.0.1", "192.0.2.0/25"}

func c10Match(r *vlib.Rand, rt *refRoute) string {
	var b strings.Builder
	if r.Chance(0.45) {
		for _, m := range pickSome(r, []string{"POST", "PUT", "GET", "PATCH", "DELETE"}, 1, 3) {
			rt.Methods = append(rt.Methods, m)
			fmt.Fprintf(&b, "  method %s\n", vlib.Pick(r, []string{m, strings.ToLower(m)}))
		}
	}
	if r.Chance(0.35) {
		for _, h := range pickSome(r, c10Hosts, 1, 2) {
			rt.Hosts = append(rt.Hosts, h)
			fmt.Fprintf(&b, "  host %q\n", vlib.Pick(r, []string{h, strings.ToUpper(h)}))
		}
	}
	if r.Chance(0.3) {
		k, v := vlib.Pick(r, c10HdrNames), vlib.Pick(r, c10Vals)
		rt.Headers = append(rt.Headers, kv{k, v})
		fmt.Fprintf(&b, "  header %q %q\n", k, v)
	}
	if r.Chance(0.2) {
		k := vlib.Pick(r, c10HdrNames)
		rt.HeaderExists = append(rt.HeaderExists, k)
		fmt.Fprintf(&b, "  header_exists %q\n", k)
	}
	if r.Chance(0.3) {
		n := r.Range(1, 2)
		for i := 0; i < n; i++ {
			k, v := c10QNames[i], vlib.Pick(r, c10Vals)
			rt.Query = append(rt.Query, kv{k, v})
			fmt.Fprintf(&b, "  query %q %q\n", k, v)
		}
	}
	if r.Chance(0.2) {
		k := vlib.Pick(r, c10QNames)
		rt.QueryExists = append(rt.QueryExists, k)
		fmt.Fprintf(&b, "  query_exists %q\n", k)
	}
	if r.Chance(0.3) {
		for _, ip := range pickSome(r, c10IPs, 1, 2) {
			rt.RemoteIPs = append(rt.RemoteIPs, ip)
			fmt.Fprintf(&b, "  remote_ip %q\n", ip)
		}
	}
	return b.String()
}

func pickSome(r *vlib.Rand, pool []string, lo, hi int) []string {
	p := append([]string(nil), pool...)
	vlib.Shuffle(r, p)
	n := r.Range(lo, hi)
	if n > len(p) {
		n = len(p)
	}
	out := p[:n]
	return out
}

// c10Shared generates a named matcher meant to be referenced by several routes:
// 3-7 entries of one or two kinds (lists long enough to have spare capacity
// when they are merged with a route's own criteria).
func c10Shared(r *vlib.Rand, name string) (string, refRoute) {
	var b strings.Builder
	var part refRoute
	kinds := pickSome(r, []string{"remote_ip", "method", "host", "header", "header_exists", "query_exists"}, 1, 2)
	for _, k := range kinds {
		n := r.Range(3, 7)
		switch k {
		case "remote_ip":
			for _, ip := range pickSome(r, c10IPs, n, n) {
				part.RemoteIPs = append(part.RemoteIPs, ip)
				fmt.Fprintf(&b, "  remote_ip %q\n", ip)
			}
		case "method":
			for _, m := range pickSome(r, []string{"POST", "PUT", "GET", "PATCH", "DELETE"}, minInt(n, 4), minInt(n, 4)) {
				part.Methods = append(part.Methods, m)
				fmt.Fprintf(&b, "  method %s\n", m)
			}
		case "host":
			for _, h := range pickSome(r, c10Hosts, minInt(n, len(c10Hosts)), minInt(n, len(c10Hosts))) {
				part.Hosts = append(part.Hosts, h)
				fmt.Fprintf(&b, "  host %q\n", h)
			}
		case "header":
			for i := 0; i < minInt(n, 3); i++ {
				k, v := fmt.Sprintf("X-Shared-%s-%d", name[1:], i), vlib.Pick(r, c10Vals)
				part.Headers = append(part.Headers, kv{k, v})
				fmt.Fprintf(&b, "  header %q %q\n", k, v)
			}
		case "header_exists":
			for i := 0; i < minInt(n, 3); i++ {
				k := fmt.Sprintf("X-Has-%s-%d", name[1:], i)
				part.HeaderExists = append(part.HeaderExists, k)
				fmt.Fprintf(&b, "  header_exists %q\n", k)
			}
		case "query_exists":
			for i := 0; i < minInt(n, 3); i++ {
				k := fmt.Sprintf("qs%s%d", name[1:], i)
				part.QueryExists = append(part.QueryExists, k)
				fmt.Fprintf(&b, "  query_exists %q\n", k)
			}
		}
	}
	return fmt.Sprintf("%s {\n%s}\n", name, b.String()), part
}

func (rt *refRoute) merge(p refRoute) {
	rt.Methods = append(rt.Methods, p.Methods...)
	rt.Hosts = append(rt.Hosts, p.Hosts...)
	rt.Headers = append(rt.Headers, p.Headers...)
	rt.HeaderExists = append(rt.HeaderExists, p.HeaderExists...)
	rt.Query = append(rt.Query, p.Query...)
	rt.QueryExists = append(rt.QueryExists, p.QueryExists...)
	rt.RemoteIPs = append(rt.RemoteIPs, p.RemoteIPs...)
}

// c10Config generates a configuration and its reference model.
func c10Config(r *vlib.Rand) (string, []refRoute) {
	var b strings.Builder
	b.WriteString("ingress { listen 127.0.0.1:0 }\npull_api { listen 127.0.0.2:0\n auth token raw:tok }\nadmin_api { listen 127.0.0.3:0 }\n")
	b.WriteString("defaults { egress { https_only off\n dns_rebind_protection off } }\n")
	paths := append([]string(nil), c10Paths...)
	vlib.Shuffle(r, paths)
	n := r.Range(1, 7)
	var routes []refRoute
	var matchers strings.Builder
	var body strings.Builder
	// named matchers shared between routes
	type shared struct {
		name string
		part refRoute
	}
	var shareds []shared
	if r.Chance(0.5) {
		for k := 0; k < r.Range(1, 2); k++ {
			name := fmt.Sprintf("@s%d", k)
			txt, part := c10Shared(r, name)
			matchers.WriteString(txt)
			shareds = append(shareds, shared{name, part})
		}
	}
	for i := 0; i < n; i++ {
		rt := refRoute{Path: paths[i], Channel: "inbound"}
		switch r.Intn(10) {
		case 0, 1:
			rt.Channel = "outbound"
		case 2, 3:
			rt.Channel = "internal"
		}
		var inner strings.Builder
		inner.WriteString("  queue { backend memory }\n")
		if rt.Channel == "inbound" {
			// references to shared matchers before and/or after the route's own criteria
			var refsBefore, refsAfter []string
			for _, sh := range shareds {
				if r.Chance(0.6) {
					if r.Bool() {
						refsBefore = append(refsBefore, sh.name)
					} else {
						refsAfter = append(refsAfter, sh.name)
					}
				}
			}
			mergeRefs := func(names []string) {
				for _, nm := range names {
					for _, sh := range shareds {
						if sh.name == nm {
							rt.merge(sh.part)
						}
					}
				}
			}
			mergeRefs(refsBefore)
			m := c10Match(r, &rt)
			mergeRefs(refsAfter)
			own := ""
			if m != "" {
				if r.Chance(0.3) {
					own = fmt.Sprintf("@m%d", i)
					fmt.Fprintf(&matchers, "%s {\n%s}\n", own, m)
				} else {
					own = "inline"
				}
			}
			switch {
			case own == "inline":
				if len(refsBefore) > 0 {
					fmt.Fprintf(&inner, "  match %s\n", strings.Join(refsBefore, " "))
				}
				fmt.Fprintf(&inner, "  match {\n%s  }\n", m)
				if len(refsAfter) > 0 {
					fmt.Fprintf(&inner, "  match %s\n", strings.Join(refsAfter, " "))
				}
			default:
				names := append([]string{}, refsBefore...)
				if own != "" {
					names = append(names, own)
				}
				names = append(names, refsAfter...)
				if len(names) > 0 {
					fmt.Fprintf(&inner, "  match %s\n", strings.Join(names, " "))
				}
			}
		}
		deliver := rt.Channel == "outbound" || (rt.Channel == "inbound" && r.Chance(0.25))
		if deliver {
			rt.Deliver = fmt.Sprintf("http://127.0.0.1:9/sink%d", i)
			fmt.Fprintf(&inner, "  deliver %q {}\n", rt.Deliver)
		} else {
			rt.PullPath = fmt.Sprintf("/pull/p%d", i)
			fmt.Fprintf(&inner, "  pull { path %s }\n", rt.PullPath)
		}
		prefix := ""
		switch rt.Channel {
		case "outbound", "internal":
			prefix = rt.Channel + " "
		case "inbound":
			if r.Chance(0.2) {
				prefix = "inbound "
			}
		}
		fmt.Fprintf(&body, "%s%s {\n%s}\n", prefix, l2.Quote(rt.Path), inner.String())
		routes = append(routes, rt)
	}
	return b.String() + matchers.String() + body.String(), routes
}

func c10Request(r *vlib.Rand, routes []refRoute) (refReq, string) {
	rt := vlib.Pick(r, routes)
	q := refReq{Method: "POST", Header: map[string][]string{}, Query: url.Values{}, Host: "hookaido.test", Remote: "192.0.2.10:4000"}
	// start from a request that matches the chosen route, then perturb
	base := rt.Path
	if base == "/" {
		base = vlib.Pick(r, []string{"/", "/zzz", "/a"})
	}
	q.Path = base
	if len(rt.Methods) > 0 {
		q.Method = vlib.Pick(r, rt.Methods)
	}
	if len(rt.Hosts) > 0 {
		h := vlib.Pick(r, rt.Hosts)
		switch {
		case h == "*":
			h = "anything.test"
		case strings.HasPrefix(h, "*."):
			h = vlib.Pick(r, []string{"sub.", "a.b."}) + h[2:]
		}
		q.Host = h
	}
	for _, m := range rt.Headers {
		q.Header[m.K] = []string{m.V}
	}
	for _, k := range rt.HeaderExists {
		if _, ok := q.Header[k]; !ok {
			// present with any value, including an empty one and an empty first instance
			q.Header[k] = vlib.Pick(r, [][]string{{"present"}, {"present"}, {""}, {"", "x"}, {"x", ""}})
		}
	}
	for _, m := range rt.Query {
		q.Query.Add(m.K, m.V)
	}
	for _, k := range rt.QueryExists {
		if _, ok := q.Query[k]; !ok {
			q.Query.Add(k, vlib.Pick(r, []string{"", "x"}))
		}
	}
	if len(rt.RemoteIPs) > 0 {
		ip := vlib.Pick(r, rt.RemoteIPs)
		if p, err := netip.ParsePrefix(ip); err == nil {
			ip = p.Masked().Addr().Next().String()
		}
		if strings.Contains(ip, ":") {
			q.Remote = "[" + ip + "]:5000"
		} else if r.Chance(0.3) {
			q.Remote = "[::ffff:" + ip + "]:5000" // IPv4-mapped peer
		} else {
			q.Remote = ip + ":5000"
		}
	}
	// perturbations
	nPert := r.Intn(3)
	for i := 0; i < nPert; i++ {
		switch r.Intn(11) {
		case 0:
			q.Path = vlib.Pick(r, []string{base + "/", base + "/sub", base + "-foo", base + "x", base + "/./sub", base + "/x/..", "/" + base, base + "//y", "/nomatch", "/a/../b", base + "/%2e%2e/zz"})
		case 1:
			q.Method = vlib.Pick(r, []string{"POST", "GET", "PUT", "PATCH", "DELETE", "HEAD", "OPTIONS"})
		case 2:
			q.Host = vlib.Pick(r, []string{"hooks.example.com", "HOOKS.Example.COM:8443", "example.com", "example.com.", "sub.example.com", "api.test", "x.api.test:80", "[2001:db8::1]:443", "[2001:db8::2]", "other.test", "badexample.com"})
		case 3:
			k := vlib.Pick(r, c10HdrNames)
			q.Header[k] = []string{vlib.Pick(r, c10Vals)}
		case 4:
			for k := range q.Header {
				delete(q.Header, k)
				break
			}
		case 5:
			q.Query.Set(vlib.Pick(r, c10QNames), vlib.Pick(r, c10Vals))
		case 6:
			for k := range q.Query {
				q.Query.Del(k)
				break
			}
		case 7:
			q.Remote = vlib.Pick(r, []string{"203.0.113.7:1", "203.0.113.200:1", "203.0.114.1:1", "10.1.2.3:9", "[2001:db8::1]:1", "[2001:db8:1::9]:1", "[2001:db9::1]:1", "[::ffff:203.0.113.7]:1", "[::ffff:10.9.9.9]:1", "127.0.0.1:1", "192.0.2.127:1", "192.0.2.128:1", "198.51.100.1:1"})
		case 8:
			// second value for a matched header / query key
			for k, v := range q.Header {
				q.Header[k] = append([]string{"other"}, v...)
				break
			}
		case 9:
			for k, v := range q.Query {
				q.Query[k] = append([]string{"other"}, v...)
				break
			}
		case 10:
			// lower-case header name on the wire
			for k, v := range q.Header {
				delete(q.Header, k)
				q.Header[strings.ToLower(k)] = v
				break
			}
		}
	}
	target := (&url.URL{Path: q.Path}).EscapedPath()
	if strings.Contains(q.Path, "%2e") {
		target = q.Path // keep the literal percent-encoding on the wire
	}
	if len(q.Query) > 0 {
		target += "?" + q.Query.Encode()
	}
	return q, target
}

// C10: ingress route resolution and channel isolation.
func C10(c *vlib.Ctx) {
	c.Rule("generated configurations (1-7 routes in random order over overlapping paths, random match blocks and named matchers, inbound/outbound/internal via shorthand prefixes, pull or deliver) are started through the production wiring; generated requests (a request matching a chosen route, then 0-2 perturbations of path incl. dot segments / trailing and doubled slashes, method, Host with port/case/trailing dot/IPv6 literal, header and query sets, remote address v4/v6/IPv4-mapped) go to the production ingress handler. Status, Allow header and the route of the newly stored message are compared with an independent reference resolver written from the documented routing semantics. distinct_nontrivial = distinct (expected outcome, channel of the path-matching route, perturbation kinds) classes.")
	c.Assume("request methods are generated in upper case only and header values without commas (the documentation and the implementation differ there; outside the statement)")
	dir := c.Scratch()
	nCfg := c.N(120, 16000)
	perCfg := 140
	started := 0
	for ci := 0; ci < nCfg; ci++ {
		r := vlib.Derive(c.Seed, "C10", ci)
		txt, routes := c10Config(r)
		clock := vlib.NewVClock(vlib.Epoch)
		a, err := l2.Start(dir, txt, nil, clock)
		if err != nil {
			c.Count("configs_refused", 1)
			c.Distinct("refusal_reasons", firstLine(err.Error()))
			continue
		}
		started++
		phase := "start"
		n := perCfg
	probes:
		for k := 0; k < n; k++ {
			q, target := c10Request(r, routes)
			req, err := l2.NewRequest(q.Method, target, []byte("b"), q.Remote)
			if err != nil {
				continue
			}
			req.Host = q.Host
			for k, vs := range q.Header {
				for _, v := range vs {
					req.Header.Add(k, v) // a real server canonicalises names while parsing
				}
			}
			q.Path = req.URL.Path // decoded form, as the server sees it
			q.Query = req.URL.Query()
			before, _ := vlib.ListAll(a.Store)
			resp := l2.Do(a.Ingress, req)
			after, _ := vlib.ListAll(a.Store)
			wantRoute, wantStatus, wantAllow := refResolve(routes, q)
			c.Count("evaluations", 1)
			// which channel owns the path?
			owner := "none"
			for _, rt := range routes {
				if refPathMatch(refClean(q.Path), rt.Path) {
					owner = rt.Channel
					break
				}
			}
			c.Distinct("nontrivial", fmt.Sprintf("%d:%s:methods=%v:%s", wantStatus, owner, len(wantAllow), phase))
			wit := map[string]any{"config": txt, "request": map[string]any{"method": q.Method, "target": target, "host": q.Host, "headers": q.Header, "remote": q.Remote}, "status": resp.Status, "allow": resp.Header.Get("Allow"), "phase": phase}
			var added []string
			beforeIDs := map[string]bool{}
			for _, e := range before {
				beforeIDs[e.ID] = true
			}
			gotRoute := ""
			for _, e := range after {
				if !beforeIDs[e.ID] {
					added = append(added, e.Route)
					gotRoute = e.Route
				}
			}
			if len(added) > 0 {
				// channel isolation first: nothing may ever be stored on a non-inbound route
				for _, rt := range routes {
					if rt.Path == gotRoute && rt.Channel != "inbound" {
						c.Violation(vlib.Signature{"class": "non_inbound_route_reachable", "channel": rt.Channel},
							fmt.Sprintf("%s %s was enqueued on %s route %s through the ingress listener (status %d)", q.Method, target, rt.Channel, rt.Path, resp.Status), wit)
					}
				}
			}
			switch {
			case resp.Status != wantStatus:
				c.Violation(vlib.Signature{"class": "status_differs", "want": fmt.Sprint(wantStatus), "got": fmt.Sprint(resp.Status), "owner": owner},
					fmt.Sprintf("%s %s (host %q, remote %s): status %d, reference resolver says %d (route %q)", q.Method, target, q.Host, q.Remote, resp.Status, wantStatus, wantRoute), wit)
			case wantStatus == 202 && (len(added) == 0 || gotRoute != wantRoute):
				c.Violation(vlib.Signature{"class": "wrong_route", "owner": owner}, fmt.Sprintf("%s %s was handled by route %q, reference resolver says %q", q.Method, target, gotRoute, wantRoute), wit)
			case wantStatus != 202 && len(added) > 0:
				c.Violation(vlib.Signature{"class": "no_match_enqueued"}, fmt.Sprintf("%s %s answered %d but a message was stored on %q", q.Method, target, resp.Status, gotRoute), wit)
			case wantStatus == 405:
				got := strings.Split(resp.Header.Get("Allow"), ", ")
				sort.Strings(got)
				w := append([]string(nil), wantAllow...)
				sort.Strings(w)
				if strings.Join(got, ",") != strings.Join(w, ",") {
					c.Violation(vlib.Signature{"class": "allow_header"}, fmt.Sprintf("405 Allow=%q, expected %v", resp.Header.Get("Allow"), wantAllow), wit)
				}
			}
			if ci < 2 && k < 2 {
				c.Sample(wit)
			}
		}
		// the route table after a reload: a refused reload (the new file also needs a
		// restart) leaves the running table in force, an applied one switches to the
		// table of the new file
		if phase == "start" && ci%4 < 2 {
			txt2, routes2 := c10Config(r)
			if ci%4 == 0 {
				txt2 = strings.Replace(txt2, "pull_api { listen 127.0.0.2:0", "pull_api { listen 127.0.0.9:0", 1)
			}
			_ = a.WriteConfig(txt2)
			ok := a.Reload()
			for try := 0; try < 8 && !ok && ci%4 == 1; try++ {
				// most generated pairs differ in something that needs a restart
				// (deliver routes, backends): try further candidates
				txt2, routes2 = c10Config(r)
				_ = a.WriteConfig(txt2)
				ok = a.Reload()
			}
			c.Count("reloads", 1)
			switch {
			case ci%4 == 0 && !ok:
				phase, n = "after_refused_reload", 40
				c.Count("reloads_refused_as_expected", 1)
				goto probes
			case ci%4 == 1 && ok:
				phase, n, routes, txt = "after_applied_reload", 40, routes2, txt2
				c.Count("reloads_applied", 1)
				goto probes
			default:
				// the second file did not compile / needed a restart for a generated
				// difference (e.g. deliver routes appearing): nothing to compare
				c.Count("reloads_not_comparable", 1)
			}
		}
		a.Close()
	}
	c.Set("configs_started", started)
	if started < nCfg/3 {
		c.Inconclusive(fmt.Sprintf("only %d of %d generated configurations compiled", started, nCfg))
	}
}

func firstLine(s string) string {
	if i := strings.IndexByte(s, '\n'); i >= 0 {
		s = s[:i]
	}
	if len(s) > 120 {
		s = s[:120]
	}
	return s
}
