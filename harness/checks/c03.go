package checks

import (
	"fmt"
	"github.com/nuetzliches/hookaido/internal/verifhook"
	"github.com/nuetzliches/hookaido/verifharness/storecheck"
	"sync"
	"time"

	"github.com/nuetzliches/hookaido/verifharness/leasecheck"
	"github.com/nuetzliches/hookaido/verifharness/vlib"
)

func leaseHistories(c *vlib.Ctx, prop string, mode leasecheck.Mode, n int, stale float64) {
	// Widen the windows between the statements of a store transaction and its
	// commit (every fifth commit waits 200us while holding the write lock, every
	// seventh lease mutation waits before its commit): callers on the other
	// handle and on other connections pile up exactly there.
	hold := 200 * time.Microsecond
	if prop != "C03" {
		hold = 1500 * time.Microsecond // fencing: let stale callers and operators pile up behind a held write lock
	}
	verifhook.SetN("sqlite.commit.before", func(hit int64) {
		if hit%5 == 0 {
			time.Sleep(hold)
		}
	})
	verifhook.SetN("sqlite.lease.after_mutate", func(hit int64) {
		if hit%7 == 0 {
			time.Sleep(100 * time.Microsecond)
		}
	})
	defer func() {
		verifhook.Set("sqlite.commit.before", nil)
		verifhook.Set("sqlite.lease.after_mutate", nil)
		hits := verifhook.Hits()
		c.Set("hook_hits_sqlite_commit_before", hits["sqlite.commit.before"])
		c.Set("hook_hits_sqlite_lease_after_mutate", hits["sqlite.lease.after_mutate"])
	}()
	// histories are independent worlds; run several at a time (16 cores)
	jobs := make(chan int)
	var wg sync.WaitGroup
	for wkr := 0; wkr < 8; wkr++ {
		wg.Add(1)
		go func() {
			defer wg.Done()
			for i := range jobs {
				r := vlib.Derive(c.Seed, prop, i)
				be := []string{"memory", "sqlite"}[i%2]
				sc := vlib.StoreCfg{}
				if r.Chance(0.25) {
					sc.DeliveredRetention = time.Hour
				}
				trs := [][]string{{"direct"}, {"direct", "http", "grpc"}, {"http", "grpc"}, {"http"}, {"grpc"}}[r.Intn(5)]
				cfg := leasecheck.Cfg{
					Backend: be, Store: sc, Messages: r.Range(4, 16), Clients: r.Range(8, 32), Phases: r.Range(20, 60),
					StaleBias: stale, Transports: trs, Operator: r.Chance(0.6), SecondHandle: be == "sqlite" && r.Chance(0.6), Mode: mode, Prop: prop,
					Label: fmt.Sprintf("%s/%s/h%d", prop, be, i),
				}
				if prop == "C14" || (prop == "C04" && i%3 == 0) {
					// operator-heavy: cancel / requeue of leased messages race with the lease
					// holders' settlements (batch forms, second handle on SQLite)
					cfg.Operator, cfg.OperatorPct, cfg.SecondHandle = true, 30, be == "sqlite"
					cfg.BatchPct, cfg.OperatorAimsAtLeased, cfg.StaleBias = 70, true, 0.2
					cfg.Clients, cfg.Phases = r.Range(8, 16), r.Range(15, 30)
				}
				if mode == leasecheck.ModeExclusivity {
					// keep messages circulating: many dequeues, releases mostly by nack / expiry
					cfg.DequeuePct = 55
					cfg.Settle = []leasecheck.Kind{leasecheck.EvNack, leasecheck.EvNack, leasecheck.EvNack, leasecheck.EvExtend, leasecheck.EvAck, leasecheck.EvDead}
					cfg.Clients = r.Range(8, 24)
					cfg.Phases = r.Range(20, 45)
				}
				leasecheck.Run(c, r, cfg)
			}
		}()
	}
	for i := 0; i < n; i++ {
		jobs <- i
	}
	close(jobs)
	wg.Wait()
}

// C03: lease exclusivity.
func C03(c *vlib.Ctx) {
	c.Rule("many short concurrent histories (4-16 messages, 8-32 client goroutines, 20-60 phases, batch 1-5, TTL 50ms-2s of virtual time) over direct Store calls, the Pull HTTP handler and the Worker gRPC service on one store; every client call is recorded at the client boundary (call tick / return tick from one atomic counter) and each message's sub-history is checked with porcupine against a lease-register model in exclusivity mode; the clock is frozen during a phase and moved to lease/schedule boundaries (-1ns, 0, +1ns, +10ms) between phases; the run is built with -race. distinct_nontrivial = distinct (backend, transport, operation, outcome) classes; distinct per-message operation orders are reported as distinct_op_orders.")
	c.Assume("schedules are sampled (8 histories in flight on 16 cores, Gosched and short sleeps between client operations), not enumerated")
	c.Assume("exclusivity mode leaves settlement outcomes to C04 (an outcome the model cannot explain changes nothing in the register) and alarms when a dequeue returns a message the model says is leased-unexpired, not due, canceled, dead or settled, or with attempt != previous+1")
	leaseHistories(c, "C03", leasecheck.ModeExclusivity, c.N(48, 900), 0.15)
	c03Sequential(c)
	leaseDirected(c, "C03")
	c03Dispatcher(c)
	c03LateSettleTwoHandles(c)
	c.CollectRaces()
}

// c03Sequential: single-caller sequences with the snapshot-diff monitor: message
// ids are reused after ack, DLQ delete, eviction and prune, dequeues use batches
// up to 100, and the store has a long past (churn). Every dequeue result is
// checked item by item: no message twice in one response, fresh lease ids,
// only ready or expired messages, attempt = stored attempt + 1.
func c03Sequential(c *vlib.Ctx) {
	w := map[storecheck.Kind]int{storecheck.KEnqueue: 16, storecheck.KEnqueueBatch: 4, storecheck.KDequeue: 18, storecheck.KAck: 8, storecheck.KAckBatch: 4, storecheck.KNack: 4, storecheck.KExtend: 4,
		storecheck.KDead: 4, storecheck.KDeleteDead: 4, storecheck.KCancel: 2, storecheck.KRequeue: 2, storecheck.KAdvance: 12, storecheck.KChurn: 1}
	seqs := c.N(5, 150)
	for _, be := range []string{"memory", "sqlite"} {
		churn := 1050
		if be == "sqlite" {
			churn = 60
		}
		for s := 0; s < seqs; s++ {
			r := vlib.Derive(c.Seed, "C03seq", be, s)
			ww := w
			if be == "sqlite" {
				// the database is opened again (restart with or without a graceful close)
				// while consumers hold leases
				ww = map[storecheck.Kind]int{storecheck.KReopen: 4}
				for k, v := range w {
					ww[k] = v
				}
			}
			g := storecheck.GenCfg{NIDs: r.Range(3, 10), Routes: stdRoutes[:2], Targets: stdTargets[:2], Weights: ww, Churn: churn}
			storecheck.RunSequence(c, r, storecheck.RunCfg{Backends: []string{be}, Gen: g, Steps: r.Range(80, 160),
				Label: fmt.Sprintf("C03/seq/%s/seq%d", be, s), Props: map[string]bool{"C03": true}})
		}
	}
}

// leaseDirected runs the deterministic lease scenarios on both backends; the
// observations of the named property and of its neighbour (a stale call that
// takes effect shows as C04, the double delivery that follows as C03) count.
func leaseDirected(c *vlib.Ctx, prop string) {
	// every duration a consumer was confirmed (lease_ttl, extend_by once and twice) keeps the
	// message away from other consumers until exactly that instant, through every transport
	for _, be := range []string{"memory", "sqlite"} {
		leasecheck.TimingProbe(c, vlib.Derive(c.Seed, prop+"timing", be), be, prop+"/timing/"+be)
	}
	for _, d := range storecheck.LeaseScenarios() {
		for _, be := range []string{"memory", "sqlite"} {
			storecheck.RunSequence(c, vlib.Derive(c.Seed, prop+"dir", d.Name, be), storecheck.RunCfg{
				Backends: []string{be}, Store: d.Cfg, Script: d.Script, Label: prop + "/directed/" + be + "/" + d.Name,
				Props: map[string]bool{prop: true}, Remap: func(o storecheck.Obs) storecheck.Obs {
					if o.Prop == "C03" || o.Prop == "C04" {
						o.Prop = prop
					}
					return o
				}})
			c.Count("directed_lease_scenarios", 1)
		}
	}
}

// C04: lease fencing.
func C04(c *vlib.Ctx) {
	c.Rule("same recorder and model as C03 in fencing mode with a stale-heavy workload: workers keep every lease id they ever saw and present them after expiry, re-lease, cancel, requeue, ack and dead-letter, in single and batch forms (duplicates inside a batch, blank and unknown ids) over direct Store calls, HTTP and gRPC; a listing of every message at each quiescent point is part of the history, so an effect of a stale call is observed even when its return code looks right. distinct_nontrivial = distinct (backend, transport, operation, outcome, duplicate-answer) classes.")
	c.Assume("a 204/OK for a stale ack/nack through the Pull/Worker API is legal only if another call of the same class on the same lease id succeeded and was issued before this one returned (documented idempotent duplicate answer); never for extend, never on direct Store calls")
	leaseHistories(c, "C04", leasecheck.ModeFencing, c.N(48, 900), 0.6)
	c04Sequential(c)
	leaseDirected(c, "C04")
	c.CollectRaces()
}

// c04Sequential: single-caller sequences under the virtual clock with the
// snapshot-diff monitor. Workers keep every lease id they ever saw (padded,
// duplicated inside batches, blank, unknown) and present it after every kind
// of release; each reply is judged against the lease table of the snapshot
// taken before the call, each effect against the snapshot taken after it.
func c04Sequential(c *vlib.Ctx) {
	w := map[storecheck.Kind]int{storecheck.KEnqueue: 8, storecheck.KDequeue: 14, storecheck.KAck: 5, storecheck.KNack: 6, storecheck.KExtend: 5, storecheck.KDead: 5,
		storecheck.KAckBatch: 6, storecheck.KNackBatch: 6, storecheck.KDeadBatch: 6, storecheck.KCancel: 3, storecheck.KRequeue: 3, storecheck.KResume: 2, storecheck.KAdvance: 16}
	seqs := c.N(10, 200)
	for _, be := range []string{"memory", "sqlite"} {
		for s := 0; s < seqs; s++ {
			r := vlib.Derive(c.Seed, "C04seq", be, s)
			g := storecheck.GenCfg{NIDs: r.Range(4, 16), Routes: stdRoutes[:2], Targets: stdTargets[:2], Weights: w, PaddedLeases: true}
			storecheck.RunSequence(c, r, storecheck.RunCfg{Backends: []string{be}, Gen: g, Steps: r.Range(60, 140),
				Label: fmt.Sprintf("C04/seq/%s/seq%d", be, s), Props: map[string]bool{"C04": true}})
		}
	}
}
