package checks

import (
	"bufio"
	"bytes"
	"encoding/json"
	"fmt"
	"io"
	"net"
	"net/http"
	"os"
	"path/filepath"
	"sort"
	"strings"
	"sync"
	"time"

	"github.com/nuetzliches/hookaido/internal/queue"
	"github.com/nuetzliches/hookaido/verifharness/l2"
	"github.com/nuetzliches/hookaido/verifharness/storecheck"
	"github.com/nuetzliches/hookaido/verifharness/vlib"
)

// Fault modes of the TCP proxy between the MCP server and the Admin API.
const (
	c14FaultNone        = "no_fault"
	c14FaultRefused     = "connection_refused"
	c14FaultReplyLost   = "reset_after_admin_replied"
	c14FaultCloseAtOnce = "closed_before_forwarding"
)

// c14FaultProxy is a one-request-per-connection HTTP relay on loopback. A fault
// is armed for exactly one POST (the mutation of the tool call under test);
// every other request is relayed unchanged. It is deliberately dumb: it does
// not know which tool is called and never looks at the payload.
type c14FaultProxy struct {
	ln      net.Listener
	backend string

	mu        sync.Mutex
	armed     string   // fault for the next POST ("" = relay)
	posts     int      // POSTs that arrived since arm()
	forwarded int      // POSTs handed to the Admin API since arm()
	statuses  []int    // status codes the Admin API answered to those POSTs
	problems  []string // proxy-side failures (watchdog deadlines, dial errors): the run is inconclusive
	wg        sync.WaitGroup
}

func newC14FaultProxy(backend string) (*c14FaultProxy, error) {
	ln, err := net.Listen("tcp", "127.0.0.1:0")
	if err != nil {
		return nil, err
	}
	p := &c14FaultProxy{ln: ln, backend: backend}
	go func() {
		for {
			conn, err := ln.Accept()
			if err != nil {
				return
			}
			p.wg.Add(1)
			go func() {
				defer p.wg.Done()
				p.serve(conn)
			}()
		}
	}()
	return p, nil
}

func (p *c14FaultProxy) addr() string { return p.ln.Addr().String() }

func (p *c14FaultProxy) close() {
	_ = p.ln.Close()
	p.wg.Wait()
}

func (p *c14FaultProxy) arm(mode string) {
	p.mu.Lock()
	p.armed, p.posts, p.forwarded, p.statuses = mode, 0, 0, nil
	p.mu.Unlock()
}

// seen waits for the connection handlers to finish and returns what arrived since arm().
func (p *c14FaultProxy) seen() (posts, forwarded int, statuses []int, problems []string) {
	p.wg.Wait()
	p.mu.Lock()
	defer p.mu.Unlock()
	return p.posts, p.forwarded, append([]int(nil), p.statuses...), append([]string(nil), p.problems...)
}

func (p *c14FaultProxy) problem(s string) {
	p.mu.Lock()
	p.problems = append(p.problems, s)
	p.mu.Unlock()
}

func c14Reset(conn net.Conn) {
	if tcp, ok := conn.(*net.TCPConn); ok {
		_ = tcp.SetLinger(0) // close sends RST, nothing is relayed
	}
	_ = conn.Close()
}

func (p *c14FaultProxy) serve(client net.Conn) {
	// generous watchdog: a deadline that fires makes the run inconclusive, never a verdict
	_ = client.SetDeadline(time.Now().Add(15 * time.Second))
	br := bufio.NewReader(client)
	req, err := http.ReadRequest(br)
	if err != nil {
		_ = client.Close() // connection opened and dropped by the client without a request
		return
	}
	body, err := io.ReadAll(req.Body)
	if err != nil {
		p.problem("proxy: reading the request body: " + err.Error())
		_ = client.Close()
		return
	}
	fault := ""
	if req.Method == http.MethodPost {
		p.mu.Lock()
		p.posts++
		fault, p.armed = p.armed, ""
		p.mu.Unlock()
	}
	if fault == c14FaultCloseAtOnce {
		c14Reset(client)
		return
	}
	up, err := net.DialTimeout("tcp", p.backend, 10*time.Second)
	if err != nil {
		p.problem("proxy: dialing the Admin API: " + err.Error())
		_ = client.Close()
		return
	}
	defer up.Close()
	_ = up.SetDeadline(time.Now().Add(15 * time.Second))
	req.Body = io.NopCloser(bytes.NewReader(body))
	req.ContentLength = int64(len(body))
	req.Close = true
	if err := req.Write(up); err != nil {
		p.problem("proxy: forwarding the request: " + err.Error())
		_ = client.Close()
		return
	}
	resp, err := http.ReadResponse(bufio.NewReader(up), req)
	if err != nil {
		p.problem("proxy: reading the Admin API response: " + err.Error())
		_ = client.Close()
		return
	}
	payload, err := io.ReadAll(resp.Body)
	_ = resp.Body.Close()
	if err != nil {
		p.problem("proxy: reading the Admin API response body: " + err.Error())
		_ = client.Close()
		return
	}
	if req.Method == http.MethodPost {
		p.mu.Lock()
		p.forwarded++
		p.statuses = append(p.statuses, resp.StatusCode)
		p.mu.Unlock()
	}
	if fault == c14FaultReplyLost {
		// the Admin API has served the request completely; its reply is lost
		c14Reset(client)
		return
	}
	resp.Body = io.NopCloser(bytes.NewReader(payload))
	resp.ContentLength = int64(len(payload))
	resp.TransferEncoding = nil
	resp.Close = true
	_ = resp.Write(client)
	_ = client.Close()
}

var c14FaultTools = []struct {
	name, countKey string
	kind           storecheck.Kind
}{
	{"messages_cancel", "canceled", storecheck.KCancel},
	{"messages_requeue", "requeued", storecheck.KRequeue},
	{"messages_resume", "resumed", storecheck.KResume},
	{"dlq_requeue", "requeued", storecheck.KRequeueDead},
	{"dlq_delete", "deleted", storecheck.KDeleteDead},
	{"messages_cancel_by_filter", "canceled", storecheck.KCancelF},
	{"messages_requeue_by_filter", "requeued", storecheck.KRequeueF},
	{"messages_resume_by_filter", "resumed", storecheck.KResumeF},
}

func c14StatesOf(k storecheck.Kind) []queue.State {
	var out []queue.State
	for _, s := range vlib.AllStates {
		if stateAllowed(k, s) {
			out = append(out, s)
		}
	}
	return out
}

// c14MCPProxyFaults: the MCP mutation tools of a memory-backed instance reach
// the queue through the Admin API. A TCP proxy between the two loses the
// connection at chosen points of one tool call: not at all, before it exists
// (refused), before the request is forwarded, and after the Admin API has
// committed the mutation and answered (the reply is reset away). Whatever the
// tool then reports, one tool call is one mutation: the messages that changed
// are a subset of what one application of the call selects (named ids in a
// state the operation is defined for / the newest `limit` matches), a reported
// count equals the number of messages that changed, and a call that reports
// success changed exactly its selection.
func c14MCPProxyFaults(c *vlib.Ctx) {
	dir := c.Scratch()
	n := c.N(2, 24)
	modes := []string{c14FaultNone, c14FaultRefused, c14FaultReplyLost, c14FaultCloseAtOnce}
	for i := 0; i < n; i++ {
		r := vlib.Derive(c.Seed, "C14mcpfault", i)
		ln, err := net.Listen("tcp", "127.0.0.1:0")
		if err != nil {
			c.Inconclusive("C14 mcp fault proxy: " + err.Error())
			return
		}
		adminAddr := ln.Addr().String()
		cfgFor := func(admin string) string {
			return fmt.Sprintf(`ingress { listen 127.0.0.1:0 }
pull_api { listen 127.0.0.2:0
 auth token raw:tok }
admin_api { listen %s }
/r0 { queue { backend memory }
 pull { path /p0 } }
/r1 { queue { backend memory }
 pull { path /p1 } }
/r2 { queue { backend memory }
 pull { path /p2 } }
`, admin)
		}
		_ = ln.Close() // the port was only reserved: the production wiring binds and serves it
		a, err := l2.Start(dir, cfgFor(adminAddr), nil, nil)
		if err != nil {
			c.Inconclusive("C14 mcp fault proxy config: " + err.Error())
			return
		}
		px, err := newC14FaultProxy(adminAddr)
		if err != nil {
			a.Close()
			c.Inconclusive("C14 mcp fault proxy: " + err.Error())
			return
		}
		// the MCP server reads the same configuration except that the Admin API
		// is reached through the proxy (or, for "refused", on a port nobody serves)
		mcpDir := filepath.Join(a.Dir, "mcp")
		_ = os.MkdirAll(mcpDir, 0o755)
		viaProxy := filepath.Join(mcpDir, "Hookaidofile")
		refusedCfg := filepath.Join(mcpDir, "Hookaidofile.refused")
		if err := os.WriteFile(viaProxy, []byte(cfgFor(px.addr())), 0o644); err != nil {
			px.close()
			a.Close()
			c.Inconclusive("C14 mcp fault proxy: " + err.Error())
			return
		}
		c14Populate(r, a.Store, r.Range(45, 70))

		type job struct{ tool, mode int }
		var jobs []job
		for t := range c14FaultTools {
			for m := range modes {
				jobs = append(jobs, job{t, m})
			}
		}
		vlib.Shuffle(r, jobs)
		stop := false
		for _, j := range jobs {
			if stop {
				break
			}
			tl, mode := c14FaultTools[j.tool], modes[j.mode]
			before := snapStore(a.Store)
			args := map[string]any{"reason": "verif"}
			var sel []string // what ONE application of the call changes
			limit := 0       // most messages one call may change
			byFilter := strings.HasSuffix(tl.name, "_by_filter")
			matchedAll := 0
			if byFilter {
				// prefer a criterion that matches more than `limit` messages, so that a
				// second application would be visible
				var fl queue.MessageManageFilterRequest
				for try := 0; try < 6; try++ {
					fl = queue.MessageManageFilterRequest{Route: vlib.Pick(r, stdRoutes), Limit: vlib.Pick(r, []int{1, 1, 2, 3})}
					if r.Bool() {
						fl.State = vlib.Pick(r, c14StatesOf(tl.kind))
					}
					all := fl
					all.Limit = 1000
					matchedAll = len(storecheck.SelectByFilter(before, all, tl.kind))
					if matchedAll > fl.Limit {
						break
					}
				}
				args["route"], args["limit"] = fl.Route, fl.Limit
				if fl.State != "" {
					args["state"] = string(fl.State)
				}
				sel = storecheck.SelectByFilter(before, fl, tl.kind)
				limit = fl.Limit
			} else {
				var good, other []string
				for _, id := range before.IDs() {
					if stateAllowed(tl.kind, before[id].State) {
						good = append(good, id)
					} else {
						other = append(other, id)
					}
				}
				var ids []string
				for k := r.Range(1, 3); k > 0 && len(good) > 0; k-- {
					ids = append(ids, vlib.Pick(r, good))
				}
				if len(other) > 0 && r.Chance(0.4) {
					ids = append(ids, vlib.Pick(r, other)) // named, but not in a state the operation is defined for
				}
				if len(ids) == 0 {
					ids = append(ids, vlib.Pick(r, before.IDs()))
				}
				args["ids"] = ids
				seen := map[string]bool{}
				for _, id := range ids {
					if !seen[id] && stateAllowed(tl.kind, before[id].State) {
						sel = append(sel, id)
					}
					seen[id] = true
				}
				limit = len(seen)
				matchedAll = len(sel)
			}
			sort.Strings(sel)

			cfgPath := viaProxy
			px.arm("")
			switch mode {
			case c14FaultRefused:
				rl, err := net.Listen("tcp", "127.0.0.1:0")
				if err != nil {
					c.Inconclusive("C14 mcp fault proxy: " + err.Error())
					stop = true
					continue
				}
				dead := rl.Addr().String()
				_ = rl.Close()
				if err := os.WriteFile(refusedCfg, []byte(cfgFor(dead)), 0o644); err != nil {
					c.Inconclusive("C14 mcp fault proxy: " + err.Error())
					stop = true
					continue
				}
				cfgPath = refusedCfg
			case c14FaultReplyLost, c14FaultCloseAtOnce:
				px.arm(mode)
			}
			f := c20Fixture{Dir: mcpDir, Cfg: cfgPath, DB: "", PID: mcpDir + "/none.pid", Stub: mcpDir + "/none.sh"}
			ro, _, err := c20Call(f, "admin", true, false, "alice", "tools/call", map[string]any{"name": tl.name, "arguments": args})
			if err != nil {
				c.Inconclusive("C14 mcp fault proxy call: " + err.Error())
				stop = true
				continue
			}
			posts, forwarded, statuses, problems := px.seen()
			if len(problems) > 0 {
				c.Inconclusive("C14 mcp fault proxy: " + strings.Join(problems, "; "))
				stop = true
				continue
			}
			after := snapStore(a.Store)
			add, rem, chg := vlib.Diff(before, after)
			got := append(append([]string{}, chg...), rem...)
			sort.Strings(got)
			text := ""
			if len(ro.Result.Content) > 0 {
				text = ro.Result.Content[0].Text
			}
			reported, hasCount := -1, false
			if !ro.Result.IsError {
				var m map[string]any
				if json.Unmarshal([]byte(text), &m) == nil {
					if v, ok := m[tl.countKey].(float64); ok {
						reported, hasCount = int(v), true
					}
				}
			}
			inSel := map[string]bool{}
			for _, id := range sel {
				inSel[id] = true
			}
			var outside []string
			for _, id := range got {
				if !inSel[id] {
					outside = append(outside, id)
				}
			}
			outcome := "error"
			if !ro.Result.IsError {
				outcome = "success"
			}
			form := "by_id"
			if byFilter {
				form = "by_filter"
			}
			c.Count("evaluations", 1)
			c.Count("mcp_fault_calls", 1)
			c.Count("mcp_fault_calls_"+mode, 1)
			c.Count("mcp_fault_admin_posts_arrived", int64(posts))
			if mode == c14FaultReplyLost && forwarded > 0 && len(got) > 0 {
				c.Count("mcp_fault_reply_lost_after_commit", 1)
				if byFilter && matchedAll > limit {
					c.Count("mcp_fault_reply_lost_after_commit_more_matches_than_limit", 1)
				}
			}
			c.Distinct("nontrivial", fmt.Sprintf("mcp_fault:%s:%s:%s:changed%d:more_matches_than_limit=%v", tl.name, mode, outcome, minInt(len(got), 3), matchedAll > limit))
			c.Distinct("mcp_fault_outcomes", fmt.Sprintf("%s:%s:%s:changed=%v", form, mode, outcome, len(got) > 0))
			wit := map[string]any{"tool": tl.name, "args": args, "fault": mode, "is_error": ro.Result.IsError, "response": text[:minInt(400, len(text))],
				"one_application_selects": sel, "changed": got, "added": add, "limit": limit, "matching_messages": matchedAll,
				"admin_posts_arrived_at_proxy": posts, "admin_posts_forwarded": forwarded, "admin_statuses": statuses}
			if i == 0 && c.Counter("mcp_fault_calls_"+mode) <= 1 {
				c.Sample(wit)
			}
			sig := func(class string) vlib.Signature {
				return vlib.Signature{"class": class, "backend": "memory-via-mcp-proxy", "op": tl.name, "fault": mode, "reported": outcome}
			}
			// 1. only what the call names / selects, and at most `limit` of it
			if len(outside) > 0 || len(add) > 0 {
				c.Violation(sig("changed_outside_selection"),
					fmt.Sprintf("MCP (Admin proxy, %s) %s reported %s and changed %v; one application of the call selects %v (also changed: %v, added: %v)", mode, tl.name, outcome, got, sel, outside, add), wit)
			}
			if len(got) > limit {
				c.Violation(sig("more_than_limit_changed"),
					fmt.Sprintf("MCP (Admin proxy, %s) %s may change at most %d messages per call but %d changed: %v", mode, tl.name, limit, len(got), got), wit)
			}
			// 2. a reported count is the number of messages actually changed
			if hasCount && reported != len(got) {
				c.Violation(sig("reported_count_differs"),
					fmt.Sprintf("MCP (Admin proxy, %s) %s reported %s=%d but %d messages changed: %v", mode, tl.name, tl.countKey, reported, len(got), got), wit)
			}
			// 3. a call that reports success has been applied: exactly its selection changed
			if !ro.Result.IsError && len(outside) == 0 && len(add) == 0 && strings.Join(got, ",") != strings.Join(sel, ",") {
				c.Violation(sig("changed_set_differs"),
					fmt.Sprintf("MCP (Admin proxy, %s) %s reported success and changed %v, independent selection says %v", mode, tl.name, got, sel), wit)
			}
			// 4. without a fault nothing stands between the tool and a valid mutation
			if mode == c14FaultNone && ro.Result.IsError {
				c.Violation(vlib.Signature{"class": "valid_mutation_refused", "op": tl.name, "status": "mcp_proxy_error"}, "MCP (Admin proxy, no fault) "+tl.name+" failed: "+text[:minInt(300, len(text))], wit)
			}
			// 5. a call that never reached the Admin API cannot have changed anything
			//    (covered by 1: nothing is forwarded, so any change is outside one application)
			if (mode == c14FaultRefused || mode == c14FaultCloseAtOnce) && forwarded == 0 && len(got) > 0 {
				c.Violation(sig("changed_without_admin_request"),
					fmt.Sprintf("MCP (Admin proxy, %s) %s: no request reached the Admin API but %v changed", mode, tl.name, got), wit)
			}
		}
		px.close()
		a.Close()
	}
	if c.Counter("mcp_fault_calls") > 0 && c.Counter("mcp_fault_reply_lost_after_commit") == 0 {
		c.Inconclusive("C14 mcp fault proxy: no call had its reply lost after the Admin API committed a change")
	}
}
