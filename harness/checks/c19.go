package checks

import (
	"fmt"
	"os"
	"path/filepath"
	"reflect"
	"regexp"
	"runtime"
	"sort"
	"strings"
	"sync"
	"sync/atomic"

	"github.com/nuetzliches/hookaido/internal/config"
	"github.com/nuetzliches/hookaido/verifharness/vlib"
)

// c19Corpus harvests configuration texts from the tree at run time.
func c19Corpus() []string {
	var texts []string
	add := func(s string) {
		s = strings.TrimSpace(s)
		if len(s) > 10 && strings.Contains(s, "{") {
			texts = append(texts, s+"\n")
		}
	}
	if b, err := os.ReadFile("/repo/Hookaidofile"); err == nil {
		add(string(b))
	}
	fence := regexp.MustCompile("(?s)```[a-zA-Z]*\n(.*?)```")
	var mds []string
	for _, g := range []string{"/repo/docs/*.md", "/repo/*.md"} {
		m, _ := filepath.Glob(g)
		mds = append(mds, m...)
	}
	sort.Strings(mds)
	for _, p := range mds {
		b, err := os.ReadFile(p)
		if err != nil {
			continue
		}
		for _, m := range fence.FindAllStringSubmatch(string(b), -1) {
			add(m[1])
		}
	}
	raw := regexp.MustCompile("(?s)`([^`]{20,})`")
	var tests []string
	for _, g := range []string{"/repo/internal/config/*_test.go", "/repo/internal/app/*_test.go", "/repo/internal/mcp/*_test.go"} {
		m, _ := filepath.Glob(g)
		tests = append(tests, m...)
	}
	sort.Strings(tests)
	for _, p := range tests {
		b, err := os.ReadFile(p)
		if err != nil {
			continue
		}
		for _, m := range raw.FindAllStringSubmatch(string(b), -1) {
			add(m[1])
		}
	}
	return texts
}

// splitTopLevel cuts a text into its top-level blocks (brace matching outside
// strings and comments).
func splitTopLevel(t string) []string {
	var out []string
	depth, start := 0, 0
	inStr, inCom := false, false
	for i := 0; i < len(t); i++ {
		ch := t[i]
		switch {
		case inCom:
			if ch == '\n' {
				inCom = false
			}
		case inStr:
			if ch == '\\' {
				i++
			} else if ch == '"' {
				inStr = false
			}
		case ch == '#':
			inCom = true
		case ch == '"':
			inStr = true
		case ch == '{':
			if depth == 0 && i+1 < len(t) && (t[i+1] == '$' || strings.HasPrefix(t[i+1:], "env.") || strings.HasPrefix(t[i+1:], "file.") || strings.HasPrefix(t[i+1:], "vars.")) {
				// placeholder, not a block
				for i < len(t) && t[i] != '}' {
					i++
				}
				continue
			}
			depth++
		case ch == '}':
			if depth > 0 {
				depth--
				if depth == 0 {
					out = append(out, strings.TrimSpace(t[start:i+1]))
					start = i + 1
				}
			}
		}
	}
	return out
}

// ---- spelling mutators (they need not preserve meaning: the property speaks about every text that parses) ----

type tok struct {
	s, e int
	kind byte // 'i' identifier, 's' string, 'b' brace, 'c' comment
}

func c19Lex(t string) []tok {
	var toks []tok
	for i := 0; i < len(t); {
		ch := t[i]
		switch {
		case ch == ' ' || ch == '\t' || ch == '\n' || ch == '\r':
			i++
		case ch == '#':
			j := i
			for j < len(t) && t[j] != '\n' {
				j++
			}
			toks = append(toks, tok{i, j, 'c'})
			i = j
		case ch == '"':
			j := i + 1
			for j < len(t) && t[j] != '"' {
				if t[j] == '\\' {
					j++
				}
				j++
			}
			if j < len(t) {
				j++
			}
			toks = append(toks, tok{i, j, 's'})
			i = j
		case ch == '{' || ch == '}':
			if ch == '{' && i+1 < len(t) && (t[i+1] == '$' || strings.HasPrefix(t[i+1:], "env.") || strings.HasPrefix(t[i+1:], "file.")) {
				j := i
				for j < len(t) && t[j] != '}' {
					j++
				}
				if j < len(t) {
					j++
				}
				toks = append(toks, tok{i, j, 'i'})
				i = j
				continue
			}
			toks = append(toks, tok{i, i + 1, 'b'})
			i++
		default:
			j := i
			for j < len(t) && !strings.ContainsRune(" \t\r\n{}\"#", rune(t[j])) {
				j++
			}
			toks = append(toks, tok{i, j, 'i'})
			i = j
		}
	}
	return toks
}

// c19Exotic: runes and bytes that a generic quoting routine may treat
// differently from the lexer (non-printable Unicode, controls, DEL, invalid UTF-8).
var c19Exotic = []string{"\u00a0", "\u200b", "\u200d", "\u00ad", "\u3000", "\ufeff", "\u2028", "\u2029", "\u0085", "\u007f", "\x01", "\x1b", "\x00", "\xff", "\xc3", "\U0001F600",
	"\U0001F468\u200d\U0001F469", "e\u0301", "\u202e", "\ufffd", "\ue000", "\U000e0001", "\\u00a0", "\\x41", "\\a", "\\0", "\\'", "'", "`", "$", "\\\\n"}

// share of mutations that insert a very long value (set per tier: these texts
// are two orders of magnitude more expensive to compare)
var c19LongChance = 0.03

func c19Mutate(r *vlib.Rand, t string) (string, string) {
	toks := c19Lex(t)
	pick := func(kind byte) (tok, bool) {
		var cand []tok
		for i, k := range toks {
			if k.kind != kind {
				continue
			}
			if kind == 'i' {
				// not the first token of a line and not directly before '{' (directive / block names)
				ls := strings.LastIndexByte(t[:k.s], '\n') + 1
				if strings.TrimSpace(t[ls:k.s]) == "" {
					continue
				}
				if i+1 < len(toks) && toks[i+1].kind == 'b' && t[toks[i+1].s] == '{' && r.Chance(0.8) {
					continue
				}
			}
			cand = append(cand, k)
		}
		if len(cand) == 0 {
			return tok{}, false
		}
		return cand[r.Intn(len(cand))], true
	}
	if r.Chance(c19LongChance) {
		// a very long value (beyond 64 KiB and 1 MiB line / token buffers)
		if k, ok := pick('s'); ok && k.e-k.s >= 2 {
			n := vlib.Pick(r, []int{4096, 65535, 65536, 70000, 1 << 20})
			pos := k.s + 1 + r.Intn(k.e-k.s-1)
			return t[:pos] + strings.Repeat(vlib.Pick(r, []string{"a", "Z9", "%20"}), n/2) + t[pos:], "very_long_value"
		}
		if k, ok := pick('i'); ok {
			return t[:k.e] + strings.Repeat("b", 70000) + t[k.e:], "very_long_value"
		}
	}
	if r.Chance(0.04) {
		// a lone CR (or other line-ending look-alike) inside a comment, followed by text
		// that would be live configuration if the comment ended there
		brk := vlib.Pick(r, []string{"\r", "\r", "\u2028", "\u0085", "\v", "\f", "\r\r", "\x00"})
		tail := vlib.Pick(r, []string{"/debug { pull { path /pull/debug } }", "do not edit by hand", " \t ", "# still a comment", "ingress { listen :1 }", "}"})
		cm := "# note" + brk + tail
		if k, ok := pick('c'); ok && r.Bool() {
			return t[:k.e] + brk + tail + t[k.e:], "line_break_lookalike_in_comment"
		}
		lines := strings.Split(t, "\n")
		i := 0
		if r.Bool() {
			i = r.Intn(len(lines) + 1)
		}
		lines = append(lines[:i], append([]string{cm}, lines[i:]...)...)
		return strings.Join(lines, "\n"), "line_break_lookalike_in_comment"
	}
	switch r.Intn(15) {
	case 14: // percent sequences (URL escapes, things that look like formatting verbs) inside or at the end of a value
		pc := vlib.Pick(r, []string{"%2F", "%20", "%s", "%d", "%v", "%", "%%", "%!", "%[1]s", "%x%y", "%2", "%G1"})
		if k, ok := pick('s'); ok && k.e-k.s >= 2 && r.Bool() {
			pos := k.s + 1 + r.Intn(k.e-k.s-1)
			if r.Bool() {
				pos = k.e - 1
			}
			return t[:pos] + pc + t[pos:], "percent_in_value"
		}
		if k, ok := pick('i'); ok {
			return t[:k.e] + pc + t[k.e:], "percent_in_value"
		}
	case 0: // quote an unquoted value
		if k, ok := pick('i'); ok {
			return t[:k.s] + `"` + t[k.s:k.e] + `"` + t[k.e:], "quote_value"
		}
	case 1: // unquote a quoted value
		if k, ok := pick('s'); ok && k.e-k.s > 2 {
			return t[:k.s] + t[k.s+1:k.e-1] + t[k.e:], "unquote_value"
		}
	case 2: // escapes inside a string
		if k, ok := pick('s'); ok && k.e-k.s > 2 {
			esc := vlib.Pick(r, []string{`\\`, `\"`, `\n`, `\t`, `\r`, `\q`, `\#`, `\{`, ` `, `#`, `{`, `}`, `é`, `é`, vlib.Pick(r, c19Exotic), vlib.Pick(r, c19Exotic)})
			pos := k.s + 1 + r.Intn(k.e-k.s-1)
			return t[:pos] + esc + t[pos:], "escape_in_string"
		}
	case 3: // comment at end of a line
		lines := strings.Split(t, "\n")
		i := r.Intn(len(lines))
		lines[i] += vlib.Pick(r, []string{" # trailing comment", " #", "# glued", " # has \"quotes\" and { braces }"})
		return strings.Join(lines, "\n"), "comment_end_of_line"
	case 4: // comment on its own line
		lines := strings.Split(t, "\n")
		i := r.Intn(len(lines) + 1)
		lines = append(lines[:i], append([]string{vlib.Pick(r, []string{"# own line", "   # indented", "#", "## double"})}, lines[i:]...)...)
		return strings.Join(lines, "\n"), "comment_own_line"
	case 5:
		return strings.ReplaceAll(t, "\n", "\r\n"), "crlf"
	case 6:
		return strings.ReplaceAll(t, "\n", "\r"), "cr_only"
	case 7:
		return "\ufeff" + t, "bom"
	case 8:
		return strings.ReplaceAll(t, "\n", "\n\n"), "blank_lines"
	case 9:
		return strings.ReplaceAll(t, "  ", "\t"), "tabs"
	case 10: // placeholder instead of a value
		if k, ok := pick('i'); ok {
			ph := vlib.Pick(r, []string{"{$VERIF_C19_A}", "{$VERIF_C19_UNSET:fallback}", "{env.VERIF_C19_B}", "{$VERIF_C19_NUM}", "\"{vars.VERIF}\"", "{file." + c19File + "}", "{$VERIF_C19_UNSET}", "\"pre-{$VERIF_C19_A}-post\""})
			return t[:k.s] + ph + t[k.e:], "placeholder_value"
		}
	case 11: // join two lines / put a block on one line
		i := strings.IndexByte(t, '\n')
		if i > 0 {
			pos := 0
			for n := r.Intn(strings.Count(t, "\n")); n > 0; n-- {
				pos += strings.IndexByte(t[pos:], '\n') + 1
			}
			if j := strings.IndexByte(t[pos:], '\n'); j >= 0 {
				return t[:pos+j] + " " + t[pos+j+1:], "join_lines"
			}
		}
	case 12: // duplicate a line (repeated directive)
		lines := strings.Split(t, "\n")
		i := r.Intn(len(lines))
		if strings.TrimSpace(lines[i]) != "" && !strings.ContainsAny(lines[i], "{}") {
			lines = append(lines[:i+1], append([]string{lines[i]}, lines[i+1:]...)...)
			return strings.Join(lines, "\n"), "duplicate_line"
		}
	case 13: // value with characters that need quoting
		if k, ok := pick('s'); ok {
			if r.Chance(0.3) {
				return t[:k.s] + `"x` + vlib.Pick(r, c19Exotic) + `y` + vlib.Pick(r, c19Exotic) + `"` + t[k.e:], "exotic_string_value"
			}
			v := vlib.Pick(r, []string{`"a b"`, `"a#b"`, `"a{b}"`, `"say \"hi\""`, `"tab\there"`, `"back\\slash"`, `""`, `"{$VERIF_C19_A}"`, `"multi word value with  two spaces"`, `"pull"`, `"match"`, `"deliver"`})
			return t[:k.s] + v + t[k.e:], "special_string_value"
		}
	}
	return t, "none"
}

var c19File = "/dev/shm/verif-c19-placeholder"

type c19Result struct {
	parsed bool
}

// c19Check evaluates the round-trip oracle on one text and returns the
// feature tags of the text (for the distinct count).
func c19Check(c *vlib.Ctx, origin string, t string) bool {
	cfg1, err := config.Parse([]byte(t))
	c.Count("texts_generated", 1)
	if err != nil {
		return false
	}
	c.Count("evaluations", 1)
	viol := func(class, what string, extra map[string]string, more map[string]any) {
		sig := vlib.Signature{"class": class}
		for k, v := range extra {
			sig[k] = v
		}
		w := map[string]any{"origin": origin, "text": t}
		for k, v := range more {
			w[k] = v
		}
		c.Violation(sig, what, w)
	}
	c1, r1 := config.Compile(cfg1)
	f, err := config.Format(cfg1)
	if err != nil {
		viol("format_failed", "a text that parses cannot be formatted: "+err.Error(), nil, nil)
		return true
	}
	cfg2, err := config.Parse(f)
	if err != nil {
		viol("formatted_text_does_not_parse", "the formatted text does not parse: "+err.Error(), nil, map[string]any{"formatted": string(f)})
		return true
	}
	c2, r2 := config.Compile(cfg2)
	if r1.OK != r2.OK || !reflect.DeepEqual(r1.Errors, r2.Errors) || !reflect.DeepEqual(r1.Warnings, r2.Warnings) {
		if emptyValueDropped(t, string(f), r1, r2) {
			viol("validation_result_differs", fmt.Sprintf("the formatter dropped a directive whose value is an empty string, and its validation error with it: errors %q -> %q", r1.Errors, r2.Errors),
				map[string]string{"cause": "empty_value_dropped"}, map[string]any{"formatted": string(f)})
			return true
		}
		viol("validation_result_differs", fmt.Sprintf("validation differs after formatting: ok %v -> %v; errors %q -> %q; warnings %q -> %q", r1.OK, r2.OK, r1.Errors, r2.Errors, r1.Warnings, r2.Warnings),
			map[string]string{"ok_before": fmt.Sprint(r1.OK), "ok_after": fmt.Sprint(r2.OK)}, map[string]any{"formatted": string(f)})
		return true
	}
	if !reflect.DeepEqual(c1, c2) {
		viol("compiled_config_differs", "the formatted text compiles to a different runtime configuration: "+diffCompiled(c1, c2), map[string]string{"field": diffField(c1, c2)}, map[string]any{"formatted": string(f)})
		return true
	}
	f2, err := config.Format(cfg2)
	if err != nil || string(f2) != string(f) {
		viol("format_not_idempotent", "formatting the formatted text changes it again", nil, map[string]any{"formatted": string(f), "formatted_twice": string(f2)})
	}
	if r1.OK {
		c.Count("texts_that_compile", 1)
	}
	return true
}

var emptyQuoted = regexp.MustCompile(`"[ \t]*"`)

// emptyValueDropped recognises one specific cause: the text contains an empty
// (or blank) quoted value, the formatted text contains fewer of them, and the
// only change in the validation result is that errors/warnings disappeared.
func emptyValueDropped(t, f string, r1, r2 config.ValidationResult) bool {
	if len(emptyQuoted.FindAllString(t, -1)) <= len(emptyQuoted.FindAllString(f, -1)) {
		return false
	}
	// every error that disappeared is about an empty / missing value (errors that
	// only become visible once the empty entry is gone may appear in r2)
	gone := 0
	var emptyPrefixes, others []string
	// indices inside messages shift when an earlier entry is dropped (token[1] -> token[0])
	norm := func(e string) string { return idxRe.ReplaceAllString(e, "[]") }
	in2 := map[string]int{}
	for _, e := range r2.Errors {
		in2[norm(e)]++
	}
	for _, e := range r1.Errors {
		if in2[norm(e)] > 0 {
			in2[norm(e)]--
			continue
		}
		switch {
		case emptyErr.MatchString(e):
			gone++
			emptyPrefixes = append(emptyPrefixes, errPrefix(e))
		case strings.Contains(e, "references unknown matcher"):
			// consequence: a named matcher with an (empty-value) error is not registered
		default:
			others = append(others, e)
		}
	}
	// other vanished errors must belong to the very directive that was dropped
	// (e.g. `auth forward "" { timeout 0 }`: the block goes with its empty URL)
	for _, e := range others {
		ok := false
		for _, p := range emptyPrefixes {
			if p != "" && errPrefix(e) == p {
				ok = true
			}
		}
		if !ok {
			return false
		}
	}
	return gone > 0
}

// errPrefix: `route "/x" auth forward.url must not be empty` -> `route "/x" auth forward`.
func errPrefix(e string) string {
	if i := strings.Index(e, " must"); i > 0 {
		e = e[:i]
	}
	if i := strings.LastIndexByte(e, '.'); i > 0 {
		e = e[:i]
	}
	return e
}

var idxRe = regexp.MustCompile(`\[\d+\]`)

var emptyErr = regexp.MustCompile(`must not be empty|must include|is empty|must be set|requires a value|empty`)

func diffField(a, b config.Compiled) string {
	va, vb := reflect.ValueOf(a), reflect.ValueOf(b)
	for i := 0; i < va.NumField(); i++ {
		if !reflect.DeepEqual(va.Field(i).Interface(), vb.Field(i).Interface()) {
			name := va.Type().Field(i).Name
			if name == "Routes" && len(a.Routes) == len(b.Routes) {
				for k := range a.Routes {
					ra, rb := reflect.ValueOf(a.Routes[k]), reflect.ValueOf(b.Routes[k])
					for j := 0; j < ra.NumField(); j++ {
						if !reflect.DeepEqual(ra.Field(j).Interface(), rb.Field(j).Interface()) {
							return "Routes." + ra.Type().Field(j).Name
						}
					}
				}
			}
			return name
		}
	}
	return "?"
}

func diffCompiled(a, b config.Compiled) string {
	f := diffField(a, b)
	return fmt.Sprintf("first differing field %s", f)
}

// features tags a text for the distinct count.
func c19Features(t string) string {
	var fs []string
	for _, kw := range []string{"ingress", "pull_api", "admin_api", "defaults", "vars", "secrets", "observability", "queue_retention", "delivered_retention", "dlq_retention", "queue_limits",
		"inbound", "outbound", "internal", "match", "auth basic", "auth hmac", "auth forward", "deliver", "pull", "publish", "rate_limit", "sign ", "retry", "egress", "publish_policy", "tracing", "metrics",
		"trend_signals", "adaptive_backpressure", "tls", "application", "{$", "{env.", "{file.", "{vars.", "#", "\\\"", "\r", "@"} {
		if strings.Contains(t, kw) {
			fs = append(fs, kw)
		}
	}
	return strings.Join(fs, "|")
}

// C19: config fmt round-trips.
// c19Concurrent: Format is called from several places of one process (fmt
// preview, diff, management rewrites, MCP): many goroutines format different
// configurations at the same time. Every result must be the text the same call
// gives when it runs alone.
func c19Concurrent(c *vlib.Ctx, texts []string) {
	type item struct {
		cfg  *config.Config
		want string
	}
	var items []item
	for _, t := range texts {
		cfg, err := config.Parse([]byte(t))
		if err != nil {
			continue
		}
		f, err := config.Format(cfg)
		if err != nil {
			continue
		}
		items = append(items, item{cfg, string(f)})
		if len(items) >= 60 {
			break
		}
	}
	if len(items) < 8 {
		c.Inconclusive("C19 concurrent: too few texts")
		return
	}
	// more goroutines than processors, so that a preempted call is overtaken by
	// others on the same processor
	workers := 4 * runtime.GOMAXPROCS(0)
	if workers < 16 {
		workers = 16
	}
	rounds := c.N(1500, 40000)
	var wg sync.WaitGroup
	var bad atomic.Int64
	var first atomic.Value
	for g := 0; g < workers; g++ {
		wg.Add(1)
		go func(g int) {
			defer wg.Done()
			for k := 0; k < rounds && bad.Load() == 0; k++ {
				it := items[(g*7+k)%len(items)]
				f, err := config.Format(it.cfg)
				if err != nil || string(f) != it.want {
					bad.Add(1)
					first.CompareAndSwap(nil, map[string]any{"alone": it.want, "next_to_other_format_calls": string(f), "error": fmt.Sprint(err)})
				}
			}
		}(g)
	}
	wg.Wait()
	c.Count("evaluations", int64(workers*rounds))
	c.Count("concurrent_format_calls", int64(workers*rounds))
	c.Distinct("nontrivial", fmt.Sprintf("concurrent_format:differs=%v", bad.Load() > 0))
	if bad.Load() > 0 {
		c.Violation(vlib.Signature{"class": "format_differs_under_concurrency"}, "Format of a configuration gives another text when other Format calls run at the same time", first.Load())
	}
}

func C19(c *vlib.Ctx) {
	c.Rule("three generators: (1) grammar-directed texts from a directive table transcribed from the parser (every top-level block, route directive, shorthand and block forms, channel wrappers, named matchers, multi-value directives); (2) spelling mutators applied 1-4 times to any text (quote/unquote, escapes incl. unknown ones, comments in every position, CRLF/CR, BOM, blank lines, tabs, placeholders {$V} {$V:d} {env.V} {file.P} {vars.N}, joined and duplicated lines, values that need quoting); (3) a corpus harvested at run time from the tree (Hookaidofile, fenced blocks of docs/*.md and *.md, raw string literals of the config/app/mcp tests) and recombined block-wise. Oracle on every text that parses: Format(Parse(t)) parses, compiles to a reflect.DeepEqual runtime configuration with the same validation result, and is a fixed point of Format∘Parse; 4 x GOMAXPROCS goroutines formatting different corpus configurations at once must each get the text the call gives alone. distinct_nontrivial = distinct sets of (directive, spelling) features among the texts that parse.")
	c.Assume("environment variables and files referenced by placeholders are fixed by the harness for the whole run")
	os.Setenv("VERIF_C19_A", "alpha")
	os.Setenv("VERIF_C19_B", "beta value")
	os.Setenv("VERIF_C19_NUM", "17")
	os.Unsetenv("VERIF_C19_UNSET")
	_ = os.WriteFile(c19File, []byte("from-file\n"), 0o600)
	defer os.Remove(c19File)
	corpus := c19Corpus()
	c.Set("corpus_texts", len(corpus))
	var parsing []string
	for i, t := range corpus {
		if c19Check(c, fmt.Sprintf("corpus[%d]", i), t) {
			parsing = append(parsing, t)
			c.Distinct("nontrivial", c19Features(t))
		}
	}
	c.Set("corpus_texts_that_parse", len(parsing))
	if len(parsing) < 20 {
		c.Inconclusive(fmt.Sprintf("only %d corpus texts parse", len(parsing)))
		return
	}
	var blocks []string
	for _, t := range parsing {
		blocks = append(blocks, splitTopLevel(t)...)
	}
	c.Set("corpus_blocks", len(blocks))
	c19Concurrent(c, parsing)
	n := c.N(6000, 600000)
	if c.Thorough() {
		c19LongChance = 0.002
	}
	for i := 0; i < n; i++ {
		r := vlib.Derive(c.Seed, "C19", i)
		var t, origin string
		switch r.Intn(10) {
		case 0, 1, 2:
			t = vlib.Pick(r, parsing)
			origin = "corpus+mutation"
		case 3, 4, 5:
			// recombine blocks
			k := r.Range(1, 6)
			var parts []string
			for j := 0; j < k; j++ {
				parts = append(parts, vlib.Pick(r, blocks))
			}
			t = strings.Join(parts, "\n") + "\n"
			origin = "recombined"
		default:
			t = c19Grammar(r)
			origin = "grammar"
		}
		var muts []string
		for m := r.Intn(5); m > 0; m-- {
			var name string
			t, name = c19Mutate(r, t)
			muts = append(muts, name)
		}
		if c19Check(c, origin+":"+strings.Join(muts, ","), t) {
			c.Distinct("nontrivial", c19Features(t)+"/"+strings.Join(muts, ","))
			c.Count("parsed_"+origin, 1)
			if i%2000 == 0 || c.Counter("sampled_texts") < 3 {
				c.Count("sampled_texts", 1)
				c.Sample(map[string]any{"origin": origin, "mutations": muts, "text": t})
			}
		}
	}
}
