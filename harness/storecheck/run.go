package storecheck

import (
	"fmt"
	"os"
	"reflect"
	"sort"
	"strings"

	"github.com/nuetzliches/hookaido/internal/queue"
	"github.com/nuetzliches/hookaido/verifharness/vlib"
)

type RunCfg struct {
	Backends         []string
	Store            vlib.StoreCfg
	Gen              GenCfg
	Steps            int
	Label            string
	Props            map[string]bool // observations of these properties are reported
	Differential     bool
	PredictAdmission bool
	// Remap lets a check claim observations of a neighbouring property (e.g. C12
	// reports "refusal changed the queue" observations of the C02 monitor).
	Remap func(o Obs) Obs
	// Script, when set, replaces the generator by a fixed operation list.
	Script []Op
	// AfterStep lets a property-specific check add probes (may be nil).
	AfterStep func(rs *RunState, op Op, results []Res)
}

type RunState struct {
	C      *vlib.Ctx
	Cfg    RunCfg
	Actors []*Actor
	Snaps  []vlib.Snapshot
	Prev   []vlib.Snapshot
	Lists  [][]queue.Envelope
	Trace  []map[string]any
	Clock  *vlib.VClock
	Stop   bool
}

func (rs *RunState) report(o Obs) {
	if rs.Cfg.Remap != nil {
		o = rs.Cfg.Remap(o)
	}
	if !rs.Cfg.Props[o.Prop] {
		return
	}
	wit := map[string]any{"label": rs.Cfg.Label, "store_cfg": rs.Cfg.Store, "obs": o.Wit, "history": rs.tail(40)}
	rs.C.Violation(o.Sig, o.What, wit)
}

// Report lets property-specific probes file an observation.
func (rs *RunState) Report(o Obs) { rs.report(o) }

// Observe refreshes the snapshot of actor i (after a probe touched the store).
func (rs *RunState) Observe(i int) error { return rs.observe(i) }

func (rs *RunState) tail(n int) []map[string]any {
	if len(rs.Trace) <= n {
		return rs.Trace
	}
	return rs.Trace[len(rs.Trace)-n:]
}

func snapFromList(items []queue.Envelope) (vlib.Snapshot, error) {
	out := make(vlib.Snapshot, len(items))
	for _, it := range items {
		if _, dup := out[it.ID]; dup {
			return nil, fmt.Errorf("listing returned id %q twice", it.ID)
		}
		out[it.ID] = vlib.RowFromEnvelope(it, true)
	}
	return out, nil
}

func (rs *RunState) observe(i int) error {
	a := rs.Actors[i]
	list, err := vlib.ListAll(a.H.Store)
	if err != nil {
		return err
	}
	rs.Lists[i] = list
	if a.H.Backend == "sqlite" {
		s, err := a.H.Snap()
		if err != nil {
			return err
		}
		// the API listing and the SQL dump must agree on everything the API shows
		ls, err := snapFromList(list)
		if err != nil {
			return err
		}
		for id, r := range ls {
			r.HasLease = false
			d, ok := s[id]
			if !ok {
				return fmt.Errorf("listing shows %s, sql dump does not", id)
			}
			d.HasLease = false
			if !vlib.RowEqual(r, d) {
				return fmt.Errorf("listing and sql dump disagree on %s", id)
			}
		}
		if len(ls) != len(s) {
			return fmt.Errorf("listing has %d messages, sql dump %d", len(ls), len(s))
		}
		rs.Snaps[i] = s
		return nil
	}
	s, err := snapFromList(list)
	if err != nil {
		return err
	}
	rs.Snaps[i] = s
	return nil
}

// RunSequence executes one generated operation sequence.
func RunSequence(c *vlib.Ctx, r *vlib.Rand, cfg RunCfg) {
	if only := os.Getenv("VERIF_ONLY"); only != "" && only != cfg.Label {
		return
	}
	clock := vlib.NewVClock(vlib.Epoch)
	rs := &RunState{C: c, Cfg: cfg, Clock: clock}
	dir := c.Scratch()
	for _, b := range cfg.Backends {
		h, err := vlib.OpenStore(b, cfg.Store, clock, dir)
		if err != nil {
			c.Inconclusive("open store: " + err.Error())
			return
		}
		defer func(h *vlib.Handle) {
			p := h.Path
			h.Close()
			if p != "" {
				removeDB(p)
			}
		}(h)
		rs.Actors = append(rs.Actors, NewActor(h))
	}
	rs.Snaps = make([]vlib.Snapshot, len(rs.Actors))
	rs.Lists = make([][]queue.Envelope, len(rs.Actors))
	for i := range rs.Actors {
		if err := rs.observe(i); err != nil {
			c.Inconclusive("initial snapshot: " + err.Error())
			return
		}
	}
	g := NewGen(r, cfg.Gen)
	if cfg.Script != nil {
		cfg.Steps = len(cfg.Script)
	}
	for step := 0; step < cfg.Steps && !rs.Stop; step++ {
		var op Op
		if cfg.Script != nil {
			op = cfg.Script[step]
		} else {
			op = g.Next(rs.Snaps[0], rs.Actors[0], clock.Now())
		}
		results := make([]Res, len(rs.Actors))
		prev := make([]vlib.Snapshot, len(rs.Actors))
		copy(prev, rs.Snaps)
		rs.Prev = prev
		if op.Pre > 0 && op.Kind != KAdvance {
			clock.Advance(op.Pre)
			c.Count("ops_with_unobserved_clock_step", 1)
		}
		nowBefore := clock.NowNS()
		for i, a := range rs.Actors {
			if op.Kind == KAdvance && i > 0 {
				results[i] = Res{Err: "ok", Now: clock.NowNS()}
			} else {
				results[i] = a.Apply(op)
			}
		}
		now := clock.NowNS()
		if op.Kind != KAdvance {
			now = nowBefore
		}
		entry := map[string]any{"step": step, "op": op, "now": now}
		for i, a := range rs.Actors {
			entry["res_"+a.H.Backend] = results[i]
		}
		rs.Trace = append(rs.Trace, entry)
		c.Count("evaluations", 1)
		c.Count("ops_"+string(op.Kind), 1)
		for i, a := range rs.Actors {
			if err := rs.observe(i); err != nil {
				rs.report(Obs{Prop: firstProp(cfg.Props), Sig: vlib.Signature{"class": "listing_broken", "backend": a.H.Backend, "op": string(op.Kind)}, What: "cannot take a consistent listing: " + err.Error()})
				rs.Stop = true
				break
			}
			if results[i].Err == "unsupported" || results[i].Err == "unknown_op" {
				continue
			}
			st := Step{Backend: a.H.Backend, Cfg: cfg.Store, S0: prev[i], S1: rs.Snaps[i], Op: op, Res: results[i], Now: now, PredictAdmission: cfg.PredictAdmission}
			for _, o := range CheckStep(st) {
				rs.report(o)
			}
			if step%8 == 0 || step == cfg.Steps-1 {
				for _, o := range CountersInvariant(a.H, op) {
					rs.report(o)
				}
			}
			// coverage: distinct (operation, outcome, transitions) classes
			cls := string(op.Kind) + ":" + results[i].Err
			_, _, changed := vlib.Diff(prev[i], rs.Snaps[i])
			trs := map[string]bool{}
			for _, id := range changed {
				trs[string(prev[i][id].State)+">"+string(rs.Snaps[i][id].State)] = true
			}
			ks := make([]string, 0, len(trs))
			for k := range trs {
				ks = append(ks, k)
			}
			sort.Strings(ks)
			c.Distinct("nontrivial", a.H.Backend+":"+cls+":"+strings.Join(ks, ","))
			for _, k := range ks {
				c.Distinct("transitions", k)
			}
		}
		if rs.Stop {
			break
		}
		if cfg.Differential && len(rs.Actors) == 2 {
			o := compareBackends(rs, op, results)
			if o != nil && op.Kind == KEnqueue && cfg.Store.MaxDepth > 0 && cfg.Store.DropPolicy == "drop_oldest" && prev[0].Active() > cfg.Store.MaxDepth {
				// single Enqueue on a queue whose active count was lifted above max_depth
				// (operator requeue/resume): one input class, whatever way it shows.
				o.Sig = vlib.Signature{"class": "over_depth_enqueue", "backend": o.Sig["backend"], "op": "enqueue", "policy": "drop_oldest"}
			}
			if o != nil {
				rs.report(*o)
				rs.Stop = true // after a divergence further comparison is meaningless
			}
		}
		if cfg.AfterStep != nil {
			cfg.AfterStep(rs, op, results)
		}
		if os.Getenv("VERIF_DEBUG") != "" {
			fmt.Printf("STEP %d %s\n", step, vlib.JSON(entry))
			for i, a := range rs.Actors {
				for _, id := range rs.Snaps[i].IDs() {
					fmt.Printf("   %s %s\n", a.H.Backend, rowBrief(rs.Snaps[i][id]))
				}
			}
		}
	}
	if len(rs.Trace) > 0 {
		c.Sample(map[string]any{"label": cfg.Label, "store_cfg": cfg.Store.String(), "first_ops": summarize(rs.Trace, 12)})
	}
}

func summarize(tr []map[string]any, n int) []string {
	var out []string
	for i, e := range tr {
		if i >= n {
			break
		}
		op := e["op"].(Op)
		s := op.String()
		for k, v := range e {
			if strings.HasPrefix(k, "res_") {
				r := v.(Res)
				s += fmt.Sprintf(" %s=>%s/%d", strings.TrimPrefix(k, "res_"), r.Err, r.N)
			}
		}
		out = append(out, s)
	}
	return out
}

func firstProp(m map[string]bool) string {
	ks := make([]string, 0, len(m))
	for k := range m {
		ks = append(ks, k)
	}
	sort.Strings(ks)
	if len(ks) == 0 {
		return "C02"
	}
	return ks[0]
}

// ---------------------------------------------------------------------------
// Differential comparison (C13).

func normEnvForCompare(e queue.Envelope, leaseRef func(string) string, withLease bool) map[string]any {
	m := map[string]any{
		"id": e.ID, "route": e.Route, "target": e.Target, "state": string(e.State),
		"received_at": e.ReceivedAt.UnixNano(), "attempt": e.Attempt, "next_run_at": e.NextRunAt.UnixNano(),
		"payload": string(e.Payload), "dead_reason": e.DeadReason, "schema": e.SchemaVersion,
	}
	h := map[string]string{}
	for k, v := range e.Headers {
		h[k] = v
	}
	t := map[string]string{}
	for k, v := range e.Trace {
		t[k] = v
	}
	m["headers"], m["trace"] = h, t
	if withLease {
		m["lease"] = leaseRef(e.LeaseID)
		lu := int64(0)
		if !e.LeaseUntil.IsZero() {
			lu = e.LeaseUntil.UnixNano()
		}
		m["lease_until"] = lu
	}
	return m
}

func compareBackends(rs *RunState, op Op, results []Res) *Obs {
	a, b := rs.Actors[0], rs.Actors[1]
	ra, rb := results[0], results[1]
	mk := func(class, what string, extra map[string]string) *Obs {
		o := obs("C13", class, a.H.Backend+"|"+b.H.Backend, op, what, extra)
		o.Wit = map[string]any{"res_a": ra, "res_b": rb}
		return &o
	}
	if ra.Err == "unsupported" || rb.Err == "unsupported" {
		if ra.Err != rb.Err {
			return mk("interface_support", fmt.Sprintf("%s supported on one backend only", op.Kind), nil)
		}
		return nil
	}
	if ra.Err != rb.Err {
		return mk("error_class", fmt.Sprintf("%s: %s returned %q, %s returned %q", op.Kind, a.H.Backend, ra.Err, b.H.Backend, rb.Err), map[string]string{"a": ra.Err, "b": rb.Err})
	}
	if ra.N != rb.N || ra.Matched != rb.Matched || ra.Preview != rb.Preview {
		return mk("count", fmt.Sprintf("%s: counts differ: %s n=%d matched=%d, %s n=%d matched=%d", op.Kind, a.H.Backend, ra.N, ra.Matched, b.H.Backend, rb.N, rb.Matched), nil)
	}
	refA := func(id string) string { r, _ := a.RefOf(id); return fmt.Sprintf("%s#%d", r.Msg, r.Attempt) }
	refB := func(id string) string { r, _ := b.RefOf(id); return fmt.Sprintf("%s#%d", r.Msg, r.Attempt) }
	switch op.Kind {
	case KDequeue:
		// same set (order among equally eligible messages is exempt)
		na := make([]map[string]any, 0)
		nb := make([]map[string]any, 0)
		for _, e := range ra.Items {
			na = append(na, normEnvForCompare(e, refA, true))
		}
		for _, e := range rb.Items {
			nb = append(nb, normEnvForCompare(e, refB, true))
		}
		sortByID(na)
		sortByID(nb)
		if !reflect.DeepEqual(na, nb) {
			return mk("dequeue_result", "dequeue returned different messages or fields: "+firstDiff(na, nb), nil)
		}
	case KList, KListDead:
		na := make([]map[string]any, 0)
		nb := make([]map[string]any, 0)
		for _, e := range ra.Items {
			na = append(na, normEnvForCompare(e, refA, false))
		}
		for _, e := range rb.Items {
			nb = append(nb, normEnvForCompare(e, refB, false))
		}
		if !reflect.DeepEqual(na, nb) {
			sa, sb := append([]map[string]any(nil), na...), append([]map[string]any(nil), nb...)
			sortByID(sa)
			sortByID(sb)
			cls := "list_result"
			if reflect.DeepEqual(sa, sb) {
				cls = "list_order"
			} else if sameIDSet(sa, sb) {
				cls = "list_fields"
			} else {
				cls = "list_set"
			}
			return mk(cls, string(op.Kind)+" returned different results: "+firstDiff(na, nb), nil)
		}
	case KLookup:
		if !reflect.DeepEqual(ra.Lookup, rb.Lookup) && !(len(ra.Lookup) == 0 && len(rb.Lookup) == 0) {
			return mk("lookup_result", fmt.Sprintf("lookup differs: %v vs %v", ra.Lookup, rb.Lookup), nil)
		}
	case KStats:
		if ra.Stats != nil && rb.Stats != nil && !statsEqual(*ra.Stats, *rb.Stats) {
			return mk("stats", fmt.Sprintf("stats differ: %s vs %s", vlib.JSON(ra.Stats), vlib.JSON(rb.Stats)), nil)
		}
	case KAckBatch, KNackBatch, KDeadBatch:
		ca := conflictsNorm(ra.Batch, refA)
		cb := conflictsNorm(rb.Batch, refB)
		if !reflect.DeepEqual(ca, cb) {
			return mk("conflict_classification", fmt.Sprintf("batch conflicts differ: %v vs %v", ca, cb), nil)
		}
	case KListAtt:
		if !attemptsEqual(ra.Attempts, rb.Attempts) {
			return mk("attempts", fmt.Sprintf("attempt listings differ: %s vs %s", vlib.JSON(ra.Attempts), vlib.JSON(rb.Attempts)), nil)
		}
	case KTrendList:
		if !reflect.DeepEqual(normTrend(ra.Trend), normTrend(rb.Trend)) {
			return mk("trend", fmt.Sprintf("trend listings differ: %s vs %s", vlib.JSON(ra.Trend), vlib.JSON(rb.Trend)), nil)
		}
	}
	// full listing after the step
	la := make([]map[string]any, 0)
	lb := make([]map[string]any, 0)
	for _, e := range rs.Lists[0] {
		la = append(la, normEnvForCompare(e, refA, false))
	}
	for _, e := range rs.Lists[1] {
		lb = append(lb, normEnvForCompare(e, refB, false))
	}
	sortByID(la)
	sortByID(lb)
	if !reflect.DeepEqual(la, lb) {
		cls := "contents_fields"
		if !sameIDSet(la, lb) {
			cls = "contents_set"
		}
		return mk(cls, fmt.Sprintf("after %s the queues differ: %s", op.Kind, firstDiff(la, lb)), map[string]string{"error": ra.Err})
	}
	return nil
}

func sortByID(xs []map[string]any) {
	sort.Slice(xs, func(i, j int) bool { return xs[i]["id"].(string) < xs[j]["id"].(string) })
}

func sameIDSet(a, b []map[string]any) bool {
	if len(a) != len(b) {
		return false
	}
	for i := range a {
		if a[i]["id"] != b[i]["id"] {
			return false
		}
	}
	return true
}

func firstDiff(a, b []map[string]any) string {
	if len(a) != len(b) {
		ia, ib := []string{}, []string{}
		for _, x := range a {
			ia = append(ia, x["id"].(string))
		}
		for _, x := range b {
			ib = append(ib, x["id"].(string))
		}
		return fmt.Sprintf("%d vs %d items (%v vs %v)", len(a), len(b), ia, ib)
	}
	for i := range a {
		if !reflect.DeepEqual(a[i], b[i]) {
			return fmt.Sprintf("item %d: %s vs %s", i, vlib.JSON(a[i]), vlib.JSON(b[i]))
		}
	}
	return "(none)"
}

func conflictsNorm(r *queue.LeaseBatchResult, ref func(string) string) []string {
	if r == nil {
		return nil
	}
	out := []string{}
	for _, c := range r.Conflicts {
		id := strings.TrimSpace(c.LeaseID)
		name := ref(id)
		if name == "#0" {
			name = "lit:" + id
		}
		out = append(out, fmt.Sprintf("%s expired=%v", name, c.Expired))
	}
	sort.Strings(out)
	return out
}

func statsEqual(a, b queue.Stats) bool {
	if a.Total != b.Total || !reflect.DeepEqual(a.ByState, b.ByState) {
		return false
	}
	if a.OldestQueuedReceivedAt.UnixNano() != b.OldestQueuedReceivedAt.UnixNano() && !(a.OldestQueuedReceivedAt.IsZero() && b.OldestQueuedReceivedAt.IsZero()) {
		return false
	}
	if a.EarliestQueuedNextRun.UnixNano() != b.EarliestQueuedNextRun.UnixNano() && !(a.EarliestQueuedNextRun.IsZero() && b.EarliestQueuedNextRun.IsZero()) {
		return false
	}
	if a.OldestQueuedAge != b.OldestQueuedAge || a.ReadyLag != b.ReadyLag {
		return false
	}
	if len(a.TopQueued) != len(b.TopQueued) {
		return false
	}
	for i := range a.TopQueued {
		x, y := a.TopQueued[i], b.TopQueued[i]
		if x.Route != y.Route || x.Target != y.Target || x.Queued != y.Queued || x.OldestQueuedAge != y.OldestQueuedAge || x.ReadyLag != y.ReadyLag ||
			x.OldestQueuedReceivedAt.UnixNano() != y.OldestQueuedReceivedAt.UnixNano() && !(x.OldestQueuedReceivedAt.IsZero() && y.OldestQueuedReceivedAt.IsZero()) ||
			x.EarliestQueuedNextRun.UnixNano() != y.EarliestQueuedNextRun.UnixNano() && !(x.EarliestQueuedNextRun.IsZero() && y.EarliestQueuedNextRun.IsZero()) {
			return false
		}
	}
	return true
}

func attemptsEqual(a, b []queue.DeliveryAttempt) bool {
	if len(a) != len(b) {
		return false
	}
	for i := range a {
		x, y := a[i], b[i]
		if x.ID != y.ID || x.EventID != y.EventID || x.Route != y.Route || x.Target != y.Target || x.Attempt != y.Attempt ||
			x.StatusCode != y.StatusCode || x.Error != y.Error || x.Outcome != y.Outcome || x.DeadReason != y.DeadReason ||
			x.CreatedAt.UnixNano() != y.CreatedAt.UnixNano() {
			return false
		}
	}
	return true
}

func normTrend(t *queue.BacklogTrendListResponse) any {
	if t == nil {
		return nil
	}
	out := []string{fmt.Sprint(t.Truncated)}
	for _, s := range t.Items {
		out = append(out, fmt.Sprintf("%d q=%d l=%d d=%d", s.CapturedAt.UnixNano(), s.Queued, s.Leased, s.Dead))
	}
	return out
}
